"""C09 (Tie A): the three word SCANS of integer/src/bits.rs — `trailing_zeros_large`, `trailing_zeros_large_shifted_by_one`,
`trailing_ones_large` — regenerated statement by statement as Lean definitions over the CHECKED machine-integer
operations of `Dashu/Model/GluePrelude/MachInt.lean` (translator `MachTr` of vlib/extract.py, extended here), loaded by
extract.py (`FILES["BitScans.lean"]`).

Read from the source:
  * the scan loop `let mut i = K; while i < words.len() { if words[i] != C { break; } i += 1; }`: its start index K and
    the word value C it skips (`0`, `Word::MAX`) -> `scan words C K` (first index >= K whose word is not C, else the length);
  * every slice access `words[e]` -> a CHECKED access (`none` = index out of bounds: the panic of the historical
    `trailing_ones_large` on an all-ones value, and of `trailing_zeros_large` on zero);
  * the early exit `if one_words == words.len() { return …; }`, the `if`/`else` of the shifted scan, all index arithmetic
    (`*`, `+`, `-` checked: `none` = overflow/underflow), `>> 1`, `.trailing_zeros()`, `.trailing_ones()`, the `as usize` casts.
`debug_assert!`s are skipped (the theorems carry them as hypotheses).  `Props/GenScans.lean` proves the three regenerated
scans total on canonical operands and EQUAL to the hand mirrors `tzLarge`, `toScanFixed`, `tzLargeShiftedByOne` of
`Model/Int/Bits.lean` (the definitions the C09 driver executes); the historical body of `trailing_ones_large` (start index 1,
no all-ones exit) does not satisfy the theorem.  Fails closed outside the subset."""
import re, hashlib

LOOP = re.compile(r"let\s+mut\s+(\w+)\s*=\s*(\d+)\s*;\s*while\s+(\w+)\s*<\s*words\.len\(\)\s*\{\s*if\s+words\[(\w+)\]\s*!=\s*([^{}]+?)\s*\{\s*break;\s*\}\s*"
                  r"(\w+)\s*\+=\s*1\s*;\s*\}")


def generate(X):
    rel = "integer/src/bits.rs"
    src = X.read(rel)

    class ScanTr(X.MachTr):
        def special(self, e):
            if e[0] == "call" and e[1][0] == "path" and len(e[1][1]) == 1 and e[1][1][0] in ("index_words", "len_words", "scan_words", "any_nonzero_below", "last_word", "sum_count_ones", "sum_count_zeros", "all_zero_below", "tz_shifted_words"):
                return e[1][1][0]
            if e[0] == "mcall" and e[2] in ("trailing_zeros", "trailing_ones", "is_power_of_two") and not e[3]:
                return e[2]
            return None

        def wof(self, e, env):
            s = self.special(e)
            if s in ("index_words", "last_word"):
                return "W"
            if s in ("len_words", "scan_words", "sum_count_ones", "sum_count_zeros", "tz_shifted_words"):
                return "U"
            if s in ("trailing_zeros", "trailing_ones"):
                return "32"
            if s in ("any_nonzero_below", "all_zero_below", "is_power_of_two") or (e[0] == "bin" and e[1] == "||"):
                return "Bool"
            return super().wof(e, env)

        def ex(self, e, env, lines, ind, expect=None):
            s = self.special(e)
            if s == "index_words":
                if len(e[2]) != 1:
                    self.fail("index_words arity")
                a, w = super().ex(e[2][0], env, lines, ind, "U") if self.special(e[2][0]) is None else self.ex(e[2][0], env, lines, ind, "U")
                self.unify(w, "U", "slice index")
                t = self.fresh()
                lines.append("%slet %s ← index words %s" % (ind, t, a))
                return t, "W"
            if s == "last_word":
                t = self.fresh()
                lines.append("%slet %s ← words.getLast?" % (ind, t))          # `.last().unwrap()`: none on an empty slice
                return t, "W"
            if s == "len_words":
                return "words.length", "U"
            if s == "tz_shifted_words":
                t = self.fresh()          # `trailing_zeros_large_shifted_by_one(words)`: the regenerated scan above (`none` = its panic)
                lines.append("%slet %s ← trailing_zeros_large_shifted_by_one W U words" % (ind, t))
                return t, "U"
            if s == "scan_words":
                c, wc = self.ex(e[2][0], env, lines, ind, "W")
                self.unify(wc, "W", "scanned word value")
                k, wk = self.ex(e[2][1], env, lines, ind, "U")
                return "(scan words %s %s)" % (c, k), "U"
            if s in ("sum_count_ones", "sum_count_zeros"):
                t = self.fresh()
                lines.append("%slet %s ← sum_checked U (%s W) words" % (ind, t, s[4:]))
                return t, "U"
            if s == "all_zero_below":
                a, w = self.ex(e[2][0], env, lines, ind, "U")
                self.unify(w, "U", "prefix length")
                t = self.fresh()
                lines.append("%slet %s ← (if %s ≤ words.length then some ((words.take %s).all (· == 0)) else none)" % (ind, t, a, a))
                return t, "Bool"
            if s == "is_power_of_two":
                a, w = self.ex(e[1], env, lines, ind)
                return "(is_power_of_two %s)" % a, "Bool"
            if s == "any_nonzero_below":
                a, w = self.ex(e[2][0], env, lines, ind, "U")
                self.unify(w, "U", "prefix length")
                return "((words.take %s).any (· != 0))" % a, "Bool"
            if e[0] == "bin" and e[1] == "||":
                # short circuit: the right operand (a slice access that may be out of bounds) only when the left one is false
                a, wa = self.ex(e[2], env, lines, ind)
                if wa != "Bool":
                    self.fail("`||` of a non-boolean")
                t = self.fresh()
                sub = []
                b, wb = self.ex(e[3], env, sub, ind + "  ")
                if wb != "Bool":
                    self.fail("`||` of a non-boolean")
                lines.append("%slet %s ← (if %s then pure true else do" % (ind, t, a))
                lines.extend(sub)
                lines.append("%s  pure %s : Option Bool)" % (ind, b))
                return t, "Bool"
            if s in ("trailing_zeros", "trailing_ones"):
                a, w = self.ex(e[1], env, lines, ind)
                if w is None or isinstance(w, tuple) or w == "Bool":
                    self.fail("%s of an untyped value" % s)
                return "(%s %s %s)" % (s, w, a), "32"
            return super().ex(e, env, lines, ind, expect)

    out, info = [], {}
    out += ["import Dashu.Gen.MathHelpers",
            "/-! GENERATED by vlib/extract.py (vlib/extract_scans.py) from /repo — do not edit.  C09: the word scans of",
            "    `integer/src/bits.rs` (`mod repr`) over checked machine integers: `none` = an index out of bounds or an",
            "    arithmetic overflow (a panic).  A slice `&[Word]` is a `List Nat`, low word first. -/",
            "namespace Dashu.Gen.BitScans", "open Dashu.GluePrelude", "set_option linter.unusedVariables false", "",
            "/-- `words[i]`: `none` when `i` is out of bounds -/",
            "def index (words : List Nat) (i : Nat) : Option Nat := words[i]?",
            "",
            "/-- `let mut i = start; while i < words.len() { if words[i] != c { break; } i += 1; }` — the final `i` -/",
            "def scan (words : List Nat) (c start : Nat) : Nat := start + ((words.drop start).takeWhile (· == c)).length",
            "",
            "/-- `x.trailing_zeros()` of a `bits`-wide integer (`bits` for 0) -/",
            "def trailing_zeros : Nat → Nat → Nat",
            "  | 0, _ => 0",
            "  | bits + 1, x => if x % 2 = 1 then 0 else trailing_zeros bits (x / 2) + 1",
            "",
            "/-- `x.trailing_ones()` of a `bits`-wide integer (`bits` for all ones) -/",
            "def trailing_ones : Nat → Nat → Nat",
            "  | 0, _ => 0",
            "  | bits + 1, x => if x % 2 = 0 then 0 else trailing_ones bits (x / 2) + 1",
            ""]
    tr = ScanTr("BitScans")

    def one(name, extra=(), ret="usize", arm=None):
        """`arm = (method, anchor)`: `name` is the `RefLarge(x)` arm of `match self { … }` in that method of `impl TypedReprRef`"""
        if arm:
            it = dict(X.fn_item(src, arm[0], after=arm[1], rel=rel))
            what = "%s, arm RefLarge (%s:%d)" % (arm[0], rel, it["lines"][0])
            b0 = re.sub(r"//[^\n]*", "", it["body"])
            if not re.match(r"\{\s*match self \{", b0):
                raise X.ExtractError("%s: the body is no longer a single `match self { … }`" % what)
            ms = list(re.finditer(r"\bRefLarge\((\w+)\)\s*=>\s*", b0))
            if len(ms) != 1:
                raise X.ExtractError("%s: expected exactly one `RefLarge(x)` arm" % what)
            var, q = ms[0].group(1), ms[0].end()
            if b0[q] == "{":
                txt = b0[q:X.balanced(b0, q)]
            else:
                depth, r = 0, q
                while not (depth == 0 and b0[r] == ","):
                    depth += b0[r] in "([{"
                    depth -= b0[r] in ")]}"
                    if depth < 0:
                        break
                    r += 1
                txt = "{ " + b0[q:r] + " }"
            it["body"] = re.sub(r"\b%s\b" % re.escape(var), "words", txt)
            it["params"] = [("words", "&[Word]")] + [(pn, ty) for pn, ty in it["params"] if pn != "self"]
        else:
            it = X.fn_item(src, name, after=r"mod repr \{", rel=rel)
            what = "%s (%s:%d)" % (name, rel, it["lines"][0])
        ps = it["params"]
        if len(ps) != 1 + len(extra) or ps[0][0] != "words" or re.sub(r"\s+", "", ps[0][1]) != "&[Word]" \
                or [tuple(x) for x in ps[1:]] != [(pn, "usize") for pn in extra] or re.sub(r"\s+", "", it["ret"] or "") != ret:
            raise X.ExtractError("%s: signature is no longer `(words: &[Word]%s) -> %s`" % (what, "".join(", %s: usize" % x for x in extra), ret))
        rw = "U" if ret in ("usize", "Option<usize>") else "Bool"
        body = re.sub(r"//[^\n]*", "", it["body"])
        body = re.sub(r"\bwords\[\.\.([^\[\]]+?)\]\.iter\(\)\.any\(\|x\|\s*\*x\s*!=\s*0\)", r"any_nonzero_below(\1)", body)

        def loop_sub(m):
            v = m.group(1)
            if not (m.group(3) == m.group(4) == m.group(6) == v):
                raise X.ExtractError("%s: scan loop over more than one variable" % what)
            return "let %s = scan_words(%s, %s);" % (v, m.group(5), m.group(2))

        body = LOOP.sub(loop_sub, body)
        if re.search(r"\b(while|for|loop|break|continue)\b|\+=|-=", body):
            raise X.ExtractError("%s: a loop that is not the recognised scan `let mut i = K; while i < words.len() "
                                 "{ if words[i] != C { break; } i += 1; }`" % what)
        body = re.sub(r"\bwords\.iter\(\)\.map\(\|w\|\s*w\.count_(ones|zeros)\(\)\s+as\s+usize\)\.sum\(\)", r"sum_count_\1()", body)
        body = re.sub(r"\bwords\[\.\.([^\[\]]+?)\]\.iter\(\)\.all\(\|x\|\s*\*x\s*==\s*0\)", r"all_zero_below(\1)", body)
        if ret == "Option<usize>":
            m_ = re.search(r"\bSome\(", body)
            if not m_ or (len(re.findall(r"\bSome\(", body)) != 1 and name != "trailing_ones_neg_large") or re.search(r"\bNone\b", body):
                raise X.ExtractError("%s: the arm no longer returns exactly one `Some(e)`" % what)
            while m_:           # (trailing_ones_neg: `Some(e)` in both branches of the `if`; every result is `Some`, none is `None`)
                q_ = X.balanced(body, m_.end() - 1, "(", ")")
                body = body[:m_.start()] + "(" + body[m_.end():q_ - 1] + ")" + body[q_:]
                m_ = re.search(r"\bSome\(", body)
        body = re.sub(r"\btrailing_zeros_large_shifted_by_one\(words\)", "tz_shifted_words()", body)
        body = re.sub(r"\bwords\.last\(\)\.unwrap\(\)", "last_word()", body)
        body = re.sub(r"\bwords\.len\(\)", "len_words()", body)
        body = re.sub(r"\bwords\[([^\[\]]+)\]", r"index_words(\1)", body)
        if re.search(r"\bwords\b", body):
            raise X.ExtractError("%s: use of `words` outside the subset (words[e], words.len())" % what)
        tr.what = what
        tr.counter = 0
        tr.wparams = ["W", "U"]
        tr.ret_expect = rw if rw != "Bool" else None
        ast = X.PM(X.tokenize(body)).block()
        lines = []

        def walk(b, env, ind):
            env = dict(env)
            if b[0] != "block":
                b = ("block", [], b)
            stmts = list(b[1])
            for i, st in enumerate(stmts):
                if st[0] == "let" and st[1][0] == "pvar":
                    a, w = tr.ex(st[2], env, lines, ind)
                    lines.append("%slet %s := %s" % (ind, st[1][1], a))
                    env[st[1][1]] = w
                elif st[0] == "expr" and st[1][0] == "if" and st[1][3] is None and st[1][2][0] == "block" \
                        and len(st[1][2][1]) == 1 and st[1][2][1][0][0] == "return" and st[1][2][2] is None:
                    c, wc = tr.ex(st[1][1], env, lines, ind)
                    if wc != "Bool":
                        tr.fail("condition of an early return is not boolean")
                    lines.append("%sif %s then do" % (ind, c))
                    sub = ind + "  "
                    a, w = tr.ex(st[1][2][1][0][1], env, lines, sub, "U")
                    tr.unify(w, "U", "early return value")
                    lines.append("%spure %s" % (sub, a))
                    lines.append("%selse do" % ind)
                    walk(("block", stmts[i + 1:], b[2]), env, sub)
                    return
                else:
                    tr.fail("statement `%s` outside the subset" % st[0])
            tail = b[2]
            if tail is None:
                tr.fail("block without a result")
            if tail[0] == "block":
                return walk(tail, env, ind)
            if tail[0] == "if":
                c, wc = tr.ex(tail[1], env, lines, ind)
                if wc != "Bool" or tail[3] is None:
                    tr.fail("`if` outside the subset")
                lines.append("%sif %s then do" % (ind, c))
                walk(tail[2], env, ind + "  ")
                lines.append("%selse do" % ind)
                walk(tail[3], env, ind + "  ")
                return
            a, w = tr.ex(tail, env, lines, ind, rw if rw != "Bool" else None)
            tr.unify(w, rw, "result")
            lines.append("%spure %s" % (ind, a))

        walk(ast, dict((pn, "U") for pn in extra), "    ")
        sha = hashlib.sha1(re.sub(r"\s+", " ", it["text"]).encode()).hexdigest()[:12]
        if arm:
            out.append("/-- `TypedReprRef::%s`, arm `RefLarge` — %s:%d-%d, sha1 %s -/" % (arm[0], rel, it["lines"][0], it["lines"][1], sha))
        else:
          out.append("/-- `bits::repr::%s` — %s:%d-%d, sha1 %s -/" % (name, rel, it["lines"][0], it["lines"][1], sha))
        out.append("def %s (W : Nat) (U : Nat) (words : List Nat) %s: Option (%s) := do" % (name, "".join("(%s : Nat) " % x for x in extra), "Nat" if rw == "U" else "Bool"))
        out.extend(lines)
        out.append("")
        info["BitScans." + name] = sha

    for name in ("trailing_zeros_large", "trailing_zeros_large_shifted_by_one", "trailing_ones_large"):
        one(name)
    # `are_slice_low_bits_nonzero(words, n) -> bool` (the floor correction of `IBig >> n`): added after the scans so that their text is unchanged
    tr.function(X.fn_item(X.read("integer/src/math.rs"), "ones_word", rel="integer/src/math.rs"), "ones_word", "Dashu.Gen.MathHelpers.ones_word", "", [])
    one("are_slice_low_bits_nonzero", extra=("n",), ret="bool")
    # the `RefLarge` arms of `TypedReprRef::bit` / `bit_len` (added last: the text above is unchanged)
    REF = r"impl<'a> TypedReprRef<'a> \{"
    one("bit_large", extra=("n",), ret="bool", arm=("bit", REF))
    one("bit_len_large", ret="usize", arm=("bit_len", REF))
    # definitions used by the arms below (emitted after everything above, whose text is unchanged)
    out.extend(["/-- `x.count_ones()` / `x.count_zeros()` of a `bits`-wide integer -/",
                "def count_ones : Nat → Nat → Nat",
                "  | 0, _ => 0",
                "  | bits + 1, x => x % 2 + count_ones bits (x / 2)",
                "def count_zeros (bits x : Nat) : Nat := bits - count_ones bits x",
                "/-- `words.iter().map(|w| f(w) as usize).sum()` over `usize` (`none`: the sum overflows; the terms are non-negative, so",
                "    the order of the additions does not matter for whether it does) -/",
                "def sum_checked (U : Nat) (f : Nat → Nat) : List Nat → Option Nat",
                "  | [] => some 0",
                "  | w :: ws => match sum_checked U f ws with",
                "    | none => none",
                "    | some s => MachInt.add U (f w) s",
                "/-- `x.is_power_of_two()` -/",
                "def is_power_of_two (x : Nat) : Bool := x ≠ 0 && (x &&& (x - 1)) == 0",
                ""])
    one("count_ones_large", ret="usize", arm=("count_ones", REF))
    one("count_zeros_large", ret="Option<usize>", arm=("count_zeros", REF))
    one("is_power_of_two_large", ret="bool", arm=("is_power_of_two", REF))
    # round 6: the `RefLarge` arm of `TypedReprRef::trailing_ones_neg` (IBig::trailing_ones of a negative heap value): the CHECKED `words[0]`, the
    # parity test, the call of the regenerated shifted scan and the checked `+ 1`
    one("trailing_ones_neg_large", ret="Option<usize>", arm=("trailing_ones_neg", REF))
    out.append("end Dashu.Gen.BitScans")
    return "\n".join(out) + "\n", info
