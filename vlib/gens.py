"""Structured generators shared by the per-property case generators (DESIGN §8 'Generator')."""
import random

def hx(n):
    return ("-%x" % -n) if n < 0 else ("%x" % n)

def dec(n):
    return "d:%d" % n

def words_val(ws, W=64):
    v = 0
    for i, w in enumerate(ws):
        v |= w << (W * i)
    return v

PATTERNS = ["zero", "one", "ones", "pow2", "pow2m1", "pow2p1", "sparse", "random", "lowzero", "highbit", "topone"]

def nat_pattern(rng, nwords, pat, W=64):
    """a natural number of exactly `nwords` words (top word non-zero) following a bit pattern"""
    if nwords == 0:
        return 0
    B = 1 << W
    bits = nwords * W
    lo_bound = 1 << (bits - W)       # smallest value with nwords words
    if pat == "zero":
        return lo_bound               # 1 followed by zero words
    if pat == "one":
        return lo_bound + 1
    if pat == "ones":
        return (1 << bits) - 1
    if pat == "pow2":
        return 1 << rng.randrange(bits - W, bits)
    if pat == "pow2m1":
        k = rng.randrange(bits - W + 1, bits + 1)
        return (1 << k) - 1
    if pat == "pow2p1":
        return (1 << rng.randrange(bits - W, bits)) + 1
    if pat == "sparse":
        v = 1 << rng.randrange(bits - W, bits)
        for _ in range(rng.randrange(1, 4)):
            v |= 1 << rng.randrange(0, bits)
        return v
    if pat == "lowzero":
        # random top words, low words zero
        k = rng.randrange(1, nwords + 1)
        top = rng.getrandbits(k * W) | (1 << (k * W - 1))
        return top << ((nwords - k) * W)
    if pat == "highbit":
        return rng.getrandbits(bits) | (1 << (bits - 1))
    if pat == "topone":
        # top word = 1, rest random/ones: carries spill into the top
        return (1 << (bits - W)) | (rng.getrandbits(bits - W) if rng.random() < 0.5 else (1 << (bits - W)) - 1)
    v = rng.getrandbits(bits)
    if v < lo_bound:
        v |= lo_bound
    return v

def nat_any(rng, sizes, W=64):
    n = rng.choice(sizes)
    return nat_pattern(rng, n, rng.choice(PATTERNS), W)

def signed(rng, v):
    return -v if rng.random() < 0.5 else v

SMALL_SIZES = [0, 1, 1, 2, 2, 3, 3, 4, 5]
