"""Shared machinery of ./check: build steps, correspondence runner, differ, shrinker,
known-finding matching, evidence writer.  See DESIGN.md §2.3."""
import json, os, random, re, subprocess, sys, time, hashlib, shutil, tempfile

ROOT = os.path.dirname(os.path.dirname(os.path.abspath(__file__)))
LEAN = os.path.join(ROOT, "lean")
HARNESS = os.path.join(ROOT, "harness")
CACHE = os.path.join(ROOT, ".cache")
REPO = os.environ.get("VERIF_REPO", "/repo")   # VERIF_REPO: run against a scratch copy (seeded-change trials)
ALLOWED_AXIOMS = {"propext", "Classical.choice", "Quot.sound"}
FORBIDDEN = re.compile(r"\bsorry\b|\badmit\b|^axiom |native_decide|implemented_by|\bunsafe |maxHeartbeats 0", re.M)

ENV = dict(os.environ)
ENV["CARGO_NET_OFFLINE"] = "true"


def log(*a):
    print(*a, flush=True)


def run(cmd, cwd=None, env=None, timeout=None, capture=True):
    e = dict(ENV)
    if env:
        e.update(env)
    p = subprocess.run(cmd, cwd=cwd, env=e, timeout=timeout, stdout=subprocess.PIPE if capture else None,
                       stderr=subprocess.STDOUT if capture else None, text=True)
    return p.returncode, (p.stdout or "")


# ------------------------------------------------------------------ Lean side

def strip_comments(src):
    # remove /- ... -/ (nested) and -- ... comments
    out, i, depth, n = [], 0, 0, len(src)
    while i < n:
        if src.startswith("/-", i):
            depth += 1; i += 2; continue
        if depth and src.startswith("-/", i):
            depth -= 1; i += 2; continue
        if depth:
            i += 1; continue
        if src.startswith("--", i):
            j = src.find("\n", i)
            i = n if j < 0 else j
            continue
        out.append(src[i]); i += 1
    return "".join(out)


def import_closure(modules):
    """Dashu.* modules reachable through `import` lines from the given modules"""
    seen, todo = set(), list(modules)
    while todo:
        m = todo.pop()
        if m in seen or not (m.startswith("Dashu.") or m.startswith("Mains.")):
            continue
        path = os.path.join(LEAN, *m.split(".")) + ".lean"
        if not os.path.exists(path):
            continue
        seen.add(m)
        for line in open(path):
            mm = re.match(r"\s*(?:public\s+)?import\s+([A-Za-z0-9_.]+)", line)
            if mm:
                todo.append(mm.group(1))
    return seen


def main_module(group):
    """root module of the `drive_<group>` executable, from lakefile.toml"""
    txt = open(os.path.join(LEAN, "lakefile.toml")).read()
    m = re.search(r'name\s*=\s*"drive_%s"\s*\n\s*root\s*=\s*"([^"]+)"' % re.escape(group), txt)
    return m.group(1) if m else "Mains." + group.capitalize()


def forbidden_tokens(modules=None):
    """scan for sorry/admit/axiom/native_decide/… in the import closure of `modules`
    (all of lean/Dashu when None); comments and string literals are ignored"""
    hits = []
    if modules is None:
        files = []
        for d, _, fs in os.walk(os.path.join(LEAN, "Dashu")):
            files += [os.path.join(d, f) for f in fs if f.endswith(".lean")]
    else:
        files = [os.path.join(LEAN, *m.split(".")) + ".lean" for m in sorted(import_closure(modules))]
    for p in files:
        txt = strip_comments(open(p).read())
        txt = re.sub(r'"(\\.|[^"\\])*"', '""', txt)
        for m in FORBIDDEN.finditer(txt):
            hits.append((os.path.relpath(p, LEAN), m.group(0).strip()))
    return hits


def lake_build(targets, timeout=3600):
    t0 = time.time()
    rc, out = run(["lake", "build"] + targets, cwd=LEAN, timeout=timeout)
    return rc, out, time.time() - t0


def audit(module):
    """run `#print axioms` file of a property; returns (theorems: {name: [axioms]}, raw, rc)"""
    path = os.path.join(LEAN, *module.split(".")) + ".lean"
    rc, out = run(["lake", "env", "lean", path], cwd=LEAN, timeout=1800)
    thms = {}
    cur = None
    for line in out.splitlines():
        m = re.match(r".*'([^']+)' depends on axioms: \[(.*)$", line)
        if m:
            cur = m.group(1)
            rest = m.group(2)
            thms[cur] = []
            buf = rest
            if "]" in buf:
                thms[cur] = [a.strip() for a in buf.split("]")[0].split(",") if a.strip()]
                cur = None
            else:
                thms[cur] = [a.strip() for a in buf.split(",") if a.strip()]
            continue
        m = re.match(r".*'([^']+)' does not depend on any axioms", line)
        if m:
            thms[m.group(1)] = []
            cur = None
            continue
        if cur is not None:
            seg = line.split("]")[0]
            thms[cur] += [a.strip() for a in seg.split(",") if a.strip()]
            if "]" in line:
                cur = None
    return thms, out, rc


# ------------------------------------------------------------------ Rust side

def cargo_build(profile="dev", cfgs=("dashu_verif",), features=None, target_sub="harness-target", bins=None):
    flags = " ".join("--cfg %s" % c for c in cfgs)
    cmd = ["cargo", "build", "--offline"]
    if profile == "release":
        cmd.append("--release")
    if features is not None:
        cmd += ["--no-default-features", "--features", features]
    if bins:
        for b in bins:
            cmd += ["--bin", b]
    tdir = os.path.join(CACHE, target_sub)
    hdir = HARNESS
    if REPO != "/repo":
        # the harness manifest has path dependencies on /repo: build from a shadow manifest that
        # points at the scratch copy instead (sources are shared through a symlink)
        tag = hashlib.sha1(REPO.encode()).hexdigest()[:10]
        hdir = os.path.join(CACHE, "harness-alt-" + tag)
        tdir = os.path.join(CACHE, target_sub + "-alt-" + tag)
        os.makedirs(os.path.join(hdir, ".cargo"), exist_ok=True)
        man = open(os.path.join(HARNESS, "Cargo.toml")).read().replace('"/repo/', '"%s/' % REPO.rstrip("/"))
        # several builds of one check may run at the same time (C19 builds its configurations in parallel):
        # write the shadow files atomically and only when they change, so that no cargo reads a torn manifest
        def _put(path, text):
            if os.path.exists(path) and open(path).read() == text:
                return
            tmp = "%s.%d.tmp" % (path, os.getpid() * 1000 + (id(text) % 1000))
            with open(tmp, "w") as f:
                f.write(text)
            os.replace(tmp, path)
        _put(os.path.join(hdir, "Cargo.toml"), man)
        _put(os.path.join(hdir, "Cargo.lock"), open(os.path.join(HARNESS, "Cargo.lock")).read())
        _put(os.path.join(hdir, ".cargo", "config.toml"), open(os.path.join(HARNESS, ".cargo", "config.toml")).read())
        if not os.path.islink(os.path.join(hdir, "src")):
            os.symlink(os.path.join(HARNESS, "src"), os.path.join(hdir, "src"))
    t0 = time.time()
    rc, out = run(cmd, cwd=hdir, env={"RUSTFLAGS": flags, "CARGO_TARGET_DIR": tdir}, timeout=3600)
    sub = "release" if profile == "release" else "debug"
    return rc, out, os.path.join(tdir, sub), time.time() - t0


# ------------------------------------------------------------------ case files and runners

class Case:
    __slots__ = ("op", "args", "tag", "nontrivial")

    def __init__(self, op, args, tag="", nontrivial=True):
        self.op = op
        self.args = [str(a) for a in args]
        self.tag = tag
        self.nontrivial = nontrivial

    def line(self, i):
        return "%d %s %s" % (i, self.op, " ".join(self.args))

    def key(self):
        return self.op + " " + " ".join(self.args)


def write_cases(path, cases, W=64):
    with open(path, "w") as f:
        f.write("#W %d\n" % W)
        for i, c in enumerate(cases):
            f.write(c.line(i) + "\n")


ANNOT = {}            # histogram of annotation keys seen by parse_out (e.g. `cert-undecided`); reported in the evidence
_ANNOT_LOCK = __import__("threading").Lock()


def parse_out(text):
    res = {}
    for line in text.splitlines():
        sp = line.split(" ", 1)
        if len(sp) == 2 and sp[0].isdigit():
            # a trailing ` #key=value…` annotation (e.g. number of call forms evaluated) is not compared
            parts = sp[1].split(" #", 1)
            res[int(sp[0])] = parts[0].strip()
            if len(parts) == 2:
                key = re.split(r"[= ]", parts[1], maxsplit=1)[0]
                with _ANNOT_LOCK:
                    ANNOT[key] = ANNOT.get(key, 0) + 1
    return res


def run_side(exe, casefile, n, per_case_timeout, label):
    """run an executable over a case file; on hang, the hung case is reported as `hang` and the
    remaining cases are run in a fresh process"""
    results = {}
    lines = open(casefile).read().splitlines()
    header = [l for l in lines if l.startswith("#")]
    body = [l for l in lines if l and not l.startswith("#")]
    pending = body
    while pending:
        tmp = casefile + "." + label + ".part"
        with open(tmp, "w") as f:
            f.write("\n".join(header + pending) + "\n")
        # The timeout is per case, not per shard: the process is killed only when its output file has
        # not grown for `per_case_timeout` seconds (both sides flush after every case), so a loaded
        # machine slows a run down without turning slow shards into `hang` verdicts.
        outp = tmp + ".out"
        try:
            with open(outp, "w") as fo, open(outp + ".err", "w") as fe:
                p = subprocess.Popen([exe, tmp], stdout=fo, stderr=fe, env=ENV)
                last_size, last_t, hung = 0, time.time(), False
                while True:
                    try:
                        p.wait(timeout=0.2)
                        break
                    except subprocess.TimeoutExpired:
                        sz = os.path.getsize(outp)
                        now = time.time()
                        if sz != last_size:
                            last_size, last_t = sz, now
                        elif now - last_t > per_case_timeout:
                            hung = True
                            p.kill()
                            p.wait()
                            break
            err = open(outp + ".err", errors="replace").read()[-2000:]
            os.remove(outp + ".err")
            got = parse_out(open(outp, errors="replace").read())
            results.update(got)
            ids = [int(l.split(" ", 1)[0]) for l in pending]
            missing = [i for i in ids if i not in got]
            if not missing:
                pending = []
            else:
                if hung:
                    results[missing[0]] = "hang"
                else:
                    # process died (abort / OOM / stack overflow): first missing case is the culprit
                    results[missing[0]] = "crash rc=%s %s" % (p.returncode, err.strip().splitlines()[-1:] or "")
                pending = [l for l in pending if int(l.split(" ", 1)[0]) in set(missing[1:])]
            if os.path.exists(outp):
                os.remove(outp)
        finally:
            if os.path.exists(tmp):
                os.remove(tmp)
    return results


def run_pair(cases, impl_exe, model_exe, W=64, workdir=None, per_case_timeout=60, jobs=8):
    """run both sides over the cases (split in `jobs` shards run in parallel); returns list of
    (case, impl_result, model_result)"""
    from concurrent.futures import ThreadPoolExecutor
    workdir = workdir or tempfile.mkdtemp(prefix="verif-run-")
    shards = [[] for _ in range(jobs)]
    for i, c in enumerate(cases):
        shards[i % jobs].append((i, c))
    def do(shard_idx):
        shard = shards[shard_idx]
        if not shard:
            return {}, {}
        path = os.path.join(workdir, "cases.%d.txt" % shard_idx)
        with open(path, "w") as f:
            f.write("#W %d\n" % W)
            for i, c in shard:
                f.write(c.line(i) + "\n")
        ri = run_side(impl_exe, path, len(shard), per_case_timeout, "impl")
        rm = run_side(model_exe, path, len(shard), per_case_timeout, "model")
        return ri, rm
    impl, model = {}, {}
    with ThreadPoolExecutor(max_workers=jobs) as ex:
        for ri, rm in ex.map(do, range(jobs)):
            impl.update(ri); model.update(rm)
    out = []
    for i, c in enumerate(cases):
        out.append((c, impl.get(i, "missing"), model.get(i, "missing")))
    return out


# ------------------------------------------------------------------ known findings

def load_findings():
    p = os.path.join(ROOT, "known_findings.jsonl")
    res = []
    if os.path.exists(p):
        for line in open(p):
            line = line.strip()
            if line and not line.startswith("#") and not line.startswith("fixed:"):
                res.append(json.loads(line))
    return res


def hexlen_words(s, W=64):
    s = s.lstrip("-")
    if s == "0":
        return 0
    return (len(s) * 4 + W - 1) // W  # upper bound by hex digits


def _cond(c, case, impl, model):
    a = case.args[c["arg"]] if "arg" in c and c["arg"] < len(case.args) else None
    if "eq" in c:
        return a == c["eq"]
    if "neg" in c:
        return (a is not None and a.startswith("-")) == c["neg"]
    if "re" in c:
        return a is not None and re.fullmatch(c["re"], a) is not None
    if "dec_ge" in c:
        return a is not None and a.startswith("d:") and int(a[2:]) >= c["dec_ge"]
    if "dec_le" in c:
        return a is not None and a.startswith("d:") and int(a[2:]) <= c["dec_le"]
    if "dec_mod" in c:
        m, r = c["dec_mod"]
        return a is not None and a.startswith("d:") and int(a[2:]) % m == r
    if "bits_ge" in c:
        return a is not None and int(a.lstrip("-"), 16).bit_length() >= c["bits_ge"]
    if "bits_le" in c:
        return a is not None and int(a.lstrip("-"), 16).bit_length() <= c["bits_le"]
    if "impl_re" in c:
        return re.search(c["impl_re"], impl) is not None
    if "model_re" in c:
        return re.search(c["model_re"], model) is not None
    if "py" in c:
        # small python predicate over (args as list of str, ints parsed where possible)
        def I(k):
            s = case.args[k]
            if s.startswith("d:"):
                return int(s[2:])
            return -int(s[1:], 16) if s.startswith("-") else int(s, 16)
        return bool(eval(c["py"], {"I": I, "args": case.args, "impl": impl, "model": model, "re": re}))
    raise ValueError("unknown condition %r" % c)


def match_finding(findings, prop, case, impl, model):
    for f in findings:
        if f["property"] != prop:
            continue
        m = f["match"]
        ops = m["op"] if isinstance(m["op"], list) else [m["op"]]
        if case.op not in ops:
            continue
        if all(_cond(c, case, impl, model) for c in m.get("when", [])):
            return f
    return None


# ------------------------------------------------------------------ shrinking

def _int_args(case):
    idx = []
    for k, a in enumerate(case.args):
        if re.fullmatch(r"-?[0-9a-f]+", a):
            idx.append(k)
    return idx


def shrink(case, still_fails, budget=60):
    """greedy shrink of hex-integer arguments (halve length, zero low half, drop to small)"""
    best = case
    tries = 0
    changed = True
    while changed and tries < budget:
        changed = False
        for k in _int_args(best):
            a = best.args[k]
            neg = a.startswith("-")
            h = a.lstrip("-")
            if len(h) <= 1:
                continue
            cands = []
            half = len(h) // 2
            cands.append(h[:half])                        # drop low half
            cands.append(h[half:].lstrip("0") or "0")     # drop high half
            cands.append(h[:half] + "0" * (len(h) - half))  # zero low half
            cands.append("1" + "0" * (len(h) - 1))
            for c in cands:
                c = c.lstrip("0") or "0"
                if c == h:
                    continue
                na = ("-" if neg and c != "0" else "") + c
                trial = Case(best.op, best.args[:k] + [na] + best.args[k + 1:], best.tag)
                tries += 1
                if still_fails(trial):
                    best = trial
                    changed = True
                    break
                if tries >= budget:
                    break
            if tries >= budget:
                break
    return best


# ------------------------------------------------------------------ evidence

def write_evidence(prop, tier, seed, coverage, wall, violations, assumptions):
    os.makedirs(os.path.join(ROOT, "evidence"), exist_ok=True)
    ev = {
        "property_id": prop,
        "tier": tier,
        "seed": seed,
        "level": "proof",
        "coverage": coverage,
        "assumptions": assumptions,
        "wall_s": round(wall, 2),
        "violations": violations,
    }
    p = os.path.join(ROOT, "evidence", prop + ".json")
    with open(p + ".tmp", "w") as f:
        json.dump(ev, f, indent=1)
    os.replace(p + ".tmp", p)
    return p
