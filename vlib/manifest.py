"""Regenerate MANIFEST.json from the per-property modules in vlib/props (run after adding a property)."""
import importlib, json, os, sys
ROOT = os.path.dirname(os.path.dirname(os.path.abspath(__file__)))
sys.path.insert(0, ROOT)
ALL = ["C%02d" % i for i in range(1, 21)]
PLANNED = {}

def main():
    checks, na, groups, lean_targets = [], [], set(), []
    for pid in ALL:
        path = os.path.join(ROOT, "vlib", "props", pid.lower() + ".py")
        if not os.path.exists(path):
            na.append({"property_id": pid, "reason": "no check registered in this snapshot of /verif (work in progress; design in DESIGN.md §8 %s) — not a statement that the technique cannot apply" % pid})
            continue
        P = importlib.import_module("vlib.props." + pid.lower())
        if not getattr(P, "READY", False):
            na.append({"property_id": pid, "reason": "check under construction in this snapshot (vlib/props/%s.py exists but is not yet marked READY by the orchestrator after a green run); design in DESIGN.md §8 %s — not a statement that the technique cannot apply" % (pid.lower(), pid)})
            continue
        if getattr(P, "DISABLED", None):
            na.append({"property_id": pid, "reason": P.DISABLED})
            continue
        groups.add(P.GROUP)
        lean_targets += [P.LEAN_PROPS, P.LEAN_AUDIT, "drive_" + P.GROUP] + list(getattr(P, "GEN_PROPS", [])) + list(getattr(P, "GEN_AUDIT", []))
        checks.append({
            "property_id": pid,
            "quick_cmd": "./check %s --tier quick" % pid,
            "thorough_cmd": "./check %s --tier thorough" % pid,
            "evidence_file": "/verif/evidence/%s.json" % pid,
            "replay_cmd_template": "./check %s --replay {path}" % pid,
            "engine": "lean4-model+correspondence",
            "level_claimed": {"category": "proof", "text": P.LEVEL_TEXT, "design_ref": "DESIGN.md §8 " + pid},
            "level_note": P.LEVEL_NOTE,
            "technique": getattr(P, "TECHNIQUE", "Lean 4 theorems over an executable model + differential correspondence model vs implementation"),
        })
    m = {
        "version": 1,
        "setup_cmd": "./setup.sh",
        "hooks": {
            "guard": "--cfg dashu_verif",
            "enable": "RUSTFLAGS='--cfg dashu_verif' cargo build --offline (set by ./check when it builds /verif/harness against /repo)",
            "baseline_off_cmd": "cd /repo && cargo test --workspace --no-fail-fast --offline",
            "source_commits": json.load(open(os.path.join(ROOT, "hooks.json")))["source_commits"],
            "add_only": True,
        },
        "engines": [{
            "name": "lean4-model+correspondence", "path": "/verif/lean + /verif/harness + /verif/check",
            "serves_properties": [c["property_id"] for c in checks],
            "kind_free_text": "Lean 4 (4.33) theorems about an executable model of dashu; model tied to /repo by regeneration of decision tables from source (vlib/extract.py) and by differential execution of model driver vs real code (harness) on seeded structured cases",
        }],
        "checks": checks,
        "not_applicable": na,
        "notes": "Each check rebuilds the harness against /repo's working tree, rebuilds the Lean theorems (regenerating Dashu/Gen from /repo where used), audits axioms, and runs the correspondence. known_findings.jsonl lists genuine defects recorded rather than repaired; 'fixed:' lines record repaired ones.",
    }
    with open(os.path.join(ROOT, "MANIFEST.json"), "w") as f:
        json.dump(m, f, indent=1)
    with open(os.path.join(ROOT, "setup_targets.json"), "w") as f:
        json.dump({"groups": sorted(groups), "lean_targets": sorted(set(lean_targets))}, f, indent=1)
    print("MANIFEST.json written: %d checks, %d not_applicable" % (len(checks), len(na)))

main()
