"""Tie A — regenerate lean/Dashu/Gen/*.lean from /repo's current source (DESIGN §2.1).

A small translator for the decision-logic subset of Rust used by dashu's glue layer:
`macro_rules!` sign tables, `round_low_part` mode tables, small predicates, constants and the
buffer capacity policy.  It FAILS CLOSED: any construct outside the subset raises, the item is
reported, and ./check treats the property as no longer shown (DESIGN §4).

Accepted subset: `let` (ident / tuple patterns, `mut` ignored), `if/else if/else`, `match` on a
tuple or a single scrutinee with constructor / literal / `_` / or-patterns, early `return` inside a
statement-level `if`, blocks, unary `! - & *`, binary `+ - * / % == != < <= > >= && ||`, method
calls, calls, paths, tuples, integer literals, `as` casts (erased), `debug_assert*!` (dropped).
Every method / function name must be in the whitelist PRELUDE below (mapped to
`Dashu.Model.GluePrelude`); anything else fails closed.
"""
import os, re, json, hashlib

REPO = os.environ.get("VERIF_REPO", "/repo")
ROOT = os.path.dirname(os.path.dirname(os.path.abspath(__file__)))
GEN_DIR = os.path.join(ROOT, "lean", "Dashu", "Gen")


class ExtractError(Exception):
    pass


# ------------------------------------------------------------------ tokenizer

TOK = re.compile(r"""
    (?P<ws>\s+)
  | (?P<lc>//[^\n]*)
  | (?P<bc>/\*.*?\*/)
  | (?P<num>0x[0-9a-fA-F_]+|\d[\d_]*(?:\.\d+)?(?:[iu](?:8|16|32|64|128|size)|f32|f64)?)
  | (?P<id>\$?[A-Za-z_][A-Za-z0-9_]*)
  | (?P<str>"(?:\\.|[^"\\])*")
  | (?P<op>=>|==|!=|<=|>=|&&|\|\||->|::|\.\.=|\.\.|<<|>>|[-+*/%!&|^<>=(){}\[\],;:.?#@'])
""", re.X | re.S)


def tokenize(src):
    out, i = [], 0
    while i < len(src):
        m = TOK.match(src, i)
        if not m:
            raise ExtractError("cannot tokenize at %r" % src[i:i + 30])
        i = m.end()
        k = m.lastgroup
        if k in ("ws", "lc", "bc"):
            continue
        out.append((k, m.group(k)))
    return out


# ------------------------------------------------------------------ parser  (AST = nested tuples)

class P:
    def __init__(self, toks):
        self.t = toks
        self.i = 0

    def peek(self, k=0):
        return self.t[self.i + k] if self.i + k < len(self.t) else ("eof", "")

    def next(self):
        tok = self.peek()
        self.i += 1
        return tok

    def accept(self, v):
        if self.peek()[1] == v:
            self.i += 1
            return True
        return False

    def expect(self, v):
        if not self.accept(v):
            raise ExtractError("expected %r, got %r (context: %s)" % (v, self.peek()[1], " ".join(x[1] for x in self.t[max(0, self.i - 8):self.i + 4])))

    # ---- patterns
    def pattern(self):
        alts = [self.pattern1()]
        while self.accept("|"):
            alts.append(self.pattern1())
        return alts[0] if len(alts) == 1 else ("por", alts)

    def pattern1(self):
        k, v = self.peek()
        if v == "(":
            self.next()
            items = []
            while not self.accept(")"):
                items.append(self.pattern())
                self.accept(",")
            return ("ptuple", items)
        if v == "_":
            self.next()
            return ("pwild",)
        if v in ("&", "mut", "ref"):
            self.next()
            return self.pattern1()
        if k == "num":
            self.next()
            return ("plit", v)
        if k == "id":
            path = self.path()
            if path[-1] in ("true", "false"):
                return ("plit", path[-1])
            if self.peek()[1] == "(":
                self.next()
                items = []
                while not self.accept(")"):
                    items.append(self.pattern())
                    self.accept(",")
                return ("pctor", path, items)
            if len(path) == 1 and (path[0][0].islower() or path[0][0] in "$_"):
                return ("pvar", path[0])
            return ("pctor", path, [])
        raise ExtractError("unsupported pattern at %r" % v)

    def path(self):
        parts = [self.next()[1]]
        while self.peek()[1] == "::":
            self.next()
            if self.peek()[1] == "<":   # turbofish — skip generic args
                depth = 0
                while True:
                    t = self.next()[1]
                    if t == "<":
                        depth += 1
                    elif t == ">":
                        depth -= 1
                        if depth == 0:
                            break
                continue
            parts.append(self.next()[1])
        return parts

    # ---- blocks and statements
    def block(self):
        self.expect("{")
        stmts = []
        tail = None
        while not self.accept("}"):
            k, v = self.peek()
            if v == "let":
                self.next()
                pat = self.pattern()
                if self.accept(":"):
                    self.skip_type()
                self.expect("=")
                e = self.expr()
                self.expect(";")
                stmts.append(("let", pat, e))
                continue
            if v == "return":
                self.next()
                e = self.expr() if self.peek()[1] != ";" else ("unit",)
                self.accept(";")
                stmts.append(("return", e))
                continue
            if k == "id" and self.peek(1)[1] == "!" and v.startswith("debug_assert"):
                self.next(); self.next()
                self.skip_group()
                self.accept(";")
                continue
            if v in ("if", "match"):
                # block-like expression statement: ends at its closing brace (Rust statement rule)
                e = self.primary(False)
                if self.peek()[1] == "}":
                    tail = e
                else:
                    self.accept(";")
                    stmts.append(("expr", e))
                continue
            e = self.expr()
            if self.peek()[1] == "=" and e[0] == "path" and len(e[1]) == 1:
                self.next()
                rhs = self.expr()
                self.expect(";")
                stmts.append(("assign", e[1][0], rhs))
                continue
            if self.accept(";"):
                stmts.append(("expr", e))
            elif self.peek()[1] == "}":
                tail = e
            else:
                # block-like expression used as statement (if / match without `;`)
                stmts.append(("expr", e))
        return ("block", stmts, tail)

    def skip_group(self):
        open_ = self.next()[1]
        close = {"(": ")", "[": "]", "{": "}"}[open_]
        depth = 1
        while depth:
            t = self.next()[1]
            if t == open_:
                depth += 1
            elif t == close:
                depth -= 1

    def skip_type(self):
        depth = 0
        while True:
            v = self.peek()[1]
            if depth == 0 and v in ("=", ",", ")", ";", "{"):
                return
            if v in ("<", "("):
                depth += 1
            if v in (">", ")"):
                depth -= 1
            self.next()

    # ---- expressions (Pratt)
    BIN = {"||": 1, "&&": 2, "==": 3, "!=": 3, "<": 3, ">": 3, "<=": 3, ">=": 3,
           "|": 4, "^": 5, "&": 6, "<<": 7, ">>": 7, "+": 8, "-": 8, "*": 9, "/": 9, "%": 9}

    def expr(self, minp=0, nostruct=False):
        lhs = self.unary(nostruct)
        while True:
            k, v = self.peek()
            if v == "as":
                self.next()
                self.skip_cast_type()
                continue
            if v in self.BIN and self.BIN[v] >= minp + 0 and self.BIN[v] > minp - 1:
                p = self.BIN[v]
                if p < minp:
                    break
                self.next()
                rhs = self.expr(p + 1, nostruct)
                lhs = ("bin", v, lhs, rhs)
                continue
            break
        return lhs

    def skip_cast_type(self):
        # `as usize`, `as $crate::arch::word::DoubleWord`, `as _`
        self.path()

    def unary(self, nostruct):
        k, v = self.peek()
        if v in ("!", "-", "&", "*"):
            self.next()
            if v == "&" and self.peek()[1] == "mut":
                self.next()
            e = self.unary(nostruct)
            if v in ("&", "*"):
                return e            # references erased
            return ("un", v, e)
        return self.postfix(self.primary(nostruct), nostruct)

    def postfix(self, e, nostruct):
        while True:
            v = self.peek()[1]
            if v == ".":
                self.next()
                name = self.next()[1]
                if self.peek()[1] == "::":      # turbofish on method
                    self.next(); self.skip_generic()
                if self.peek()[1] == "(":
                    e = ("mcall", e, name, self.args())
                else:
                    e = ("field", e, name)
                continue
            if v == "(":
                e = ("call", e, self.args())
                continue
            if v == "?":
                raise ExtractError("`?` operator not supported")
            break
        return e

    def skip_generic(self):
        depth = 0
        while True:
            t = self.next()[1]
            if t == "<":
                depth += 1
            elif t == ">":
                depth -= 1
                if depth == 0:
                    return

    def args(self):
        self.expect("(")
        a = []
        while not self.accept(")"):
            a.append(self.expr())
            self.accept(",")
        return a

    def primary(self, nostruct):
        k, v = self.peek()
        if v == "(":
            self.next()
            items = []
            trailing = False
            while not self.accept(")"):
                items.append(self.expr())
                trailing = self.accept(",")
            if len(items) == 1 and not trailing:
                return items[0]
            return ("tuple", items)
        if v == "{":
            return self.block()
        if v == "match":
            self.next()
            scrut = self.expr(nostruct=True)
            self.expect("{")
            arms = []
            while not self.accept("}"):
                pat = self.pattern()
                if self.accept("if"):
                    raise ExtractError("match guards not supported")
                self.expect("=>")
                body = self.expr()
                self.accept(",")
                arms.append((pat, body))
            return ("match", scrut, arms)
        if v == "if":
            self.next()
            c = self.expr(nostruct=True)
            t = self.block()
            e = None
            if self.accept("else"):
                e = self.primary(nostruct) if self.peek()[1] == "if" else self.block()
            return ("if", c, t, e)
        if k == "num":
            self.next()
            return ("num", v)
        if k == "id":
            path = self.path()
            if self.peek()[1] == "!" and self.peek(1)[1] in ("(", "[", "{"):
                raise ExtractError("macro call %s! not supported" % path[-1])
            return ("path", path)
        raise ExtractError("unsupported expression at %r" % v)


# ------------------------------------------------------------------ emitter

CTORS = {"Positive": "Sign.Positive", "Negative": "Sign.Negative",
         "NoOp": "Rounding.NoOp", "AddOne": "Rounding.AddOne", "SubOne": "Rounding.SubOne",
         "Less": "Ordering.lt", "Equal": "Ordering.eq", "Greater": "Ordering.gt",
         "true": "true", "false": "false"}

# whitelisted callee -> prelude function (all in namespace Dashu.GluePrelude)
METHODS = {"add": "add", "sub": "sub", "mul": "mul", "div": "div", "rem": "rem", "div_rem": "div_rem",
           "sub_signed": "sub_signed", "with_sign": "with_sign", "into_typed": "into_typed",
           "as_ref": "as_ref", "is_zero": "is_zero", "add_one": "add_one", "sub_one": "sub_one",
           "bitand": "bitand", "bitor": "bitor", "bitxor": "bitxor", "and_not": "and_not",
           "sign": "sign", "bit": "bit", "min": "min", "max": "max", "abs_cmp": "abs_cmp", "is_le": "is_le",
           "is_lt": "is_lt", "is_ge": "is_ge", "is_gt": "is_gt", "is_eq": "is_eq", "is_ne": "is_ne",
           "cmp": "cmp", "numerator": "numerator", "denominator": "denominator", "neg": "neg", "clone": "as_ref"}
FUNCS = {"IBig": "mkIBig", "UBig": "mkUBig"}
CONSTS = {("IBig", "ZERO"): "(0 : Int)", ("UBig", "ZERO"): "(0 : Int)", ("Self", "MAX_CAPACITY"): "MAX_CAPACITY"}


def ident(s):
    s = s.lstrip("$")
    if s in ("end", "at", "from", "to", "fun", "in", "then", "open", "show", "have"):
        s += "_"
    return s


class Emit:
    def __init__(self):
        self.used = set()

    def pat(self, p):
        k = p[0]
        if k == "pwild":
            return "_"
        if k == "pvar":
            return ident(p[1])
        if k == "plit":
            return CTORS.get(p[1], p[1])
        if k == "pctor":
            name = p[1][-1]
            if name not in CTORS:
                raise ExtractError("unknown constructor pattern %s" % "::".join(p[1]))
            if p[2]:
                raise ExtractError("constructor pattern with fields not supported")
            return "." + CTORS[name].split(".")[1] if "." in CTORS[name] else CTORS[name]
        if k == "ptuple":
            return ", ".join(self.pat(x) for x in p[1])
        if k == "por":
            raise ExtractError("nested or-pattern")
        raise ExtractError("pattern " + k)

    def let_pat(self, p):
        if p[0] == "pvar":
            return ident(p[1])
        if p[0] == "pwild":
            return "_"
        if p[0] == "ptuple":
            return "(" + ", ".join(self.let_pat(x) for x in p[1]) + ")"
        raise ExtractError("let pattern " + p[0])

    def block(self, b, ind):
        _, stmts, tail = b
        return self.stmts(list(stmts), tail, ind)

    def stmts(self, stmts, tail, ind):
        pad = "  " * ind
        if not stmts:
            if tail is None:
                raise ExtractError("block without value")
            return self.e(tail, ind)
        s = stmts[0]
        rest = stmts[1:]
        if s[0] == "let":
            return "let %s := %s;\n%s%s" % (self.let_pat(s[1]), self.e(s[2], ind + 1), pad, self.stmts(rest, tail, ind))
        if s[0] == "return":
            return self.e(s[1], ind)
        if s[0] == "assign":
            return "let %s := %s;\n%s%s" % (ident(s[1]), self.e(s[2], ind + 1), pad, self.stmts(rest, tail, ind))
        if s[0] == "expr":
            e = s[1]
            # statement-level `if c { x = e1; y = e2; }` (no else, assignments only): rebind
            if e[0] == "if" and e[3] is None and e[2][0] == "block" and e[2][2] is None and e[2][1] \
                    and all(st[0] == "assign" for st in e[2][1]):
                names = []
                for st in e[2][1]:
                    if st[1] not in names:
                        names.append(st[1])
                tup = "(" + ", ".join(ident(n) for n in names) + ")" if len(names) > 1 else ident(names[0])
                inner = self.stmts(list(e[2][1]), ("path", ["__TUP__"]), ind + 2).replace("__TUP__", tup)
                return "let %s := (if %s then (%s)\n%s  else %s);\n%s%s" % (
                    tup, self.e(e[1], ind), inner, pad, tup, pad, self.stmts(rest, tail, ind))
            # statement-level `if c { return X; }` (no else): early return
            if e[0] == "if" and e[3] is None and self.block_returns(e[2]):
                return "if %s then %s\n%selse %s" % (self.e(e[1], ind), self.block(e[2], ind + 1), pad, self.stmts(rest, tail, ind + 1))
            if not rest and tail is None:
                return self.e(e, ind)      # last block-like expression is the value
            raise ExtractError("expression statement with side effects not supported")
        raise ExtractError("statement " + s[0])

    def block_returns(self, b):
        return b[0] == "block" and b[1] and b[1][-1][0] == "return"

    def e(self, x, ind=0):
        pad = "  " * ind
        k = x[0]
        if k == "num":
            v = re.sub(r"(?<=\d)(?:[iu](?:8|16|32|64|128|size))$", "", x[1].replace("_", ""))
            return "(%s)" % v
        if k == "path":
            p = x[1]
            if tuple(p[-2:]) in CONSTS:
                return CONSTS[tuple(p[-2:])]
            name = p[-1]
            if name in CTORS and (len(p) > 1 or name[0].isupper() or name in ("true", "false")):
                return CTORS[name]
            if len(p) > 1:
                raise ExtractError("unsupported path %s" % "::".join(p))
            return ident(name)
        if k == "tuple":
            return "(" + ", ".join(self.e(i, ind) for i in x[1]) + ")"
        if k == "un":
            op = {"!": "GluePrelude.not_", "-": "GluePrelude.neg_"}[x[1]]
            return "(%s %s)" % (op, self.e(x[2], ind))
        if k == "bin":
            op = x[1]
            a, b = self.e(x[2], ind), self.e(x[3], ind)
            m = {"+": "add_", "-": "sub_", "*": "mul_", "/": "div_", "%": "rem_", "==": "eq_", "!=": "ne_",
                 "<": "lt_", "<=": "le_", ">": "gt_", ">=": "ge_", "&&": None, "||": None}
            if op == "&&":
                return "(%s && %s)" % (a, b)
            if op == "||":
                return "(%s || %s)" % (a, b)
            if op not in m:
                raise ExtractError("operator %s not supported" % op)
            return "(GluePrelude.%s %s %s)" % (m[op], a, b)
        if k == "mcall":
            name = x[2]
            if name not in METHODS:
                raise ExtractError("method .%s() is not in the translator whitelist" % name)
            args = [self.e(x[1], ind)] + [self.e(a, ind) for a in x[3]]
            self.used.add(name)
            return "(GluePrelude.%s %s)" % (METHODS[name], " ".join(args))
        if k == "call":
            f = x[1]
            if f[0] == "path" and f[1][-1] in FUNCS and len(x[2]) == 1:
                return "(GluePrelude.%s %s)" % (FUNCS[f[1][-1]], self.e(x[2][0], ind))
            if f[0] == "path" and len(f[1]) == 1 and not x[2]:
                return ident(f[1][0])            # closure parameter called with no arguments
            raise ExtractError("call of %r not in whitelist" % (f,))
        if k == "field":
            raise ExtractError("field access .%s not supported" % x[2])
        if k == "block":
            return "(" + self.block(x, ind + 1) + ")"
        if k == "if":
            if x[3] is None:
                raise ExtractError("if without else used as a value")
            els = self.e(x[3], ind + 1) if x[3][0] == "if" else self.block(x[3], ind + 1)
            return "(if %s then %s\n%selse %s)" % (self.e(x[1], ind), self.block(x[2], ind + 1), pad, els)
        if k == "match":
            scr = x[1]
            scrs = [self.e(i, ind) for i in scr[1]] if scr[0] == "tuple" else [self.e(scr, ind)]
            out = "(match " + ", ".join(scrs) + " with"
            for pat, body in x[2]:
                alts = pat[1] if pat[0] == "por" else [pat]
                for a in alts:
                    out += "\n%s  | %s => %s" % (pad, self.pat(a), self.e(body, ind + 2))
            return out + ")"
        raise ExtractError("expression kind " + k)


# ------------------------------------------------------------------ locating items in source

def read(rel):
    return open(os.path.join(REPO, rel)).read()


def balanced(src, start, open_="{", close="}"):
    """src[start] == open_; returns index after the matching close (skips strings/comments/char lits)"""
    depth, i, n = 0, start, len(src)
    while i < n:
        c = src[i]
        if src.startswith("//", i):
            i = src.find("\n", i)
            i = n if i < 0 else i
            continue
        if src.startswith("/*", i):
            i = src.find("*/", i) + 2
            continue
        if c == '"':
            i += 1
            while src[i] != '"':
                i += 2 if src[i] == "\\" else 1
            i += 1
            continue
        if c == open_:
            depth += 1
        elif c == close:
            depth -= 1
            if depth == 0:
                return i + 1
        i += 1
    raise ExtractError("unbalanced")


def macro_body(src, name):
    m = re.search(r"macro_rules!\s+%s\s*\{" % re.escape(name), src)
    if not m:
        raise ExtractError("macro %s not found" % name)
    end = balanced(src, m.end() - 1)
    body = src[m.end():end - 1]
    m2 = re.match(r"\s*\(([^)]*)\)\s*=>\s*\{", body)
    if not m2:
        raise ExtractError("macro %s: unsupported rule head" % name)
    params = re.findall(r"\$([a-z0-9_]+)\s*:\s*ident", m2.group(1))
    bstart = m2.end() - 1
    bend = balanced(body, bstart)
    rest = body[bend:].strip().rstrip(";").strip()
    if rest:
        raise ExtractError("macro %s: more than one rule" % name)
    return params, body[bstart:bend]


def fn_body(src, fn_name, after=None):
    pos = 0
    if after:
        m = re.search(after, src)
        if not m:
            raise ExtractError("anchor %r not found" % after)
        pos = m.end()
    m = re.compile(r"fn\s+%s\b" % re.escape(fn_name)).search(src, pos)
    if not m:
        raise ExtractError("fn %s not found" % fn_name)
    # parameter list (skip a generic parameter list `<F: FnOnce() -> Ordering>` first)
    q = m.end()
    while src[q].isspace():
        q += 1
    if src[q] == "<":
        depth = 0
        while True:
            if src[q] == "<":
                depth += 1
            elif src[q] == ">" and src[q - 1] != "-":
                depth -= 1
                if depth == 0:
                    q += 1
                    break
            q += 1
    p0 = src.index("(", q)
    p1 = balanced(src, p0, "(", ")")
    params = src[p0 + 1:p1 - 1]
    b0 = src.index("{", p1)
    if ";" in src[p1:b0]:
        raise ExtractError("fn %s has no body here" % fn_name)
    b1 = balanced(src, b0)
    names = []
    for part in split_top(params):
        part = part.strip()
        if not part or part in ("self", "&self", "&mut self"):
            if part:
                names.append("self")
            continue
        names.append(part.split(":")[0].strip().lstrip("_").replace("mut ", ""))
    return names, src[b0:b1]


def split_top(s):
    out, depth, cur = [], 0, ""
    for c in s:
        if c in "<([":
            depth += 1
        if c in ">)]":
            depth -= 1
        if c == "," and depth == 0:
            out.append(cur); cur = ""
        else:
            cur += c
    if cur.strip():
        out.append(cur)
    return out


def translate_body(text):
    toks = tokenize(text)
    p = P(toks)
    b = p.block()
    if p.peek()[0] != "eof":
        raise ExtractError("trailing tokens after body")
    em = Emit()
    return em.block(b, 2), em.used


def const_value(src, name, rel):
    m = re.search(r"const\s+%s\s*:\s*\w+\s*=\s*([^;]+);" % re.escape(name), src)
    if not m:
        raise ExtractError("const %s not found in %s" % (name, rel))
    v = m.group(1).strip().replace("_", "")
    if not re.fullmatch(r"\d+", v):
        raise ExtractError("const %s in %s is not a literal: %s" % (name, rel, v))
    return int(v)


# ------------------------------------------------------------------ what is generated

SIGN_MACROS = [
    ("integer/src/add_ops.rs", ["impl_ibig_add", "impl_ibig_sub"]),
    ("integer/src/mul_ops.rs", ["impl_ibig_mul"]),
    ("integer/src/div_ops.rs", ["impl_ibig_div", "impl_ibig_rem", "impl_ibig_divrem", "impl_ibig_div_euclid",
                                "impl_ibig_rem_euclid", "impl_ibig_divrem_euclid", "impl_ubig_ibig_rem",
                                "impl_ubig_ibig_divrem"]),
    ("integer/src/bits.rs", ["impl_ibig_bitand", "impl_ibig_bitor", "impl_ibig_bitxor"]),
]
ROUND_MODES = ["Zero", "Away", "Down", "Up", "HalfAway", "HalfEven"]
CONSTANTS = [
    ("integer/src/mul/mod.rs", "THRESHOLD_SIMPLE", "mul_THRESHOLD_SIMPLE"),
    ("integer/src/mul/mod.rs", "THRESHOLD_KARATSUBA", "mul_THRESHOLD_KARATSUBA"),
    ("integer/src/mul/karatsuba.rs", "MIN_LEN", "karatsuba_MIN_LEN"),
    ("integer/src/mul/toom_3.rs", "MIN_LEN", "toom3_MIN_LEN"),
    ("integer/src/mul/simple.rs", "CHUNK_LEN", "mul_simple_CHUNK_LEN"),
    ("integer/src/div/mod.rs", "THRESHOLD_SIMPLE", "div_THRESHOLD_SIMPLE"),
    ("integer/src/sqr/mod.rs", "MAX_LEN_SIMPLE", "sqr_MAX_LEN_SIMPLE"),
]


def param_type(n):
    n = n.lstrip("_")
    if n.startswith("sign") or n.endswith("_sign"):
        return "Sign"
    if n in ("low_half_test",):
        return "Ordering"
    return "Int"


def gen_glue():
    out = ["import Dashu.Model.GluePrelude",
           "/-! GENERATED by vlib/extract.py from /repo — do not edit.  Sign tables of the operator glue. -/",
           "namespace Dashu.Gen", "open Dashu", "set_option linter.unusedVariables false", ""]
    info = {}
    for rel, names in SIGN_MACROS:
        src = read(rel)
        for name in names:
            params, body = macro_body(src, name)
            lean, _ = translate_body(body)
            sig = " ".join("(%s : %s)" % (ident(p), param_type(p)) for p in params)
            out.append("/-- `%s` (%s) -/" % (name, rel))
            out.append("def %s %s :=\n    %s\n" % (name, sig, lean))
            info[name] = hashlib.sha1(body.encode()).hexdigest()[:12]
    out.append("end Dashu.Gen")
    return "\n".join(out) + "\n", info


def gen_round():
    src = read("float/src/round.rs")
    out = ["import Dashu.Model.GluePrelude",
           "/-! GENERATED by vlib/extract.py from /repo/float/src/round.rs — do not edit. -/",
           "namespace Dashu.Gen", "open Dashu", "set_option linter.unusedVariables false", ""]
    info = {}
    for mode in ROUND_MODES:
        params, body = fn_body(src, "round_low_part", after=r"impl\s+Round\s+for\s+mode::%s\s*\{" % mode)
        lean, _ = translate_body(body)
        sig = " ".join("(%s : %s)" % (ident(p), param_type(p)) for p in params)
        out.append("/-- `<mode::%s as Round>::round_low_part` -/" % mode)
        out.append("def round_low_part_%s %s : Rounding :=\n    %s\n" % (mode, sig, lean))
        info["round_low_part_" + mode] = hashlib.sha1(body.encode()).hexdigest()[:12]
    out.append("end Dashu.Gen")
    return "\n".join(out) + "\n", info


def gen_misc():
    out = ["import Dashu.Model.GluePrelude",
           "/-! GENERATED by vlib/extract.py from /repo — do not edit.  Constants, capacity policy, small predicates. -/",
           "namespace Dashu.Gen", "open Dashu", "set_option linter.unusedVariables false", ""]
    info = {}
    for rel, name, lean_name in CONSTANTS:
        v = const_value(read(rel), name, rel)
        out.append("/-- `%s` in %s -/\ndef %s : Nat := %d\n" % (name, rel, lean_name, v))
        info[lean_name] = v
    bsrc = read("integer/src/buffer.rs")
    for fn in ("default_capacity", "max_compact_capacity"):
        params, body = fn_body(bsrc, fn)
        lean, _ = translate_body(body)
        out.append("/-- `Buffer::%s` (MAX_CAPACITY is a parameter: usize::MAX / WORD_BITS) -/" % fn)
        out.append("def %s (MAX_CAPACITY : Int) (%s : Int) :=\n    %s\n" % (fn, ident(params[0]), lean))
        info[fn] = hashlib.sha1(body.encode()).hexdigest()[:12]
    # digit-conversion chunk sizes and the "stop squaring" test of the divide-and-conquer printer
    for rel, name, lean_name in (("integer/src/fmt/non_power_two.rs", "CHUNK_LEN", "fmt_CHUNK_LEN"),
                                 ("integer/src/parse/non_power_two.rs", "CHUNK_LEN", "parse_CHUNK_LEN")):
        v = const_value(read(rel), name, rel)
        out.append("/-- `%s` in %s -/\ndef %s : Nat := %d\n" % (name, rel, lean_name, v))
        info[lean_name] = v
    fsrc = read("integer/src/fmt/non_power_two.rs")
    m = re.search(r"impl\s+PreparedLarge\s*\{", fsrc)
    if not m:
        raise ExtractError("impl PreparedLarge not found")
    _, nbody = fn_body(fsrc, "new", after=r"impl\s+PreparedLarge\s*\{")
    nbody = re.sub(r"//[^\n]*", "", nbody)        # the comment above the test also contains the word `if`
    lp = nbody.find("loop {")
    mm = re.search(r"if\s+([^{};]+?)\s*\{\s*break;", nbody[lp:]) if lp >= 0 else None
    if not mm:
        raise ExtractError("PreparedLarge::new: length shortcut `if … { break; }` not found inside the loop")
    cond = re.sub(r"\b(\w+)\.len\(\)", r"\1_len", mm.group(1))
    names = sorted(set(re.findall(r"\b(\w+_len)\b", cond)))
    if names != ["number_len", "prev_len"]:
        raise ExtractError("PreparedLarge::new: unexpected operands in the length shortcut: %s" % cond)
    lean, _ = translate_body("{ " + cond + " }")
    out.append("/-- the length shortcut that stops squaring the radix-power tower in `PreparedLarge::new`\n    (integer/src/fmt/non_power_two.rs): `%s` -/" % mm.group(1).strip())
    out.append("def fmt_tower_stop (prev_len number_len : Int) : Bool :=\n    %s\n" % lean)
    info["fmt_tower_stop"] = hashlib.sha1(cond.encode()).hexdigest()[:12]
    # float base conversion: exponent magnitude up to which the exact path is used
    csrc = read("float/src/convert.rs")
    m = re.search(r"const\s+THRESHOLD_SMALL_EXP\s*:\s*isize\s*=\s*\(Word::BITS as f32 \* ([0-9.]+)\) as isize\s*;", csrc)
    m2 = re.search(r"const\s+THRESHOLD_SMALL_EXP\s*:\s*isize\s*=\s*(\d+)\s*;", csrc)
    if m:
        import struct
        def f32(x):
            return struct.unpack("f", struct.pack("f", x))[0]
        cst = f32(float(m.group(1)))
        vals = {W: int(f32(f32(float(W)) * cst)) for W in (16, 32, 64)}
        how = "(Word::BITS as f32 * %s) as isize" % m.group(1)
    elif m2:
        vals = {W: int(m2.group(1)) for W in (16, 32, 64)}
        how = m2.group(1)
    else:
        raise ExtractError("THRESHOLD_SMALL_EXP in float/src/convert.rs is neither a literal nor `(Word::BITS as f32 * c) as isize`")
    out.append("/-- `THRESHOLD_SMALL_EXP = %s` in float/src/convert.rs, per word size -/" % how)
    out.append("def float_THRESHOLD_SMALL_EXP (W : Nat) : Nat :=\n    if W = 64 then %d else if W = 32 then %d else if W = 16 then %d else 0\n" % (vals[64], vals[32], vals[16]))
    info["float_THRESHOLD_SMALL_EXP"] = vals[64]
    rsrc = read("rational/src/simplify.rs")
    params, body = fn_body(rsrc, "is_simpler_than")
    lean, _ = translate_body(body)
    out.append("/-- `RBig::is_simpler_than` — `self`/`other` are (numerator, denominator) pairs -/")
    out.append("def is_simpler_than (self other : Int × Int) : Bool :=\n    %s\n" % lean)
    info["is_simpler_than"] = hashlib.sha1(body.encode()).hexdigest()[:12]
    out.append("end Dashu.Gen")
    return "\n".join(out) + "\n", info


FILES = {"Glue.lean": gen_glue, "Round.lean": gen_round, "Misc.lean": gen_misc}


def regenerate(only=None):
    """rewrite lean/Dashu/Gen/*.lean (only when content changed, so lake does not rebuild);
    returns (ok, info)"""
    os.makedirs(GEN_DIR, exist_ok=True)
    info, ok, errors = {}, True, []
    for fname, fn in FILES.items():
        if only and fname not in only:
            continue
        try:
            text, inf = fn()
            info.update(inf)
            path = os.path.join(GEN_DIR, fname)
            old = open(path).read() if os.path.exists(path) else None
            if old != text:
                with open(path + ".tmp", "w") as f:
                    f.write(text)
                os.replace(path + ".tmp", path)
                info.setdefault("_changed", []).append(fname)
        except ExtractError as e:
            ok = False
            errors.append("%s: %s" % (fname, e))
    if errors:
        info["error"] = "; ".join(errors)
    return ok, info


if __name__ == "__main__":
    ok, info = regenerate()
    print(json.dumps(info, indent=1))
    raise SystemExit(0 if ok else 1)
