"""Tie A — regenerate lean/Dashu/Gen/*.lean from /repo's current source (DESIGN §2.1).

Two translators for the decision-logic subset of Rust, both FAIL CLOSED (a construct outside the
subset or a callee outside the whitelist raises with file:line; ./check then reports the property as
no longer shown, no-failing-input-found):

1. the first one (class `Emit`, untyped): the `macro_rules!` sign tables of the integer glue
   (Gen/Glue.lean), the six `round_low_part` tables (Gen/Round.lean), constants / capacity policy /
   small predicates (Gen/Misc.lean).  Callees map onto `Dashu.Model.GluePrelude`.
2. the typed translator (classes `P2`, `Tr`; one Gen file per AREA, see `build_areas()`): whole
   function bodies with `let mut` / assignment to variables, fields and tuple fields (state passing),
   early `return` and panics below the top level (`Sum normal final`, `Except Panic _`), `if let`,
   in-place kernels (`f_in_place(&mut x, …)`), struct literals, closures under `.map`, const generics,
   calls of other regenerated functions, constants, and GUARD targets (only the prologue of a body,
   reduced to panic / returns / continues).  Types are inferred from the signatures; every method,
   function and operator is looked up by (receiver type, name) in a whitelist; kernels the bodies call
   but do not contain (digit counts, shifts, estimates, rounding) are fields of a kernel record
   (`GluePrelude.FloatK`, `RatK` in `Model/GluePrelude/Ext.lean`) that the theorems instantiate with
   the functions of the hand-written model.
   The generated text is CANONICAL (comparisons oriented `<` / `<=`, negated comparisons folded,
   `if !c` arms swapped, `match` on a bool as `if`, closed match arms and the operands of integer
   `+ * == !=` sorted), so that a behaviour-preserving rewrite regenerates the same definitions; each
   definition carries its source file, line span and a hash of the source text.

`regenerate()` rewrites only files whose text changed; a failure in a Gen file outside the import
closure of the calling property's Lean modules does not fail that property.
`python3 vlib/extract.py --selftest [--prove]` checks the tree against the sources and runs the
built-in mutation / benign-rewrite tables.
"""
import os, re, json, hashlib

REPO = os.environ.get("VERIF_REPO", "/repo")
ROOT = os.path.dirname(os.path.dirname(os.path.abspath(__file__)))
GEN_DIR = os.path.join(ROOT, "lean", "Dashu", "Gen")


class ExtractError(Exception):
    pass


# ------------------------------------------------------------------ tokenizer

TOK = re.compile(r"""
    (?P<ws>\s+)
  | (?P<lc>//[^\n]*)
  | (?P<bc>/\*.*?\*/)
  | (?P<num>0x[0-9a-fA-F_]+|\d[\d_]*(?:\.\d+)?(?:[iu](?:8|16|32|64|128|size)|f32|f64)?)
  | (?P<id>\$?[A-Za-z_][A-Za-z0-9_]*)
  | (?P<str>"(?:\\.|[^"\\])*")
  | (?P<op><<=|>>=|=>|==|!=|<=|>=|&&|\|\||->|::|\.\.=|\.\.|<<|>>|\+=|-=|\*=|/=|%=|\|=|&=|\^=|[-+*/%!&|^<>=(){}\[\],;:.?#@'])
""", re.X | re.S)


def tokenize(src):
    out, i = [], 0
    while i < len(src):
        m = TOK.match(src, i)
        if not m:
            raise ExtractError("cannot tokenize at %r" % src[i:i + 30])
        i = m.end()
        k = m.lastgroup
        if k in ("ws", "lc", "bc"):
            continue
        out.append((k, m.group(k)))
    return out


# ------------------------------------------------------------------ parser  (AST = nested tuples)

class P:
    def __init__(self, toks):
        self.t = toks
        self.i = 0

    def peek(self, k=0):
        return self.t[self.i + k] if self.i + k < len(self.t) else ("eof", "")

    def next(self):
        tok = self.peek()
        self.i += 1
        return tok

    def accept(self, v):
        if self.peek()[1] == v:
            self.i += 1
            return True
        return False

    def expect(self, v):
        if not self.accept(v):
            raise ExtractError("expected %r, got %r (context: %s)" % (v, self.peek()[1], " ".join(x[1] for x in self.t[max(0, self.i - 8):self.i + 4])))

    # ---- patterns
    def pattern(self):
        alts = [self.pattern1()]
        while self.accept("|"):
            alts.append(self.pattern1())
        return alts[0] if len(alts) == 1 else ("por", alts)

    def pattern1(self):
        k, v = self.peek()
        if v == "(":
            self.next()
            items = []
            while not self.accept(")"):
                items.append(self.pattern())
                self.accept(",")
            return ("ptuple", items)
        if v == "_":
            self.next()
            return ("pwild",)
        if v in ("&", "mut", "ref"):
            self.next()
            return self.pattern1()
        if k == "num":
            self.next()
            return ("plit", v)
        if k == "id":
            path = self.path()
            if path[-1] in ("true", "false"):
                return ("plit", path[-1])
            if self.peek()[1] == "(":
                self.next()
                items = []
                while not self.accept(")"):
                    items.append(self.pattern())
                    self.accept(",")
                return ("pctor", path, items)
            if len(path) == 1 and (path[0][0].islower() or path[0][0] in "$_"):
                return ("pvar", path[0])
            return ("pctor", path, [])
        raise ExtractError("unsupported pattern at %r" % v)

    def path(self):
        parts = [self.next()[1]]
        while self.peek()[1] == "::":
            self.next()
            if self.peek()[1] == "<":   # turbofish — skip generic args
                depth = 0
                while True:
                    t = self.next()[1]
                    if t == "<":
                        depth += 1
                    elif t == ">":
                        depth -= 1
                        if depth == 0:
                            break
                continue
            parts.append(self.next()[1])
        return parts

    # ---- blocks and statements
    def block(self):
        self.expect("{")
        stmts = []
        tail = None
        while not self.accept("}"):
            k, v = self.peek()
            if v == "let":
                self.next()
                pat = self.pattern()
                if self.accept(":"):
                    self.skip_type()
                self.expect("=")
                e = self.expr()
                self.expect(";")
                stmts.append(("let", pat, e))
                continue
            if v == "return":
                self.next()
                e = self.expr() if self.peek()[1] != ";" else ("unit",)
                self.accept(";")
                stmts.append(("return", e))
                continue
            if k == "id" and self.peek(1)[1] == "!" and v.startswith("debug_assert"):
                self.next(); self.next()
                self.skip_group()
                self.accept(";")
                continue
            if v in ("if", "match"):
                # block-like expression statement: ends at its closing brace (Rust statement rule)
                e = self.primary(False)
                if self.peek()[1] == "}":
                    tail = e
                else:
                    self.accept(";")
                    stmts.append(("expr", e))
                continue
            e = self.expr()
            if self.peek()[1] == "=" and e[0] == "path" and len(e[1]) == 1:
                self.next()
                rhs = self.expr()
                self.expect(";")
                stmts.append(("assign", e[1][0], rhs))
                continue
            if self.accept(";"):
                stmts.append(("expr", e))
            elif self.peek()[1] == "}":
                tail = e
            else:
                # block-like expression used as statement (if / match without `;`)
                stmts.append(("expr", e))
        return ("block", stmts, tail)

    def skip_group(self):
        open_ = self.next()[1]
        close = {"(": ")", "[": "]", "{": "}"}[open_]
        depth = 1
        while depth:
            t = self.next()[1]
            if t == open_:
                depth += 1
            elif t == close:
                depth -= 1

    def skip_type(self):
        depth = 0
        while True:
            v = self.peek()[1]
            if depth == 0 and v in ("=", ",", ")", ";", "{"):
                return
            if v in ("<", "("):
                depth += 1
            if v in (">", ")"):
                depth -= 1
            self.next()

    # ---- expressions (Pratt)
    BIN = {"||": 1, "&&": 2, "==": 3, "!=": 3, "<": 3, ">": 3, "<=": 3, ">=": 3,
           "|": 4, "^": 5, "&": 6, "<<": 7, ">>": 7, "+": 8, "-": 8, "*": 9, "/": 9, "%": 9}

    def expr(self, minp=0, nostruct=False):
        lhs = self.unary(nostruct)
        while True:
            k, v = self.peek()
            if v == "as":
                self.next()
                self.skip_cast_type()
                continue
            if v in self.BIN and self.BIN[v] >= minp + 0 and self.BIN[v] > minp - 1:
                p = self.BIN[v]
                if p < minp:
                    break
                self.next()
                rhs = self.expr(p + 1, nostruct)
                lhs = ("bin", v, lhs, rhs)
                continue
            break
        return lhs

    def skip_cast_type(self):
        # `as usize`, `as $crate::arch::word::DoubleWord`, `as _`
        self.path()

    def unary(self, nostruct):
        k, v = self.peek()
        if v in ("!", "-", "&", "*"):
            self.next()
            if v == "&" and self.peek()[1] == "mut":
                self.next()
            e = self.unary(nostruct)
            if v in ("&", "*"):
                return e            # references erased
            return ("un", v, e)
        return self.postfix(self.primary(nostruct), nostruct)

    def postfix(self, e, nostruct):
        while True:
            v = self.peek()[1]
            if v == ".":
                self.next()
                name = self.next()[1]
                if self.peek()[1] == "::":      # turbofish on method
                    self.next(); self.skip_generic()
                if self.peek()[1] == "(":
                    e = ("mcall", e, name, self.args())
                else:
                    e = ("field", e, name)
                continue
            if v == "(":
                e = ("call", e, self.args())
                continue
            if v == "?":
                raise ExtractError("`?` operator not supported")
            break
        return e

    def skip_generic(self):
        depth = 0
        while True:
            t = self.next()[1]
            if t == "<":
                depth += 1
            elif t == ">":
                depth -= 1
                if depth == 0:
                    return

    def args(self):
        self.expect("(")
        a = []
        while not self.accept(")"):
            a.append(self.expr())
            self.accept(",")
        return a

    def primary(self, nostruct):
        k, v = self.peek()
        if v == "(":
            self.next()
            items = []
            trailing = False
            while not self.accept(")"):
                items.append(self.expr())
                trailing = self.accept(",")
            if len(items) == 1 and not trailing:
                return items[0]
            return ("tuple", items)
        if v == "{":
            return self.block()
        if v == "match":
            self.next()
            scrut = self.expr(nostruct=True)
            self.expect("{")
            arms = []
            while not self.accept("}"):
                pat = self.pattern()
                if self.accept("if"):
                    raise ExtractError("match guards not supported")
                self.expect("=>")
                body = self.expr()
                self.accept(",")
                arms.append((pat, body))
            return ("match", scrut, arms)
        if v == "if":
            self.next()
            c = self.expr(nostruct=True)
            t = self.block()
            e = None
            if self.accept("else"):
                e = self.primary(nostruct) if self.peek()[1] == "if" else self.block()
            return ("if", c, t, e)
        if k == "num":
            self.next()
            return ("num", v)
        if k == "id":
            path = self.path()
            if self.peek()[1] == "!" and self.peek(1)[1] in ("(", "[", "{"):
                raise ExtractError("macro call %s! not supported" % path[-1])
            return ("path", path)
        raise ExtractError("unsupported expression at %r" % v)


# ------------------------------------------------------------------ emitter

CTORS = {"Positive": "Sign.Positive", "Negative": "Sign.Negative",
         "NoOp": "Rounding.NoOp", "AddOne": "Rounding.AddOne", "SubOne": "Rounding.SubOne",
         "Less": "Ordering.lt", "Equal": "Ordering.eq", "Greater": "Ordering.gt",
         "true": "true", "false": "false"}

# whitelisted callee -> prelude function (all in namespace Dashu.GluePrelude)
METHODS = {"add": "add", "sub": "sub", "mul": "mul", "div": "div", "rem": "rem", "div_rem": "div_rem",
           "sub_signed": "sub_signed", "with_sign": "with_sign", "into_typed": "into_typed",
           "as_ref": "as_ref", "is_zero": "is_zero", "add_one": "add_one", "sub_one": "sub_one",
           "bitand": "bitand", "bitor": "bitor", "bitxor": "bitxor", "and_not": "and_not",
           "sign": "sign", "bit": "bit", "min": "min", "max": "max", "abs_cmp": "abs_cmp", "is_le": "is_le",
           "is_lt": "is_lt", "is_ge": "is_ge", "is_gt": "is_gt", "is_eq": "is_eq", "is_ne": "is_ne",
           "cmp": "cmp", "numerator": "numerator", "denominator": "denominator", "neg": "neg", "clone": "as_ref"}
FUNCS = {"IBig": "mkIBig", "UBig": "mkUBig"}
CONSTS = {("IBig", "ZERO"): "(0 : Int)", ("UBig", "ZERO"): "(0 : Int)", ("Self", "MAX_CAPACITY"): "MAX_CAPACITY"}


def ident(s):
    s = s.lstrip("$")
    if s in ("end", "at", "from", "to", "fun", "in", "then", "open", "show", "have"):
        s += "_"
    return s


class Emit:
    def __init__(self):
        self.used = set()

    def pat(self, p):
        k = p[0]
        if k == "pwild":
            return "_"
        if k == "pvar":
            return ident(p[1])
        if k == "plit":
            return CTORS.get(p[1], p[1])
        if k == "pctor":
            name = p[1][-1]
            if name not in CTORS:
                raise ExtractError("unknown constructor pattern %s" % "::".join(p[1]))
            if p[2]:
                raise ExtractError("constructor pattern with fields not supported")
            return "." + CTORS[name].split(".")[1] if "." in CTORS[name] else CTORS[name]
        if k == "ptuple":
            return ", ".join(self.pat(x) for x in p[1])
        if k == "por":
            raise ExtractError("nested or-pattern")
        raise ExtractError("pattern " + k)

    def let_pat(self, p):
        if p[0] == "pvar":
            return ident(p[1])
        if p[0] == "pwild":
            return "_"
        if p[0] == "ptuple":
            return "(" + ", ".join(self.let_pat(x) for x in p[1]) + ")"
        raise ExtractError("let pattern " + p[0])

    def block(self, b, ind):
        _, stmts, tail = b
        return self.stmts(list(stmts), tail, ind)

    def stmts(self, stmts, tail, ind):
        pad = "  " * ind
        if not stmts:
            if tail is None:
                raise ExtractError("block without value")
            return self.e(tail, ind)
        s = stmts[0]
        rest = stmts[1:]
        if s[0] == "let":
            return "let %s := %s;\n%s%s" % (self.let_pat(s[1]), self.e(s[2], ind + 1), pad, self.stmts(rest, tail, ind))
        if s[0] == "return":
            return self.e(s[1], ind)
        if s[0] == "assign":
            return "let %s := %s;\n%s%s" % (ident(s[1]), self.e(s[2], ind + 1), pad, self.stmts(rest, tail, ind))
        if s[0] == "expr":
            e = s[1]
            # statement-level `if c { x = e1; y = e2; }` (no else, assignments only): rebind
            if e[0] == "if" and e[3] is None and e[2][0] == "block" and e[2][2] is None and e[2][1] \
                    and all(st[0] == "assign" for st in e[2][1]):
                names = []
                for st in e[2][1]:
                    if st[1] not in names:
                        names.append(st[1])
                tup = "(" + ", ".join(ident(n) for n in names) + ")" if len(names) > 1 else ident(names[0])
                inner = self.stmts(list(e[2][1]), ("path", ["__TUP__"]), ind + 2).replace("__TUP__", tup)
                return "let %s := (if %s then (%s)\n%s  else %s);\n%s%s" % (
                    tup, self.e(e[1], ind), inner, pad, tup, pad, self.stmts(rest, tail, ind))
            # statement-level `if c { return X; }` (no else): early return
            if e[0] == "if" and e[3] is None and self.block_returns(e[2]):
                return "if %s then %s\n%selse %s" % (self.e(e[1], ind), self.block(e[2], ind + 1), pad, self.stmts(rest, tail, ind + 1))
            if not rest and tail is None:
                return self.e(e, ind)      # last block-like expression is the value
            raise ExtractError("expression statement with side effects not supported")
        raise ExtractError("statement " + s[0])

    def block_returns(self, b):
        return b[0] == "block" and b[1] and b[1][-1][0] == "return"

    def e(self, x, ind=0):
        pad = "  " * ind
        k = x[0]
        if k == "num":
            v = re.sub(r"(?<=\d)(?:[iu](?:8|16|32|64|128|size))$", "", x[1].replace("_", ""))
            return "(%s)" % v
        if k == "path":
            p = x[1]
            if tuple(p[-2:]) in CONSTS:
                return CONSTS[tuple(p[-2:])]
            name = p[-1]
            if name in CTORS and (len(p) > 1 or name[0].isupper() or name in ("true", "false")):
                return CTORS[name]
            if len(p) > 1:
                raise ExtractError("unsupported path %s" % "::".join(p))
            return ident(name)
        if k == "tuple":
            return "(" + ", ".join(self.e(i, ind) for i in x[1]) + ")"
        if k == "un":
            op = {"!": "GluePrelude.not_", "-": "GluePrelude.neg_"}[x[1]]
            return "(%s %s)" % (op, self.e(x[2], ind))
        if k == "bin":
            op = x[1]
            a, b = self.e(x[2], ind), self.e(x[3], ind)
            m = {"+": "add_", "-": "sub_", "*": "mul_", "/": "div_", "%": "rem_", "==": "eq_", "!=": "ne_",
                 "<": "lt_", "<=": "le_", ">": "gt_", ">=": "ge_", "&&": None, "||": None}
            if op == "&&":
                return "(%s && %s)" % (a, b)
            if op == "||":
                return "(%s || %s)" % (a, b)
            if op not in m:
                raise ExtractError("operator %s not supported" % op)
            return "(GluePrelude.%s %s %s)" % (m[op], a, b)
        if k == "mcall":
            name = x[2]
            if name not in METHODS:
                raise ExtractError("method .%s() is not in the translator whitelist" % name)
            args = [self.e(x[1], ind)] + [self.e(a, ind) for a in x[3]]
            self.used.add(name)
            return "(GluePrelude.%s %s)" % (METHODS[name], " ".join(args))
        if k == "call":
            f = x[1]
            if f[0] == "path" and f[1][-1] in FUNCS and len(x[2]) == 1:
                return "(GluePrelude.%s %s)" % (FUNCS[f[1][-1]], self.e(x[2][0], ind))
            if f[0] == "path" and len(f[1]) == 1 and not x[2]:
                return ident(f[1][0])            # closure parameter called with no arguments
            raise ExtractError("call of %r not in whitelist" % (f,))
        if k == "field":
            raise ExtractError("field access .%s not supported" % x[2])
        if k == "block":
            return "(" + self.block(x, ind + 1) + ")"
        if k == "if":
            if x[3] is None:
                raise ExtractError("if without else used as a value")
            els = self.e(x[3], ind + 1) if x[3][0] == "if" else self.block(x[3], ind + 1)
            return "(if %s then %s\n%selse %s)" % (self.e(x[1], ind), self.block(x[2], ind + 1), pad, els)
        if k == "match":
            scr = x[1]
            scrs = [self.e(i, ind) for i in scr[1]] if scr[0] == "tuple" else [self.e(scr, ind)]
            out = "(match " + ", ".join(scrs) + " with"
            for pat, body in x[2]:
                alts = pat[1] if pat[0] == "por" else [pat]
                for a in alts:
                    out += "\n%s  | %s => %s" % (pad, self.pat(a), self.e(body, ind + 2))
            return out + ")"
        raise ExtractError("expression kind " + k)



# ================================================================== v2: parser extensions
#
# P2 keeps what the first translator erased and reads more of Rust: `&mut` (kept as "refmut"),
# `as` casts (kept with their target type), compound assignment, assignment to fields / tuple
# fields, `let x: T;` (deferred initialisation), `if let`, struct literals, closures, turbofish
# arguments of paths.  AST additions:
#   ("refmut", e) ("cast", e, "usize") ("iflet", pat, e, then, else) ("struct", path, [(f, e)], base)
#   ("closure", [names], e) ("path", parts, generics) ("letdecl", name) ("assignop", op, place, e)
#   ("assignp", place, e) ("macro", name)

class P2(P):
    def path(self):
        parts = [self.next()[1]]
        gens = []
        while self.peek()[1] == "::":
            self.next()
            if self.peek()[1] == "<":
                depth = 0
                cur = []
                while True:
                    t = self.next()[1]
                    if t == "<":
                        depth += 1
                        if depth == 1:
                            continue
                    elif t == ">":
                        depth -= 1
                        if depth == 0:
                            break
                    elif t == ">>":
                        depth -= 2
                        if depth <= 0:
                            break
                    if t == "," and depth == 1:
                        gens.append(" ".join(cur)); cur = []
                    else:
                        cur.append(t)
                if cur:
                    gens.append(" ".join(cur))
                continue
            parts.append(self.next()[1])
        self.last_generics = gens
        return parts

    def type_text(self):
        """consume a type after `:` or `as` up to a delimiter at depth 0; returns its text"""
        depth = 0
        out = []
        while True:
            v = self.peek()[1]
            if depth == 0 and v in ("=", ",", ")", ";", "{", "}", "|") or self.peek()[0] == "eof":
                break
            if v in ("<", "(", "["):
                depth += 1
            elif v in (">", ")", "]"):
                depth -= 1
            elif v == ">>":
                depth -= 2
            out.append(v)
            self.next()
        return " ".join(out)

    def pattern1(self):
        k, v = self.peek()
        if v in ("&", "mut", "ref"):
            self.next()
            return self.pattern1()
        if v == "-" and self.peek(1)[0] == "num":
            self.next()
            return ("plit", "-" + self.next()[1])
        return P.pattern1(self)

    def place(self, e):
        """is `e` an assignable place: x, x.f, x.0, x.f.g …"""
        while e[0] == "field":
            e = e[1]
        return e[0] == "path" and len(e[1]) == 1

    ASSIGN_OPS = {"+=": "+", "-=": "-", "*=": "*", "/=": "/", "%=": "%", "<<=": "<<", ">>=": ">>",
                  "|=": "|", "&=": "&", "^=": "^"}

    def block(self):
        self.expect("{")
        stmts = []
        tail = None
        while not self.accept("}"):
            k, v = self.peek()
            if v == ";":
                self.next()
                continue
            if v == "let":
                self.next()
                pat = self.pattern()
                ty = None
                if self.accept(":"):
                    ty = self.type_text()
                if self.accept(";"):
                    if pat[0] != "pvar":
                        raise ExtractError("`let` without initialiser needs a plain name")
                    stmts.append(("letdecl", pat[1], ty))
                    continue
                self.expect("=")
                e = self.expr()
                if self.peek()[1] == "else":
                    raise ExtractError("let-else not supported")
                self.expect(";")
                stmts.append(("let", pat, e, ty))
                continue
            if v == "return":
                self.next()
                e = self.expr() if self.peek()[1] not in (";", "}") else ("unit",)
                self.accept(";")
                stmts.append(("return", e))
                continue
            if k == "id" and self.peek(1)[1] == "!" and self.peek(2)[1] in ("(", "[", "{"):
                if v.startswith("debug_assert"):
                    self.next(); self.next()
                    self.skip_group()
                    self.accept(";")
                    continue
            if v in ("if", "match"):
                e = self.primary(False)
                if self.peek()[1] == "." :
                    e = self.postfix(e, False)       # `match … { … }.value()`
                    e = self.expr_rest(e)
                    if self.accept(";"):
                        stmts.append(("expr", e))
                    elif self.peek()[1] == "}":
                        tail = e
                    else:
                        raise ExtractError("unexpected token %r after block expression" % self.peek()[1])
                    continue
                if self.peek()[1] == "}":
                    tail = e
                else:
                    self.accept(";")
                    stmts.append(("expr", e))
                continue
            if v in ("while", "for", "loop", "unsafe"):
                raise ExtractError("`%s` is outside the decision-logic subset" % v)
            e = self.expr()
            nv = self.peek()[1]
            if nv == "=" or nv in self.ASSIGN_OPS:
                if not self.place(e):
                    raise ExtractError("assignment to something that is not a variable / field")
                self.next()
                rhs = self.expr()
                self.expect(";")
                if nv == "=":
                    stmts.append(("assignp", e, rhs))
                else:
                    stmts.append(("assignop", self.ASSIGN_OPS[nv], e, rhs))
                continue
            if self.accept(";"):
                stmts.append(("expr", e))
            elif self.peek()[1] == "}":
                tail = e
            else:
                raise ExtractError("unexpected token %r after expression" % self.peek()[1])
        return ("block", stmts, tail)

    def expr_rest(self, lhs, minp=0):
        """continue a binary-operator chain whose first operand is already parsed"""
        while True:
            k, v = self.peek()
            if v == "as":
                self.next()
                lhs = ("cast", lhs, self.cast_type())
                continue
            if v in self.BIN and self.BIN[v] >= minp:
                p = self.BIN[v]
                self.next()
                rhs = self.expr(p + 1)
                lhs = ("bin", v, lhs, rhs)
                continue
            break
        return lhs

    def cast_type(self):
        parts = self.path()
        return parts[-1]

    def expr(self, minp=0, nostruct=False):
        lhs = self.unary(nostruct)
        while True:
            k, v = self.peek()
            if v == "as":
                self.next()
                lhs = ("cast", lhs, self.cast_type())
                continue
            if v in self.BIN and self.BIN[v] >= minp:
                p = self.BIN[v]
                self.next()
                rhs = self.expr(p + 1, nostruct)
                lhs = ("bin", v, lhs, rhs)
                continue
            break
        return lhs

    def unary(self, nostruct):
        k, v = self.peek()
        if v == "&&":                          # `&&x`
            self.next()
            return self.unary(nostruct)
        if v in ("!", "-", "&", "*"):
            self.next()
            mut = False
            if v == "&" and self.peek()[1] == "mut":
                self.next()
                mut = True
            e = self.unary(nostruct)
            if mut:
                return ("refmut", e)
            if v in ("&", "*"):
                return e
            return ("un", v, e)
        return self.postfix(self.primary(nostruct), nostruct)

    def postfix(self, e, nostruct):
        while True:
            v = self.peek()[1]
            if v == ".":
                self.next()
                name = self.next()[1]
                gens = []
                if self.peek()[1] == "::":
                    self.next(); self.skip_generic()
                if self.peek()[1] == "(":
                    e = ("mcall", e, name, self.args())
                else:
                    e = ("field", e, name)
                continue
            if v == "(":
                e = ("call", e, self.args())
                continue
            if v == "?":
                raise ExtractError("`?` operator not supported")
            if v == "[":
                raise ExtractError("indexing is outside the decision-logic subset")
            break
        return e

    def primary(self, nostruct):
        k, v = self.peek()
        if v == "|" or v == "||":              # closure
            self.next()
            names = []
            if v == "|":
                while not self.accept("|"):
                    pat = self.pattern1()
                    if pat[0] not in ("pvar", "pwild"):
                        raise ExtractError("closure parameter pattern not supported")
                    names.append(pat[1] if pat[0] == "pvar" else "_")
                    if self.accept(":"):
                        self.type_text()
                    self.accept(",")
            return ("closure", names, self.expr())
        if v == "match":
            self.next()
            scrut = self.expr(nostruct=True)
            self.expect("{")
            arms = []
            while not self.accept("}"):
                pat = self.pattern()
                if self.accept("if"):
                    raise ExtractError("match guards not supported")
                self.expect("=>")
                body = self.block() if self.peek()[1] == "{" else self.expr()
                self.accept(",")
                arms.append((pat, body))
            return ("match", scrut, arms)
        if v == "if":
            self.next()
            if self.peek()[1] == "let":
                self.next()
                pat = self.pattern()
                self.expect("=")
                c = self.expr(nostruct=True)
                t = self.block()
                e = None
                if self.accept("else"):
                    e = self.primary(nostruct) if self.peek()[1] == "if" else self.block()
                return ("iflet", pat, c, t, e)
            c = self.expr(nostruct=True)
            t = self.block()
            e = None
            if self.accept("else"):
                e = self.primary(nostruct) if self.peek()[1] == "if" else self.block()
            return ("if", c, t, e)
        if v in ("while", "for", "loop", "unsafe"):
            raise ExtractError("`%s` is outside the decision-logic subset" % v)
        if v == "return":                      # `return e` in expression position (a match arm)
            self.next()
            e = self.expr() if self.peek()[1] not in (",", ";", "}", ")") else ("unit",)
            return ("ret", e)
        if k == "id":
            path = self.path()
            gens = self.last_generics
            if self.peek()[1] == "!" and self.peek(1)[1] in ("(", "[", "{"):
                self.next()
                self.skip_group()
                return ("macro", path[-1])
            if self.peek()[1] == "{" and not nostruct and path[-1][:1].isupper():
                self.next()
                fields, base = [], None
                while not self.accept("}"):
                    if self.accept(".."):
                        base = self.expr()
                        continue
                    fname = self.next()[1]
                    if self.accept(":"):
                        fe = self.expr()
                    else:
                        fe = ("path", [fname], [])
                    fields.append((fname, fe))
                    self.accept(",")
                return ("struct", path, fields, base)
            return ("path", path, gens)
        return P.primary(self, nostruct)

# ------------------------------------------------------------------ locating items in source

def read(rel):
    return open(os.path.join(REPO, rel)).read()


def balanced(src, start, open_="{", close="}"):
    """src[start] == open_; returns index after the matching close (skips strings/comments/char lits)"""
    depth, i, n = 0, start, len(src)
    while i < n:
        c = src[i]
        if src.startswith("//", i):
            i = src.find("\n", i)
            i = n if i < 0 else i
            continue
        if src.startswith("/*", i):
            i = src.find("*/", i) + 2
            continue
        if c == '"':
            i += 1
            while src[i] != '"':
                i += 2 if src[i] == "\\" else 1
            i += 1
            continue
        if c == open_:
            depth += 1
        elif c == close:
            depth -= 1
            if depth == 0:
                return i + 1
        i += 1
    raise ExtractError("unbalanced")


def macro_body(src, name):
    m = re.search(r"macro_rules!\s+%s\s*\{" % re.escape(name), src)
    if not m:
        raise ExtractError("macro %s not found" % name)
    end = balanced(src, m.end() - 1)
    body = src[m.end():end - 1]
    m2 = re.match(r"\s*\(([^)]*)\)\s*=>\s*\{", body)
    if not m2:
        raise ExtractError("macro %s: unsupported rule head" % name)
    params = re.findall(r"\$([a-z0-9_]+)\s*:\s*ident", m2.group(1))
    bstart = m2.end() - 1
    bend = balanced(body, bstart)
    rest = body[bend:].strip().rstrip(";").strip()
    if rest:
        raise ExtractError("macro %s: more than one rule" % name)
    return params, body[bstart:bend]


def fn_body(src, fn_name, after=None):
    pos = 0
    if after:
        m = re.search(after, src)
        if not m:
            raise ExtractError("anchor %r not found" % after)
        pos = m.end()
    m = re.compile(r"fn\s+%s\b" % re.escape(fn_name)).search(src, pos)
    if not m:
        raise ExtractError("fn %s not found" % fn_name)
    # parameter list (skip a generic parameter list `<F: FnOnce() -> Ordering>` first)
    q = m.end()
    while src[q].isspace():
        q += 1
    if src[q] == "<":
        depth = 0
        while True:
            if src[q] == "<":
                depth += 1
            elif src[q] == ">" and src[q - 1] != "-":
                depth -= 1
                if depth == 0:
                    q += 1
                    break
            q += 1
    p0 = src.index("(", q)
    p1 = balanced(src, p0, "(", ")")
    params = src[p0 + 1:p1 - 1]
    b0 = src.index("{", p1)
    if ";" in src[p1:b0]:
        raise ExtractError("fn %s has no body here" % fn_name)
    b1 = balanced(src, b0)
    names = []
    for part in split_top(params):
        part = part.strip()
        if not part or part in ("self", "&self", "&mut self"):
            if part:
                names.append("self")
            continue
        names.append(part.split(":")[0].strip().lstrip("_").replace("mut ", ""))
    return names, src[b0:b1]


def split_top(s):
    out, depth, cur = [], 0, ""
    for c in s:
        if c in "<([":
            depth += 1
        if c in ">)]":
            depth -= 1
        if c == "," and depth == 0:
            out.append(cur); cur = ""
        else:
            cur += c
    if cur.strip():
        out.append(cur)
    return out


def translate_body(text):
    toks = tokenize(text)
    p = P(toks)
    b = p.block()
    if p.peek()[0] != "eof":
        raise ExtractError("trailing tokens after body")
    em = Emit()
    return em.block(b, 2), em.used


def const_value(src, name, rel):
    m = re.search(r"const\s+%s\s*:\s*\w+\s*=\s*([^;]+);" % re.escape(name), src)
    if not m:
        raise ExtractError("const %s not found in %s" % (name, rel))
    v = m.group(1).strip().replace("_", "")
    if not re.fullmatch(r"\d+", v):
        raise ExtractError("const %s in %s is not a literal: %s" % (name, rel, v))
    return int(v)



# ================================================================== v2: typed translator
#
# Types of the translated fragment (strings / tuples):
#   "Int" (every Rust integer type, UBig, IBig), "Bool", "Sign", "Ordering", "Rounding", "Unit",
#   "E" (an f32 estimate bound: abstract, compared through the kernel record),
#   struct names of STRUCTS ("FRepr", "QRepr", "FBig", "FCtx"),
#   ("tuple", (t…)), ("option", t), ("approx", t) = Approximation<t, Rounding>.
# Control flow: a `return` / panic below the top level turns the enclosing block expression into a
# `Sum normal final`; a block that assigns outer variables yields the tuple of their new values
# (state passing).  Where exactly one path of a statement falls through, the rest of the function
# is placed at that path instead (no sum needed).

STRUCTS = {
    "FRepr": [("significand", "Int"), ("exponent", "Int")],
    "QRepr": [("numerator", "Int"), ("denominator", "Int")],
    "FCtx": [("precision", "Int")],
    "FBig": [("repr", "FRepr"), ("context", "FCtx")],
}
LEAN_TY = {"Flow": "GluePrelude.Flow", "Int": "Int", "Bool": "Bool", "Sign": "Sign", "Ordering": "Ordering", "Rounding": "Rounding",
           "Unit": "Unit", "E": "E", "FRepr": "GluePrelude.FRepr", "QRepr": "GluePrelude.QRepr",
           "FCtx": "GluePrelude.FCtx", "FBig": "GluePrelude.FBig", "Panic": "GluePrelude.Panic"}


def ty_lean(t):
    if isinstance(t, str):
        if t not in LEAN_TY:
            raise ExtractError("no Lean type for %r" % (t,))
        return LEAN_TY[t]
    if t[0] == "tuple":
        return "(" + " × ".join(ty_lean(x) for x in t[1]) + ")"
    if t[0] == "option":
        return "(Option %s)" % ty_lean(t[1])
    if t[0] == "approx":
        return "(GluePrelude.Approx %s)" % ty_lean(t[1])
    if t[0] == "except":
        return "(Except GluePrelude.Panic %s)" % ty_lean(t[1])
    raise ExtractError("no Lean type for %r" % (t,))


INT_TYPES = {"u8", "u16", "u32", "u64", "u128", "usize", "i8", "i16", "i32", "i64", "i128", "isize",
             "Word", "DoubleWord", "UBig", "IBig"}


def rust_type(text, tmap):
    """map the text of a Rust type (as written in a signature / cast / let) to a translator type"""
    toks = []
    for t in tokenize(text):
        if t[1] == ">>":
            toks += [">", ">"]
        elif t[1] == ">>=":
            toks += [">", ">", "="]
        else:
            toks.append(t[1])

    def parse(i):
        while i < len(toks) and (toks[i] in ("&", "mut", "&&") or toks[i] == "'"):
            if toks[i] == "'":
                i += 2
            else:
                i += 1
        if i >= len(toks):
            raise ExtractError("empty type in %r" % text)
        t = toks[i]
        if t == "(":
            i += 1
            items = []
            while toks[i] != ")":
                x, i = parse(i)
                items.append(x)
                if toks[i] == ",":
                    i += 1
            i += 1
            if not items:
                return "Unit", i
            return (items[0] if len(items) == 1 else ("tuple", tuple(items))), i
        # path type
        name = t
        i += 1
        while i < len(toks) and toks[i] == "::":
            name = toks[i + 1]
            i += 2
        args = []
        if i < len(toks) and toks[i] == "<":
            i += 1
            depth = 1
            while depth:
                if toks[i] in ("<",):
                    depth += 1; i += 1
                elif toks[i] == ">":
                    depth -= 1; i += 1
                elif toks[i] == ">>":
                    depth -= 2; i += 1
                elif toks[i] == "," and depth == 1:
                    i += 1
                elif depth == 1 and (toks[i][0].isalpha() or toks[i] in ("(", "&")) and toks[i] not in ("const",):
                    if toks[i] == "'" :
                        i += 2
                        continue
                    try:
                        x, i = parse(i)
                        args.append(x)
                    except ExtractError:
                        i += 1           # a const / mode parameter (`B`, `R`): not a value type
                else:
                    i += 1
        if name in INT_TYPES:
            return "Int", i
        if name == "Output" and i >= 3 and toks[i - 3] == "Self" and "Self" in tmap:
            return tmap["Self"], i
        if name == "bool":
            return "Bool", i
        if name in ("Sign", "Ordering", "Rounding"):
            return name, i
        if name == "f32":
            return "E", i
        if name == "Option":
            return ("option", args[0]), i
        if name in ("Rounded", "Approximation"):
            return ("approx", args[0]), i
        if name in tmap:
            return tmap[name], i
        raise ExtractError("type %s is not in the translator's type map" % name)

    # generic single-letter parameters like R, B are never the whole type here
    t, i = parse(0)
    return t


def proj(e, i, n):
    """i-th component of an n-tuple expression (Lean right-nested pairs)"""
    if n == 1:
        return e
    s = e + ".2" * i
    return s + ".1" if i < n - 1 else s


class Ctx:
    """how a statement list finishes: `normal` (falls off the end with a value) and `final`
    (the function's result, already wrapped)"""
    def __init__(self, normal, final, kind):
        self.normal, self.final, self.kind = normal, final, kind
        self.vtypes = []


CT2 = {"Positive": ("Sign.Positive", "Sign"), "Negative": ("Sign.Negative", "Sign"),
       "Less": ("Ordering.lt", "Ordering"), "Equal": ("Ordering.eq", "Ordering"), "Greater": ("Ordering.gt", "Ordering"),
       "NoOp": ("Rounding.NoOp", "Rounding"), "AddOne": ("Rounding.AddOne", "Rounding"),
       "SubOne": ("Rounding.SubOne", "Rounding")}
PAT_CT = {"Positive": ".Positive", "Negative": ".Negative", "Less": ".lt", "Equal": ".eq", "Greater": ".gt",
          "NoOp": ".NoOp", "AddOne": ".AddOne", "SubOne": ".SubOne", "true": "true", "false": "false",
          "None": "none"}

# (receiver type, method) -> (template over {0} = receiver, {1}… = arguments, result type)
METHODS2 = {
    ("Int", "sign"): ("(GluePrelude.sign {0})", "Sign"),
    ("Int", "signum"): ("(GluePrelude.signum {0})", "Int"),
    ("Int", "is_zero"): ("(GluePrelude.is_zero {0})", "Bool"),
    ("Int", "is_one"): ("(GluePrelude.is_one {0})", "Bool"),
    ("Int", "cmp"): ("(GluePrelude.cmp {0} {1})", "Ordering"),
    ("Int", "abs_cmp"): ("(GluePrelude.abs_cmp {0} {1})", "Ordering"),
    ("Int", "abs_eq"): ("(GluePrelude.abs_eq {0} {1})", "Bool"),
    ("Int", "eq"): ("(GluePrelude.eq_ {0} {1})", "Bool"),
    ("Int", "clone"): ("{0}", "Int"),
    ("Int", "into"): ("{0}", "Int"),
    ("Int", "min"): ("(GluePrelude.min {0} {1})", "Int"),
    ("Int", "max"): ("(GluePrelude.max {0} {1})", "Int"),
    ("Int", "abs_diff"): ("(GluePrelude.abs_diff {0} {1})", "Int"),
    ("Int", "saturating_sub"): ("(GluePrelude.saturating_sub {0} {1})", "Int"),
    # C05 (round 5): `isize::saturating_add` over the unbounded `Int` of the model is the exact sum (the model assumes no
    # exponent overflow); lets proposed_fixes/c05-float-cmp-exponent-overflow.diff regenerate the same text
    ("Int", "saturating_add"): ("(GluePrelude.add_ {0} {1})", "Int"),
    # C03 (round 5): likewise `usize::saturating_mul` is the exact product over the model's unbounded `Int`; lets
    # proposed_fixes/float-precision-usize-overflow.diff (`self.precision.saturating_mul(2)`) regenerate
    ("Int", "saturating_mul"): ("(GluePrelude.mul_ {0} {1})", "Int"),
    ("Int", "unsigned_abs"): ("(GluePrelude.unsigned_abs {0})", "Int"),
    ("Int", "bit_len"): ("(GluePrelude.bit_len {0})", "Int"),
    ("Int", "are_low_bits_nonzero"): ("(GluePrelude.are_low_bits_nonzero {0} {1})", "Bool"),
    ("Int", "as_ref"): ("{0}", "Int"),
    ("Int", "into_sign_repr"): ("(GluePrelude.as_sign_repr {0})", ("tuple", ("Sign", "Int"))),
    ("Int", "as_sign_repr"): ("(GluePrelude.as_sign_repr {0})", ("tuple", ("Sign", "Int"))),
    ("Int", "into_parts"): ("(GluePrelude.as_sign_repr {0})", ("tuple", ("Sign", "Int"))),
    ("Int", "is_power_of_two"): ("(GluePrelude.is_power_of_two {0})", "Bool"),
    ("Int", "trailing_zeros"): ("(GluePrelude.trailing_zeros {0})", "Int"),
    ("Int", "pow"): ("(GluePrelude.pow {0} {1})", "Int"),
    ("Ordering", "reverse"): ("(GluePrelude.reverse {0})", "Ordering"),
    ("Ordering", "then"): ("(GluePrelude.then_ {0} {1})", "Ordering"),
    ("Sign", "clone"): ("{0}", "Sign"),
    ("FRepr", "clone"): ("{0}", "FRepr"),
    ("QRepr", "clone"): ("{0}", "QRepr"),
    ("FBig", "clone"): ("{0}", "FBig"),
    ("FCtx", "clone"): ("{0}", "FCtx"),
    ("FRepr", "significand"): ("{0}.significand", "Int"),
    ("FRepr", "exponent"): ("{0}.exponent", "Int"),
    ("FBig", "repr"): ("{0}.repr", "FRepr"),
}

NEG_CMP = {"<": ">=", "<=": ">", ">": "<=", ">=": "<", "==": "!=", "!=": "=="}
BINOPS = {"+": "add_", "-": "sub_", "*": "mul_", "/": "div_", "%": "rem_", "==": "eq_", "!=": "ne_",
          "<": "lt_", "<=": "le_", ">": "gt_", ">=": "ge_"}


class Area:
    """one generated file: its vocabulary and the source items it reads"""
    def __init__(self, name, doc, tmap, kernel=None, uses=(), methods=None, funcs=None, consts=None,
                 inplace=None, variables=""):
        self.name, self.doc, self.tmap, self.kernel, self.uses = name, doc, tmap, kernel, list(uses)
        self.methods = dict(methods or {})
        self.funcs = dict(funcs or {})
        self.consts = dict(consts or {})
        self.inplace = dict(inplace or {})
        self.variables = variables
        self.targets = []


def localise_decl(name, stmts, tail):
    """rewrite the assignments `name = e;` (plain variable) inside the statements / tail into `let name = e;`;
    returns (stmts, tail, number of assignments rewritten)"""
    cnt = [0]

    def rw(x):
        if isinstance(x, tuple):
            if len(x) == 3 and x[0] == "assignp" and isinstance(x[1], tuple) and x[1][0] == "path" and list(x[1][1]) == [name]:
                cnt[0] += 1
                return ("let", ("pvar", name), rw(x[2]), None)
            return tuple(rw(y) for y in x)
        if isinstance(x, list):
            return [rw(y) for y in x]
        return x
    return rw(list(stmts)), (rw(tail) if tail is not None else None), cnt[0]


class GenSym:
    """a generated definition, callable from later ones"""
    def __init__(self, lean, params, ret, uses_k, panics, cgen):
        self.lean, self.params, self.ret, self.uses_k, self.panics, self.cgen = lean, params, ret, uses_k, panics, cgen


class Tr:
    def __init__(self, area, syms, where, ret_ty, panic_mode, self_ty=None):
        self.a, self.syms, self.where = area, syms, where
        self.ret_ty, self.panic_mode, self.self_ty = ret_ty, panic_mode, self_ty
        self.uses_k = False
        self.ntmp = 0
        self.guard_mode = False
        self.guard_cut = False

    # ---------------------------------------------------------------- helpers
    def err(self, msg):
        raise ExtractError("%s: %s" % (self.where, msg))

    def tmp(self):
        self.ntmp += 1
        return "t_%d" % self.ntmp

    def wrap_ok(self, v):
        return "(Except.ok %s)" % v if self.panic_mode else v

    def final_ty(self):
        return ("except", self.ret_ty) if self.panic_mode else self.ret_ty

    def k(self, s):
        if "k." in s:
            if not self.a.kernel:
                self.err("kernel function used in an area without a kernel record")
            self.uses_k = True
        return s

    def lookup_method(self, ty, name):
        key = (ty if isinstance(ty, str) else ty[0], name)
        if key in self.a.methods:
            return self.a.methods[key]
        if key in self.syms:
            return self.syms[key]
        if key in METHODS2:
            return METHODS2[key]
        return None

    # ---------------------------------------------------------------- static analysis of a node
    def is_blocklike(self, e):
        return e[0] in ("if", "iflet", "match", "block")

    def diverges_call(self, e):
        """`panic_xxx()` — a call of a function that never returns"""
        if e[0] == "call" and e[1][0] == "path":
            name = e[1][1][-1]
            spec = self.a.funcs.get(name)
            return spec is not None and spec[0] == "PANIC"
        return False

    def panicking_name(self, name):
        """is there a generated function of this name whose result is `Except Panic _`"""
        for (recv, n), sym in self.syms.items():
            if isinstance(sym, GenSym) and sym.panics and (n == name or n.endswith("::" + name)):
                return True
        return False

    def hoist(self, e):
        """pull calls of panicking functions and effectful block expressions out of operand positions:
        returns (let-statements to run first, rewritten expression)"""
        pre = []

        def fresh(node):
            self.ntmp += 1
            n = "hv_%d" % self.ntmp
            pre.append(("let", ("pvar", n), node, None))
            return ("path", [n], [])

        def operand(x):
            # x sits in an operand position
            if self.is_blocklike(x):
                rets, asg = self.effects(x)
                if rets or asg:
                    return fresh(x)
                return x
            y = inner(x)
            if y[0] == "call" and y[1][0] == "path" and self.panicking_name(y[1][1][-1]):
                return fresh(y)
            if y[0] == "mcall" and self.panicking_name(y[2]):
                return fresh(y)
            return y

        def inner(x):
            k = x[0]
            if k == "call":
                return ("call", x[1], [a if a[0] == "refmut" else operand(a) for a in x[2]])
            if k == "mcall":
                return ("mcall", operand(x[1]), x[2], [operand(a) for a in x[3]])
            if k == "bin":
                if x[1] in ("&&", "||"):
                    return ("bin", x[1], operand(x[2]), x[3])      # the right operand is lazy
                return ("bin", x[1], operand(x[2]), operand(x[3]))
            if k == "un":
                return ("un", x[1], operand(x[2]))
            if k == "cast":
                return ("cast", operand(x[1]), x[2])
            if k == "field":
                return ("field", operand(x[1]), x[2])
            if k == "tuple":
                return ("tuple", [operand(a) for a in x[1]])
            if k == "struct":
                return ("struct", x[1], [(f, operand(fe)) for f, fe in x[2]], x[3])
            return x

        if self.is_blocklike(e):
            return [], e
        return pre, inner(e) if True else e

    def stmt_nodes(self, b):
        return b[1], b[2]

    def effects(self, e, declared=None):
        """(may leave the function early, ordered list of outer variables assigned) inside node e"""
        rets = [False]
        assigned = []

        def root(pl):
            while pl[0] == "field":
                pl = pl[1]
            return pl[1][0]

        def walk_block(b, decl):
            decl = set(decl)
            stmts, tail = b[1], b[2]
            for s in stmts:
                k = s[0]
                if k == "let":
                    walk(s[2], decl)
                    for n in self.pat_names(s[1]):
                        decl.add(n)
                elif k == "letdecl":
                    decl.add(s[1])
                elif k == "return":
                    rets[0] = True
                    walk(s[1], decl)
                elif k in ("assignp", "assignop"):
                    r = root(s[1] if k == "assignp" else s[2])
                    if r not in decl and r not in assigned:
                        assigned.append(r)
                    walk(s[2] if k == "assignp" else s[3], decl)
                elif k == "expr":
                    walk(s[1], decl)
            if tail is not None:
                walk(tail, decl)

        def walk(x, decl):
            k = x[0]
            if k == "block":
                walk_block(x, decl)
            elif k == "if":
                walk(x[1], decl); walk(x[2], decl)
                if x[3] is not None:
                    walk(x[3], decl)
            elif k == "iflet":
                walk(x[2], decl)
                d2 = set(decl) | set(self.pat_names(x[1]))
                walk(x[3], d2)
                if x[4] is not None:
                    walk(x[4], decl)
            elif k == "match":
                walk(x[1], decl)
                for pat, body in x[2]:
                    walk(body, set(decl) | set(self.pat_names(pat)))
            elif k == "ret":
                rets[0] = True
                walk(x[1], decl)
            elif k == "call":
                if self.diverges_call(x) or (x[1][0] == "path" and self.panicking_name(x[1][1][-1])):
                    rets[0] = True
                if x[1][0] == "path" and x[1][1][-1] in self.a.inplace:
                    for a in x[2]:
                        if a[0] == "refmut":
                            r = root(a[1])
                            if r not in decl and r not in assigned:
                                assigned.append(r)
                for a in x[2]:
                    walk(a, decl)
            elif k == "mcall":
                if self.panicking_name(x[2]):
                    rets[0] = True
                walk(x[1], decl)
                for a in x[3]:
                    walk(a, decl)
            elif k in ("un", "refmut", "cast", "field"):
                walk(x[1] if k != "un" else x[2], decl)
            elif k == "bin":
                walk(x[2], decl); walk(x[3], decl)
            elif k == "tuple":
                for a in x[1]:
                    walk(a, decl)
            elif k == "struct":
                for _, fe in x[2]:
                    walk(fe, decl)
            elif k == "closure":
                walk(x[2], decl)

        walk(e, declared or set())
        return rets[0], assigned

    def pat_names(self, p):
        k = p[0]
        if k == "pvar":
            return [p[1]]
        if k in ("ptuple",):
            return [n for x in p[1] for n in self.pat_names(x)]
        if k == "pctor":
            return [n for x in p[2] for n in self.pat_names(x)]
        if k == "por":
            return [n for x in p[1] for n in self.pat_names(x)]
        return []

    def exits(self, e):
        """number of textual places where control falls out of the end of node e"""
        k = e[0]
        if k == "block":
            n = 1
            for s in e[1]:
                if s[0] == "return":
                    return 0
                if s[0] == "expr":
                    n *= self.exits(s[1])
                elif s[0] == "let" and self.is_blocklike(s[2]):
                    n *= max(self.exits(s[2]), 0)
                if n == 0:
                    return 0
            if e[2] is not None:
                n *= self.exits(e[2])
            return n
        if k == "if":
            return self.exits(e[2]) + (self.exits(e[3]) if e[3] is not None else 1)
        if k == "iflet":
            return self.exits(e[3]) + (self.exits(e[4]) if e[4] is not None else 1)
        if k == "match":
            return sum(self.exits(b) for _, b in e[2])
        if self.diverges_call(e) or k == "ret":
            return 0
        return 1

    def declared_in(self, e):
        out = set()

        def walk(x):
            if not isinstance(x, tuple):
                return
            if x and x[0] == "let":
                out.update(self.pat_names(x[1]))
            if x and x[0] == "letdecl":
                out.add(x[1])
            if x and x[0] == "iflet":
                out.update(self.pat_names(x[1]))
            if x and x[0] == "match":
                for pat, _ in x[2]:
                    out.update(self.pat_names(pat))
            for y in x:
                if isinstance(y, tuple):
                    walk(y)
                elif isinstance(y, list):
                    for z in y:
                        if isinstance(z, tuple):
                            walk(z)
        walk(e)
        return out

    # ---------------------------------------------------------------- patterns
    def pat(self, p, ty, env):
        """Lean match pattern for p against a value of type ty; binds names in env"""
        k = p[0]
        if k == "pwild":
            return "_"
        if k == "pvar":
            env[p[1]] = ty
            return ident(p[1])
        if k == "plit":
            if p[1] in ("true", "false"):
                if ty != "Bool":
                    self.err("boolean pattern against %r" % (ty,))
                return p[1]
            if ty != "Int":
                self.err("integer pattern against %r" % (ty,))
            return re.sub(r"(?<=\d)(?:[iu](?:8|16|32|64|128|size))$", "", p[1].replace("_", ""))
        if k == "pctor":
            name = p[1][-1]
            if name == "Some":
                if not (isinstance(ty, tuple) and ty[0] == "option") or len(p[2]) != 1:
                    self.err("`Some` pattern against %r" % (ty,))
                return "(some %s)" % self.pat(p[2][0], ty[1], env)
            if name == "None":
                if not (isinstance(ty, tuple) and ty[0] == "option"):
                    self.err("`None` pattern against %r" % (ty,))
                return "none"
            if name in ("Exact", "Inexact") and isinstance(ty, tuple) and ty[0] == "approx":
                if name == "Exact" and len(p[2]) == 1:
                    return "(GluePrelude.Approx.Exact %s)" % self.pat(p[2][0], ty[1], env)
                if name == "Inexact" and len(p[2]) == 2:
                    return "(GluePrelude.Approx.Inexact %s %s)" % (self.pat(p[2][0], ty[1], env), self.pat(p[2][1], "Rounding", env))
            if name in CT2 and not p[2]:
                if CT2[name][1] != ty:
                    self.err("pattern %s against a value of type %r" % (name, ty))
                return PAT_CT[name]
            self.err("unknown constructor pattern %s" % "::".join(p[1]))
        if k == "ptuple":
            if not (isinstance(ty, tuple) and ty[0] == "tuple" and len(ty[1]) == len(p[1])):
                self.err("tuple pattern against %r" % (ty,))
            return "(" + ", ".join(self.pat(x, t, env) for x, t in zip(p[1], ty[1])) + ")"
        self.err("pattern kind %s" % k)

    CTOR_ORDER = {"Positive": 0, "Negative": 1, "Less": 0, "Equal": 1, "Greater": 2, "true": 0, "false": 1,
                  "NoOp": 0, "AddOne": 1, "SubOne": 2, "None": 0, "Some": 1}

    def closed_pat(self, p):
        if p[0] == "plit":
            return True
        if p[0] == "pctor":
            return all(self.closed_pat(x) for x in p[2])
        if p[0] == "ptuple":
            return all(self.closed_pat(x) for x in p[1])
        return False

    def pat_key(self, p):
        if p[0] == "plit":
            return (self.CTOR_ORDER.get(p[1], 50), p[1])
        if p[0] == "pctor":
            return (self.CTOR_ORDER.get(p[1][-1], 50), p[1][-1], tuple(self.pat_key(x) for x in p[2]))
        if p[0] == "ptuple":
            return tuple(self.pat_key(x) for x in p[1])
        return (99,)

    def bind(self, p, v, ty, env, pad):
        """`let`-lines binding pattern p to the value v (a Lean term) of type ty"""
        k = p[0]
        if k == "pvar":
            env[p[1]] = ty
            return "let %s := %s;\n%s" % (ident(p[1]), v, pad)
        if k == "pwild":
            return ""
        if k == "ptuple":
            if not (isinstance(ty, tuple) and ty[0] == "tuple" and len(ty[1]) == len(p[1])):
                self.err("tuple pattern against a value of type %r" % (ty,))
            out = ""
            if not re.fullmatch(r"[A-Za-z_][A-Za-z0-9_.']*", v):
                t = self.tmp()
                out += "let %s := %s;\n%s" % (t, v, pad)
                v = t
            n = len(p[1])
            for i, (x, t) in enumerate(zip(p[1], ty[1])):
                out += self.bind(x, proj(v, i, n), t, env, pad)
            return out
        self.err("`let` pattern kind %s" % k)

    # ---------------------------------------------------------------- expressions (no early exit inside)
    def lit(self, s):
        v = re.sub(r"(?<=\d)(?:[iu](?:8|16|32|64|128|size))$", "", s.replace("_", ""))
        if not re.fullmatch(r"\d+|0x[0-9a-fA-F]+", v):
            self.err("literal %s is not an integer" % s)
        return "(%s : Int)" % v

    def expr(self, x, env, ind=0):
        k = x[0]
        if k == "num":
            return self.lit(x[1]), "Int"
        if k == "unit":
            return "()", "Unit"
        if k == "path":
            p = x[1]
            if len(p) == 1:
                n = p[0]
                if n in ("true", "false"):
                    return n, "Bool"
                if n in env:
                    if env[n] is None or (isinstance(env[n], tuple) and env[n][0] == "uninit"):
                        self.err("variable %s is read before it is assigned" % n)
                    return ident(n), env[n]
                if n == "None":
                    return "none", ("option", "?")
                if n in CT2:
                    return CT2[n]
                if (n,) in self.a.consts:
                    v, t = self.a.consts[(n,)]
                    return self.k(v), t
                if ("const", n) in self.syms:
                    return self.syms[("const", n)]
                self.err("unknown name %s" % n)
            if p[0] == "Self" and self.self_ty in SELF_RUST:
                p = [SELF_RUST[self.self_ty]] + list(p[1:])
            key = tuple(p[-2:])
            if key in self.a.consts:
                return self.a.consts[key]
            if ("const", "::".join(key)) in self.syms:
                return self.syms[("const", "::".join(key))]
            if p[-1] in CT2 and p[-2] in ("Sign", "Ordering", "Rounding"):
                return CT2[p[-1]]
            self.err("path %s is not in the translator whitelist" % "::".join(p))
        if k == "tuple":
            items = [self.expr(i, env, ind) for i in x[1]]
            return "(" + ", ".join(i[0] for i in items) + ")", ("tuple", tuple(i[1] for i in items))
        if k == "refmut":
            self.err("`&mut` outside an in-place kernel call")
        if k == "cast":
            v, t = self.expr(x[1], env, ind)
            if x[2] in INT_TYPES:
                if t == "Int":
                    return v, "Int"
                if t == "Bool":
                    return "(GluePrelude.b2i %s)" % v, "Int"
                if t == "E":
                    return self.k("(k.e_to_int %s)" % v), "Int"
            self.err("cast of %r to %s not supported" % (t, x[2]))
        if k == "un":
            if x[1] == "!" and x[2][0] == "un" and x[2][1] == "!":
                return self.expr(x[2][2], env, ind)                       # !!c
            if x[1] == "!" and x[2][0] == "bin" and x[2][1] in NEG_CMP:
                l, r = self.expr(x[2][2], env, ind), self.expr(x[2][3], env, ind)
                if l[1] != "E":                                           # f32: !(a < b) is not (a >= b) (NaN)
                    return self.binop(NEG_CMP[x[2][1]], l, r)
            v, t = self.expr(x[2], env, ind)
            if x[1] == "!" and t == "Bool":
                return "(!%s)" % v, "Bool"
            if x[1] == "-" and t == "Int":
                return "(GluePrelude.neg_ %s)" % v, "Int"
            if x[1] == "-" and t == "Sign":
                return "(GluePrelude.neg_ %s)" % v, "Sign"
            m = self.lookup_method(t, "neg") if x[1] == "-" else None
            if isinstance(m, GenSym) and not m.panics:
                return self.gen_call(m, [] if not m.cgen else None, [(v, t)], "neg"), m.ret
            if m:
                return self.apply(m, [v], "neg")
            self.err("unary %s on %r" % (x[1], t))
        if k == "bin":
            return self.binop(x[1], self.expr(x[2], env, ind), self.expr(x[3], env, ind))
        if k == "field":
            v, t = self.expr(x[1], env, ind)
            if isinstance(t, str) and t in STRUCTS:
                for f, ft in STRUCTS[t]:
                    if f == x[2]:
                        return "%s.%s" % (v, f), ft
                if x[2] == "0" and t == "QRepr":     # RBig(Repr) / Relaxed(Repr) newtype
                    return v, t
                self.err("struct %s has no field %s" % (t, x[2]))
            if isinstance(t, tuple) and t[0] == "tuple" and x[2].isdigit() and int(x[2]) < len(t[1]):
                if not re.fullmatch(r"[A-Za-z_][A-Za-z0-9_.']*", v):
                    v = "(%s)" % v
                return proj(v, int(x[2]), len(t[1])), t[1][int(x[2])]
            self.err("field .%s of a value of type %r" % (x[2], t))
        if k == "mcall":
            return self.mcall(x, env, ind)
        if k == "call":
            return self.call(x, env, ind)
        if k == "struct":
            name = x[1][-1]
            t = self.self_ty if name == "Self" else self.a.tmap.get(name)
            if t not in STRUCTS or x[3] is not None:
                self.err("struct literal %s not supported" % name)
            given = dict(x[2])
            vals = []
            for f, ft in STRUCTS[t]:
                if f not in given:
                    self.err("struct literal %s lacks field %s" % (name, f))
                v, vt = self.expr(given.pop(f), env, ind)
                self.same(vt, ft, "field %s" % f)
                vals.append("%s := %s" % (f, v))
            given.pop("_marker", None)
            if given:
                self.err("struct literal %s has unknown fields %s" % (name, sorted(given)))
            return "({ %s } : %s)" % (", ".join(vals), ty_lean(t)), t
        if self.is_blocklike(x):
            rets, asg = self.effects(x)
            asg = [a for a in asg if a in env]
            if rets or asg:
                self.err("early exit or assignment inside an expression that is used as an operand")
            c = Ctx(lambda v, t, e2, i2: v, None, "pure")
            c.normal = self.recording(c, lambda v, t, e2, i2: v)
            s = self.blocklike(x, dict(env), c, ind + 1)
            return "(%s)" % s, self.vtype(c)
        if k == "macro":
            self.err("macro %s! is outside the decision-logic subset" % x[1])
        if k == "closure":
            self.err("closure outside a whitelisted combinator")
        self.err("expression kind %s" % k)

    def recording(self, c, f):
        def g(v, t, env, ind):
            c.vtypes.append(t)
            return f(v, t, env, ind)
        return g

    def vtype(self, c):
        ts = [t for t in c.vtypes if t is not None and t != ("option", "?")]
        if not ts:
            if c.vtypes:
                return c.vtypes[0]
            return None
        for t in ts[1:]:
            self.same(t, ts[0], "branches of a block expression")
        return ts[0]

    def same(self, a, b, what):
        if a == b:
            return
        if isinstance(a, tuple) and isinstance(b, tuple) and a[0] == b[0] == "option" and "?" in (a[1], b[1]):
            return
        self.err("type mismatch in %s: %r vs %r" % (what, a, b))

    def binop(self, op, l, r):
        # canonical text: `a > b` is written `b < a`, `a >= b` is `b <= a`; the operands of a commutative
        # operator on integers (`+`, `*`, `==`, `!=`) are put in a fixed order, so that a behaviour-preserving
        # rewrite of the source (commuted operands, flipped comparison) regenerates the same definition
        if op in (">", ">="):
            op, l, r = {">": "<", ">=": "<="}[op], r, l
        if op in ("+", "*") and l[1] == r[1] == "Int":
            items = sorted(self.ac_items(op, l[0]) + self.ac_items(op, r[0]))
            acc = items[0]
            for it in items[1:]:
                acc = "(GluePrelude.%s %s %s)" % (BINOPS[op], acc, it)
            return acc, "Int"
        if op in ("==", "!=") and l[1] == r[1]:
            key = lambda x: (bool(re.fullmatch(r"\(-?\d+ : Int\)|true|false|[A-Z][A-Za-z]*\.[A-Za-z.]+", x[0])), x[0])
            if key(r) < key(l):                 # constants go last: `x == 0`, never `0 == x`
                l, r = r, l
        (a, ta), (b, tb) = l, r
        if op in ("&&", "||"):
            if ta == tb == "Bool":
                return "(%s %s %s)" % (a, op, b), "Bool"
            self.err("%s on %r, %r" % (op, ta, tb))
        if op == "^" and ta == tb == "Bool":
            return "(GluePrelude.bxor %s %s)" % (a, b), "Bool"
        if op in ("+", "-", "*", "/", "%"):
            if ta == tb == "Int":
                return "(GluePrelude.%s %s %s)" % (BINOPS[op], a, b), "Int"
            if op == "*":
                if (ta, tb) == ("Sign", "Ordering"):
                    return "(GluePrelude.sign_mul_ord %s %s)" % (a, b), "Ordering"
                if (ta, tb) == ("Sign", "Int"):
                    return "(GluePrelude.sign_mul_int %s %s)" % (a, b), "Int"
                if (ta, tb) == ("Int", "Sign"):
                    return "(GluePrelude.int_mul_sign %s %s)" % (a, b), "Int"
                if (ta, tb) == ("Sign", "Sign"):
                    return "(GluePrelude.mul_ %s %s)" % (a, b), "Sign"
                if (ta, tb) == ("E", "E"):
                    return self.k("(k.e_mul %s %s)" % (a, b)), "E"
            if op == "/" and (ta, tb) == ("E", "E"):
                return self.k("(k.e_div %s %s)" % (a, b)), "E"
            if op == "+" and (ta, tb) == ("Int", "Rounding"):
                return "(GluePrelude.int_add_rounding %s %s)" % (a, b), "Int"
            self.err("operator %s on %r, %r" % (op, ta, tb))
        if op in ("<<", ">>") and ta == tb == "Int":
            return "(GluePrelude.%s %s %s)" % ("shl_" if op == "<<" else "shr_", a, b), "Int"
        if op in ("==", "!=", "<", "<=", ">", ">="):
            if ta != tb and not (isinstance(ta, tuple) and isinstance(tb, tuple) and ta[0] == tb[0] == "option"):
                self.err("comparison %s between %r and %r" % (op, ta, tb))
            if ta == "E":
                if op not in ("<", ">"):
                    self.err("comparison %s on f32 estimates is not in the translator whitelist (only < and >)" % op)
                return self.k("(k.e_%s %s %s)" % (BINOPS[op].rstrip("_"), a, b)), "Bool"
            if op in ("==", "!="):
                if isinstance(ta, str) and ta in ("Int", "Bool", "Sign", "Ordering", "Rounding", "FRepr", "QRepr"):
                    return "(GluePrelude.%s %s %s)" % (BINOPS[op], a, b), "Bool"
                self.err("equality on %r" % (ta,))
            if ta in ("Int", "Sign"):
                return "(GluePrelude.%s %s %s)" % (BINOPS[op], a, b), "Bool"
            cmpsym = self.syms.get((ta, "cmp")) if isinstance(ta, str) else None
            if isinstance(cmpsym, GenSym) and not cmpsym.panics:       # PartialOrd through the regenerated `Ord::cmp`
                c = self.gen_call(cmpsym, [] if not cmpsym.cgen else None, [(a, ta), (b, tb)], "cmp")
                return "(GluePrelude.%s %s)" % ({"<": "is_lt", "<=": "is_le"}[op], c), "Bool"
            self.err("ordering comparison on %r" % (ta,))
        self.err("operator %s not supported" % op)

    def ac_items(self, op, text):
        """operands of the (already canonical) chain `text` of the associative-commutative operator op"""
        head = "(GluePrelude.%s " % BINOPS[op]
        if not (text.startswith(head) and text.endswith(")")):
            return [text]
        body = text[len(head):-1]
        # split the two arguments at depth 0
        depth, i = 0, 0
        while i < len(body):
            c = body[i]
            if c == "(":
                depth += 1
            elif c == ")":
                depth -= 1
            elif c == " " and depth == 0:
                break
            i += 1
        if i >= len(body):
            return [text]
        return self.ac_items(op, body[:i]) + [body[i + 1:]]

    def apply(self, spec, args, name):
        """spec = (template, result type) or GenSym"""
        if isinstance(spec, GenSym):
            self.err("internal: GenSym applied through apply()")
        tpl, rt = spec[0], spec[1]
        need = len(set(re.findall(r"\{(\d+)(?::[^}]*)?\}", tpl)))
        if need != len(args):
            self.err("%s takes %d operand(s) in the whitelist, the source passes %d" % (name, need, len(args)))
        return self.k(tpl.format(*args)), rt

    def gen_call(self, sym, cgen_args, args, name):
        """call of another generated definition (pure ones only here)"""
        if len(args) != len(sym.params):
            self.err("%s: %d arguments for %d parameters" % (name, len(args), len(sym.params)))
        for (v, t), (pn, pt) in zip(args, sym.params):
            self.same(t, pt, "argument %s of %s" % (pn, name))
        lead = []
        if sym.uses_k:
            self.uses_k = True
            # a callee generated for another (parent) kernel record gets the projection the area names (C03, additive)
            sk = getattr(sym, "kernel", None)
            lead.append("k" if sk in (None, self.a.kernel) else getattr(self.a, "kcoerce", {}).get(sk, "k"))
        if sym.cgen:
            if cgen_args is None or len(cgen_args) != len(sym.cgen):
                self.err("%s needs explicit const-generic arguments %s" % (name, [c[0] for c in sym.cgen]))
            lead += cgen_args
        return "(%s)" % " ".join([sym.lean] + lead + [a[0] for a in args])

    def cgen_args(self, gens, sym, env):
        """turbofish arguments → values for the callee's const generics (`B` is implicit in the kernel)"""
        vals = [g for g in gens if g not in ("B", "R")]      # `R`: the rounding-mode type parameter (part of the kernel record)
        out = []
        for g in vals:
            if g in ("true", "false"):
                out.append(g)
            elif g in env and env[g] == "Bool":
                out.append(ident(g))
            else:
                self.err("const-generic argument %s not supported" % g)
        return out

    def mcall(self, x, env, ind):
        recv, name, args = x[1], x[2], x[3]
        # `approx.map(|v| …)` / `.value()`
        rv, rt = self.expr(recv, env, ind)
        if isinstance(rt, tuple) and rt[0] == "approx":
            if name == "value" and not args:
                return "(GluePrelude.Approx.value %s)" % rv, rt[1]
            if name == "map" and len(args) == 1 and args[0][0] == "closure" and len(args[0][1]) == 1:
                e2 = dict(env)
                e2[args[0][1][0]] = rt[1]
                bv, bt = self.expr(args[0][2], e2, ind)
                return "(GluePrelude.Approx.map (fun %s => %s) %s)" % (ident(args[0][1][0]), bv, rv), ("approx", bt)
            self.err("method .%s() on an Approximation is not in the whitelist" % name)
        spec = self.lookup_method(rt, name)
        if spec is None:
            self.err("method .%s() on a value of type %r is not in the translator whitelist" % (name, rt))
        avs = [self.expr(a, env, ind) for a in args]
        if isinstance(spec, GenSym):
            if spec.panics:
                self.err("call of the panicking function %s inside an expression" % name)
            return self.gen_call(spec, [] if not spec.cgen else None, [(rv, rt)] + avs, name), spec.ret
        return self.apply(spec, [rv] + [a[0] for a in avs], "." + name + "()")

    def call(self, x, env, ind):
        f, args = x[1], x[2]
        if f[0] != "path":
            self.err("call of a computed function")
        p = f[1]
        if p[0] == "Self" and self.self_ty in SELF_RUST:
            p = [SELF_RUST[self.self_ty]] + list(p[1:])
        gens = f[2] if len(f) > 2 else []
        name = p[-1]
        # constructors
        if name == "Some" and len(args) == 1:
            v, t = self.expr(args[0], env, ind)
            return "(some %s)" % v, ("option", t)
        if name in ("Exact", "Inexact") and (len(p) == 1 or p[-2] in ("Rounded", "Approximation")):
            avs = [self.expr(a, env, ind) for a in args]
            if name == "Exact" and len(avs) == 1:
                return "(GluePrelude.Approx.Exact %s)" % avs[0][0], ("approx", avs[0][1])
            if name == "Inexact" and len(avs) == 2:
                self.same(avs[1][1], "Rounding", "Inexact flag")
                return "(GluePrelude.Approx.Inexact %s %s)" % (avs[0][0], avs[1][0]), ("approx", avs[0][1])
            self.err("constructor %s with %d arguments" % (name, len(avs)))
        if name in ("UBig", "IBig") and len(p) == 1 and len(args) == 1:
            v, t = self.expr(args[0], env, ind)
            self.same(t, "Int", name + "(…)")
            return v, "Int"
        if name in ("RBig", "Relaxed") and len(p) == 1 and len(args) == 1:
            v, t = self.expr(args[0], env, ind)
            self.same(t, "QRepr", name + "(…)")
            return v, "QRepr"
        key2 = "::".join(p[-2:]) if len(p) >= 2 else None
        spec = None
        for key in (key2, name):
            if key is None:
                continue
            if key in self.a.funcs:
                spec = self.a.funcs[key]; break
            if (None, key) in self.syms:
                spec = self.syms[(None, key)]; break
        if spec is None:
            self.err("call of %s is not in the translator whitelist" % "::".join(p))
        if not isinstance(spec, GenSym) and spec[0] == "PANIC":
            self.err("diverging call %s() used as a value" % name)
        avs = [self.expr(a, env, ind) for a in args]
        if isinstance(spec, GenSym):
            if spec.panics:
                self.err("call of the panicking function %s inside an expression" % name)
            return self.gen_call(spec, self.cgen_args(gens, spec, env), avs, name), spec.ret
        tpl_types = spec[2] if len(spec) > 2 else None
        if tpl_types is not None:
            if len(tpl_types) != len(avs):
                self.err("%s: %d arguments, whitelist says %d" % (name, len(avs), len(tpl_types)))
            for (v, t), pt in zip(avs, tpl_types):
                self.same(t, pt, "argument of %s" % name)
        return self.apply(spec, [a[0] for a in avs], name)

    # ---------------------------------------------------------------- statements
    def pack(self, v, vt, M, env):
        for m in M:
            if m not in env or env[m] is None or (isinstance(env[m], tuple) and env[m][0] == "uninit"):
                self.err("variable %s is not assigned on every path" % m)
        items = ([] if vt == "Unit" or v is None else [v]) + [ident(m) for m in M]
        if not items:
            return "()"
        return items[0] if len(items) == 1 else "(" + ", ".join(items) + ")"

    def pack_ty(self, vt, M, env):
        def clean(t):
            return t[1] if isinstance(t, tuple) and t[0] == "uninit" else t
        items = ([] if vt in ("Unit", None) else [vt]) + [clean(env[m]) for m in M]
        if not items:
            return "Unit"
        return items[0] if len(items) == 1 else ("tuple", tuple(items))

    def update(self, place, newv, env, ind):
        """(root variable, Lean term of its new value) after `place := newv`"""
        if place[0] == "path":
            return place[1][0], newv
        base = place[1]
        bv, bt = self.place_expr(base, env, ind)
        f = place[2]
        if isinstance(bt, str) and bt in STRUCTS:
            if f not in [n for n, _ in STRUCTS[bt]]:
                self.err("struct %s has no field %s" % (bt, f))
            return self.update(base, "{ %s with %s := %s }" % (bv, f, newv), env, ind)
        if isinstance(bt, tuple) and bt[0] == "tuple" and f.isdigit():
            n = len(bt[1])
            items = [newv if i == int(f) else proj(bv, i, n) for i in range(n)]
            return self.update(base, "(" + ", ".join(items) + ")", env, ind)
        self.err("assignment to field .%s of a value of type %r" % (f, bt))

    def place_expr(self, place, env, ind):
        if place[0] == "path":
            n = place[1][0]
            t = env.get(n)
            if isinstance(t, tuple) and t[0] == "uninit":
                self.err("field of %s assigned before the variable is initialised" % n)
        return self.expr(place, env, ind)

    def place_type(self, place, env):
        if place[0] == "path":
            t = env.get(place[1][0])
            if t is None:
                self.err("assignment to unknown variable %s" % place[1][0])
            return t[1] if isinstance(t, tuple) and t[0] == "uninit" else t
        bt = self.place_type(place[1], env)
        f = place[2]
        if isinstance(bt, str) and bt in STRUCTS:
            for n, ft in STRUCTS[bt]:
                if n == f:
                    return ft
        if isinstance(bt, tuple) and bt[0] == "tuple" and f.isdigit() and int(f) < len(bt[1]):
            return bt[1][int(f)]
        self.err("assignment to field .%s of a value of type %r" % (f, bt))

    def seq(self, stmts, tail, env, ctx, ind):
        pad = "  " * ind
        if not stmts:
            if tail is None:
                return ctx.normal(None, "Unit", env, ind)
            if self.diverges_call(tail):
                return ctx.final(self.panic_of(tail))
            if tail[0] == "ret":
                return self.seq([("return", tail[1])], None, env, ctx, ind)
            if self.guard_mode and ctx.kind == "fn" and not self.is_blocklike(tail):
                rets, _ = self.effects(tail)
                if rets:
                    self.err("the final expression can panic: not supported in a guard prologue")
                return ctx.final("(Except.ok GluePrelude.Flow.returns)")
            pre, tail2 = self.hoist(tail)
            if pre:
                return self.seq(pre, tail2, env, ctx, ind)
            if (tail[0] == "call" and tail[1][0] == "path" and self.panicking_name(tail[1][1][-1])) or \
                    (tail[0] == "mcall" and self.panicking_name(tail[2])):
                self.ntmp += 1
                n = "hv_%d" % self.ntmp
                b = self.try_bind_call(tail, ("pvar", n), [], ("path", [n], []), env, ctx, ind)
                if b is not None:
                    return b
            if self.is_blocklike(tail):
                rets, asg = self.effects(tail)
                asg = [a for a in asg if a in env]
                if rets or asg:
                    return self.blocklike(tail, env, ctx, ind)
            v, t = self.expr(tail, env, ind)
            return ctx.normal(v, t, env, ind)
        s, rest = stmts[0], stmts[1:]
        k = s[0]
        if k in ("let", "return", "expr", "assignp", "assignop") and not getattr(self, "_hoisted", None) == id(s):
            idx = {"let": 2, "return": 1, "expr": 1, "assignp": 2, "assignop": 3}[k]
            pre, e2 = self.hoist(s[idx])
            if pre:
                s2 = list(s)
                s2[idx] = e2
                return self.seq(pre + [tuple(s2)] + rest, tail, env, ctx, ind)
        if k == "letdecl":
            ty = rust_type(s[2], self.a.tmap) if s[2] else None
            if ty is None:
                # `let x;` that is assigned exactly once, inside a nested block, only to extend a borrow
                # (`x = …; &x`): the assignment becomes a `let` of that block; any read outside the block then
                # fails closed as an unknown name (C03, additive: this case used to be rejected)
                rest2, tail2, n = localise_decl(s[1], rest, tail)
                if n == 1:
                    return self.seq(rest2, tail2, env, ctx, ind)
                self.err("`let %s;` without a type" % s[1])
            env[s[1]] = ("uninit", ty)
            return self.seq(rest, tail, env, ctx, ind)
        if k == "return":
            if self.guard_mode:
                rets, _ = self.effects(s[1]) if s[1][0] != "unit" else (False, [])
                if rets:
                    self.err("a returned value that can itself panic is not supported in a guard prologue")
                return ctx.final("(Except.ok GluePrelude.Flow.returns)")
            if self.is_blocklike(s[1]):
                rets, asg = self.effects(s[1])
                if rets:
                    self.err("`return` inside the operand of a `return`")
            if s[1][0] == "unit":
                return ctx.final(self.wrap_ok("()"))
            v, t = self.expr(s[1], env, ind)
            self.same(t, self.ret_ty, "returned value")
            return ctx.final(self.wrap_ok(v))
        if k in ("assignp", "assignop"):
            place = s[1] if k == "assignp" else s[2]
            rhs = s[2] if k == "assignp" else s[3]
            pt = self.place_type(place, env)
            rv, rt = self.expr(rhs, env, ind)
            if k == "assignop":
                cur = self.place_expr(place, env, ind)
                rv, rt = self.binop(s[1], cur, (rv, rt))
            self.same(rt, pt, "assignment")
            root, nv = self.update(place, rv, env, ind)
            if isinstance(env.get(root), tuple) and env[root][0] == "uninit":
                env[root] = env[root][1]
            return "let %s := %s;\n%s%s" % (ident(root), nv, pad, self.seq(rest, tail, env, ctx, ind))
        if k == "let":
            pat, e = s[1], s[2]
            if self.is_blocklike(e):
                rets, asg = self.effects(e)
                asg = [a for a in asg if a in env]
                if rets or asg:
                    return self.consume(e, pat, rest, tail, env, ctx, ind)
            bound = self.try_bind_call(e, pat, rest, tail, env, ctx, ind)
            if bound is not None:
                return bound
            if pat[0] == "ptuple" and e[0] == "tuple" and len(pat[1]) == len(e[1]):
                vals = [self.expr(i, env, ind) for i in e[1]]        # evaluated before any is bound
                out = ""
                names = set(self.pat_names(pat))
                if any(re.search(r"(?<![A-Za-z0-9_.])%s(?![A-Za-z0-9_])" % re.escape(ident(n)), v) for v, _ in vals for n in names):
                    tv, tt = self.expr(e, env, ind)
                    return self.bind(pat, tv, tt, env, pad) + self.seq(rest, tail, env, ctx, ind)
                for p1, (v, t) in zip(pat[1], vals):
                    out += self.bind(p1, v, t, env, pad)
                return out + self.seq(rest, tail, env, ctx, ind)
            v, t = self.expr(e, env, ind + 1)
            if s[3]:
                self.same(rust_type(s[3], self.a.tmap), t, "annotated `let`")
            return self.bind(pat, v, t, env, pad) + self.seq(rest, tail, env, ctx, ind)
        if k == "expr":
            e = s[1]
            if self.diverges_call(e):
                return ctx.final(self.panic_of(e))
            if e[0] == "call" and e[1][0] == "path" and e[1][1][-1] in self.a.inplace:
                target = self.a.inplace[e[1][1][-1]]
                if not e[2] or e[2][0][0] != "refmut":
                    self.err("%s: first argument must be `&mut place`" % e[1][1][-1])
                place = e[2][0][1]
                cur = self.place_expr(place, env, ind)
                avs = [cur] + [self.expr(a, env, ind) for a in e[2][1:]]
                nv, nt = self.apply(self.a.funcs[target], [a[0] for a in avs], target)
                self.same(nt, self.place_type(place, env), "in-place kernel")
                root, term = self.update(place, nv, env, ind)
                return "let %s := %s;\n%s%s" % (ident(root), term, pad, self.seq(rest, tail, env, ctx, ind))
            bound = self.try_bind_call(e, None, rest, tail, env, ctx, ind)
            if bound is not None:
                return bound
            if self.is_blocklike(e):
                rets, asg = self.effects(e)
                asg = [a for a in asg if a in env]
                if not rets and not asg:
                    self.err("statement without effect")
                n = self.exits(e)
                if n == 0:
                    return self.blocklike(e, env, ctx, ind)
                if n == 1 and not (self.declared_in(e) & set(env)):
                    c2 = Ctx(lambda v, t, e2, i2: self.seq(rest, tail, e2, ctx, i2), ctx.final, "cont")
                    return self.blocklike(e, env, c2, ind)
                return self.consume(e, None, rest, tail, env, ctx, ind)
            self.err("expression statement that is neither an assignment nor a guard")
        self.err("statement kind %s" % k)

    def panic_of(self, e):
        name = e[1][1][-1]
        if not self.panic_mode:
            self.err("%s() reached in a function translated without a panic result" % name)
        return "(Except.error GluePrelude.Panic.%s)" % self.a.funcs[name][1]

    def try_bind_call(self, e, pat, rest, tail, env, ctx, ind):
        """`let p = f(…);` / `f(…);` where f is a generated function with a panic result"""
        pad = "  " * ind
        sym, args, gens, name = None, None, [], None
        if e[0] == "call" and e[1][0] == "path":
            p = e[1][1]
            name = p[-1]
            for key in (("::".join(p[-2:]) if len(p) >= 2 else None), name):
                if key and isinstance(self.syms.get((None, key)), GenSym):
                    sym = self.syms[(None, key)]
                    break
            if sym:
                args = [self.expr(a, env, ind) for a in e[2]]
                gens = e[1][2] if len(e[1]) > 2 else []
        elif e[0] == "mcall":
            # only a receiver without effects
            try:
                rv, rt = self.expr(e[1], env, ind)
            except ExtractError:
                return None
            cand = self.lookup_method(rt, e[2])
            if isinstance(cand, GenSym):
                sym, name = cand, e[2]
                args = [(rv, rt)] + [self.expr(a, env, ind) for a in e[3]]
        if sym is None or not sym.panics:
            return None
        if not self.panic_mode:
            self.err("call of the panicking function %s in a function translated without a panic result" % name)
        call = self.gen_call(sym, self.cgen_args(gens, sym, env) if sym.cgen else [], args, name)
        t = self.tmp()
        e2 = dict(env)
        binds = self.bind(pat, t, sym.ret, e2, pad + "    ") if pat is not None else ""
        body = self.seq(rest, tail, e2, ctx, ind + 2)
        return "(match %s with\n%s  | Except.error e_ => %s\n%s  | Except.ok %s =>\n%s    %s%s)" % (
            call, pad, ctx.final("(Except.error e_)"), pad, t if pat is not None else "_", pad, binds, body)

    def consume(self, e, pat, rest, tail, env, ctx, ind):
        """block-like e with several normal exits and/or assignments: evaluate it to
        (value, new state) — inside a Sum when it can leave the function — then continue"""
        pad = "  " * ind
        rets, asg = self.effects(e)
        M = [a for a in asg if a in env]
        t = self.tmp()
        envs = []

        def normal(v, vt, e2, i2):
            envs.append(e2)
            s = self.pack(v, vt, M, e2)
            return "(Sum.inl %s)" % s if rets else s
        inner = Ctx(None, (lambda s: "(Sum.inr %s)" % s) if rets else None, "sum" if rets else "pure")
        inner.normal = self.recording(inner, normal)
        if not rets:
            inner.final = lambda s: self.err("internal: final in a pure context")
        body = self.blocklike(e, dict(env), inner, ind + 2)
        vt = self.vtype(inner)
        if pat is None and vt not in (None, "Unit"):
            vt_eff = None       # value of a statement is discarded
            self.err("value of a statement-level block with several exits is discarded (type %r)" % (vt,))
        # after e: the assigned variables are initialised
        env2 = dict(env)
        for m in M:
            if isinstance(env2[m], tuple) and env2[m][0] == "uninit":
                env2[m] = env2[m][1]
        pty = self.pack_ty(vt, M, env2)
        n_items = (0 if vt in ("Unit", None) else 1) + len(M)
        binds = ""
        idx = 0
        if vt not in ("Unit", None):
            if pat is not None:
                binds += self.bind(pat, proj(t, 0, n_items), vt, env2, pad + ("    " if rets else ""))
            idx = 1
        for m in M:
            binds += "let %s := %s;\n%s" % (ident(m), proj(t, idx, n_items), pad + ("    " if rets else ""))
            idx += 1
        if rets:
            after = self.seq(rest, tail, env2, ctx, ind + 2)
            return "(match (%s : Sum %s %s) with\n%s  | Sum.inr r_ => %s\n%s  | Sum.inl %s =>\n%s    %s%s)" % (
                body, ty_lean(pty), ty_lean(self.final_ty()), pad, ctx.final("r_"), pad,
                t if n_items else "_", pad, binds, after)
        after = self.seq(rest, tail, env2, ctx, ind)
        return "let %s : %s := %s;\n%s%s%s" % (t, ty_lean(pty), body, pad, binds, after)

    def blocklike(self, e, env, ctx, ind):
        """translate if / if-let / match / block whose branches finish through ctx"""
        pad = "  " * ind
        k = e[0]
        if k == "block":
            return self.seq(list(e[1]), e[2], dict(env), ctx, ind)
        if k == "if":
            cond, swap = e[1], False
            # canonical polarity: `if !c { A } else { B }` is written `if c then B else A`
            # (a negated comparison is folded into the opposite comparison by expr())
            while cond[0] == "un" and cond[1] == "!" and not (cond[2][0] == "bin" and cond[2][1] in NEG_CMP):
                cond, swap = cond[2], not swap
            c, ct = self.expr(cond, env, ind)
            self.same(ct, "Bool", "condition")
            th = self.seq(list(e[2][1]), e[2][2], dict(env), ctx, ind + 1)
            if e[3] is None:
                el = ctx.normal(None, "Unit", dict(env), ind + 1)
            elif e[3][0] == "block":
                el = self.seq(list(e[3][1]), e[3][2], dict(env), ctx, ind + 1)
            else:
                el = self.blocklike(e[3], dict(env), ctx, ind + 1)
            if swap:
                th, el = el, th
            return "(if %s then\n%s  %s\n%selse\n%s  %s)" % (c, pad, th, pad, pad, el)
        if k == "iflet":
            v, vt = self.expr(e[2], env, ind)
            e2 = dict(env)
            p = self.pat(e[1], vt, e2)
            th = self.seq(list(e[3][1]), e[3][2], e2, ctx, ind + 2)
            if e[4] is None:
                el = ctx.normal(None, "Unit", dict(env), ind + 2)
            elif e[4][0] == "block":
                el = self.seq(list(e[4][1]), e[4][2], dict(env), ctx, ind + 2)
            else:
                el = self.blocklike(e[4], dict(env), ctx, ind + 2)
            return "(match %s with\n%s  | %s =>\n%s    %s\n%s  | _ =>\n%s    %s)" % (v, pad, p, pad, th, pad, pad, el)
        if k == "match":
            scr = e[1]
            # canonical form of a match on a boolean: an `if`
            if scr[0] != "tuple" and len(e[2]) == 2:
                pats = [p for p, _ in e[2]]
                lits = [p[1] if p[0] == "plit" else ("_" if p[0] == "pwild" else None) for p in pats]
                if lits[0] in ("true", "false") and lits[1] in ("true", "false", "_") and lits[0] != lits[1]:
                    a_true = e[2][0][1] if lits[0] == "true" else e[2][1][1]
                    a_false = e[2][1][1] if lits[0] == "true" else e[2][0][1]
                    blk = lambda b: b if b[0] == "block" else ("block", [], b)
                    return self.blocklike(("if", scr, blk(a_true), blk(a_false)), env, ctx, ind)
            if scr[0] == "tuple":
                svs = [self.expr(i, env, ind) for i in scr[1]]
            else:
                svs = [self.expr(scr, env, ind)]
            out = "(match " + ", ".join(v for v, _ in svs) + " with"
            arms = []
            for pat, body in e[2]:
                for a in (pat[1] if pat[0] == "por" else [pat]):
                    arms.append((a, body))
            # canonical order of the arms: closed patterns (constructors / literals only) are pairwise
            # disjoint, so the leading run of them is sorted; arms with `_` or bindings keep their place
            n_closed = 0
            while n_closed < len(arms) and self.closed_pat(arms[n_closed][0]):
                n_closed += 1
            arms = sorted(arms[:n_closed], key=lambda ab: self.pat_key(ab[0])) + arms[n_closed:]
            for a, body in arms:
                for a in [a]:
                    e2 = dict(env)
                    if len(svs) > 1:
                        if a[0] == "ptuple" and len(a[1]) == len(svs):
                            ps = ", ".join(self.pat(x, t, e2) for x, (_, t) in zip(a[1], svs))
                        elif a[0] == "pwild":
                            ps = ", ".join("_" for _ in svs)
                        else:
                            self.err("match arm pattern does not fit the tuple scrutinee")
                    else:
                        ps = self.pat(a, svs[0][1], e2)
                    if body[0] == "block":
                        b = self.seq(list(body[1]), body[2], e2, ctx, ind + 2)
                    else:
                        b = self.seq([], body, e2, ctx, ind + 2)
                    out += "\n%s  | %s =>\n%s    %s" % (pad, ps, pad, b)
            return out + ")"
        self.err("internal: blocklike(%s)" % k)


# ================================================================== v2: items, areas, generation

def line_of(src, pos):
    return src.count("\n", 0, pos) + 1


def fn_item(src, fn_name, after=None, rel="?"):
    """locate `fn fn_name` (after the first match of regex `after`): signature and body"""
    pos = 0
    if after:
        m = re.search(after, src)
        if not m:
            raise ExtractError("%s: anchor %r not found" % (rel, after))
        pos = m.end()
    m = re.compile(r"\bfn\s+%s\b" % re.escape(fn_name)).search(src, pos)
    if not m:
        raise ExtractError("%s: fn %s not found" % (rel, fn_name))
    q = m.end()
    while src[q].isspace():
        q += 1
    cgen = []
    if src[q] == "<":
        depth, q0 = 0, q
        while True:
            if src[q] == "<":
                depth += 1
            elif src[q] == ">" and src[q - 1] != "-":
                depth -= 1
                if depth == 0:
                    q += 1
                    break
            q += 1
        for part in split_top(src[q0 + 1:q - 1]):
            mm = re.match(r"\s*const\s+(\w+)\s*:\s*(\w+)", part)
            if mm:
                cgen.append((mm.group(1), mm.group(2)))
    p0 = src.index("(", q)
    p1 = balanced(src, p0, "(", ")")
    params_txt = src[p0 + 1:p1 - 1]
    b0 = src.index("{", p1)
    head = src[p1:b0]
    if ";" in head:
        raise ExtractError("%s: fn %s has no body here" % (rel, fn_name))
    mret = re.match(r"\s*->\s*(.+?)\s*(?:where\b.*)?$", head, re.S)
    ret = mret.group(1).strip() if mret else None
    b1 = balanced(src, b0)
    params = []
    for part in split_top(params_txt):
        part = part.strip()
        if not part:
            continue
        if re.fullmatch(r"&?\s*(?:'\w+\s+)?(?:mut\s+)?self", part):
            params.append(("self", None))
            continue
        nm, ty = part.split(":", 1)
        nm = nm.strip()
        nm = re.sub(r"^mut\s+", "", nm)
        params.append((nm, ty.strip()))
    return {"name": fn_name, "params": params, "ret": ret, "cgen": cgen, "body": src[b0:b1],
            "text": src[m.start():b1], "lines": (line_of(src, m.start()), line_of(src, b1 - 1)), "rel": rel}


class PanicNeeded(ExtractError):
    pass


class Target:
    """one source item → one generated definition"""
    def __init__(self, rel, fn, lean=None, after=None, self_ty=None, method_of=None, alias=None, doc=None,
                 macro=None, macro_args=None, params=None, ret=None, guard=False, stop_at=None, register=True):
        self.rel, self.fn, self.after, self.self_ty = rel, fn, after, self_ty
        self.lean = lean or fn
        self.method_of, self.alias, self.doc = method_of, alias, doc
        self.macro, self.macro_args, self.params, self.ret = macro, macro_args, params, ret
        # guard=True: only the PROLOGUE of the body is translated (up to the first match of `stop_at`, which must be
        # at statement level; the whole body when None) and only its control flow: the result is
        # `Except Panic Flow` — panics with a kind, `returns` (an early `return`, the value is not translated),
        # or `continues` (control reaches the part that is not translated)
        self.guard, self.stop_at, self.register = guard, stop_at, register


def gen_target(area, syms, t):
    src = read(t.rel)
    if t.macro == "subst":
        # the item lives in a `macro_rules!` body: instantiate the macro's identifier parameters textually
        mparams, mbody = macro_body(src, t.macro_args["name"])
        if sorted(mparams) != sorted(t.macro_args["subst"]):
            raise ExtractError("%s: macro %s has parameters %s, expected %s" % (t.rel, t.macro_args["name"], mparams, sorted(t.macro_args["subst"])))
        line0 = line_of(src, src.index(mbody))
        src = "\n" * (line0 - 1) + mbody
        for mp_, mv_ in t.macro_args["subst"].items():
            src = re.sub(r"\$%s\b" % re.escape(mp_), mv_, src)
    it = fn_item(src, t.fn, t.after, t.rel)
    where = "%s:%d `%s`" % (t.rel, it["lines"][0], t.fn)
    tmap = dict(area.tmap)
    if t.self_ty:
        tmap["Self"] = t.self_ty
    params = []
    for nm, ty in it["params"]:
        if nm == "self":
            if not t.self_ty:
                raise ExtractError("%s: method without a configured receiver type" % where)
            params.append(("self", t.self_ty))
        else:
            try:
                params.append((nm, rust_type(ty, tmap)))
            except ExtractError as e:
                raise ExtractError("%s: parameter %s: %s" % (where, nm, e))
    if t.guard:
        ret = "Flow"
        if t.stop_at:
            m = re.search(t.stop_at, it["body"])
            if not m:
                raise ExtractError("%s: the end of the guard prologue (%r) is not in the body any more" % (where, t.stop_at))
            head = it["body"][:m.start()]
            code = re.sub(r"//[^\n]*", "", head)
            if code.count("{") - code.count("}") != 1:
                raise ExtractError("%s: the end of the guard prologue is not at statement level" % where)
            it = dict(it, body=head + "}", text=it["text"][:it["text"].index(it["body"]) + m.start()])
    else:
        try:
            ret = rust_type(it["ret"], tmap) if it["ret"] else "Unit"
        except ExtractError as e:
            raise ExtractError("%s: return type: %s" % (where, e))
    cgen = [(n, ty) for n, ty in it["cgen"] if n != "B"]
    for n, ty in cgen:
        if ty != "bool":
            raise ExtractError("%s: const generic %s: %s not supported" % (where, n, ty))
    toks = tokenize(it["body"])
    try:
        ps = P2(toks)
        body = ps.block()
        if ps.peek()[0] != "eof":
            raise ExtractError("trailing tokens after the body")
    except ExtractError as e:
        raise ExtractError("%s: translator cannot read this body: %s" % (where, e))
    except IndexError:
        raise ExtractError("%s: translator cannot read this body: unexpected end of input" % where)

    def run(panic_mode):
        tr = Tr(area, syms, where, ret, panic_mode or t.guard, t.self_ty)
        tr.guard_mode = t.guard
        tr.guard_cut = bool(t.stop_at)
        tr.area_tmap = tmap
        env = {}
        for n, _ in cgen:
            env[n] = "Bool"
        for n, ty in params:
            env[n.lstrip("_") if n != "_" else n] = ty

        def normal(v, vt, e2, i2):
            if t.guard:
                return tr.wrap_ok("GluePrelude.Flow.continues" if t.stop_at else "GluePrelude.Flow.returns")
            if vt == "Unit" and ret == "Unit":
                return tr.wrap_ok("()")
            tr.same(vt, ret, "result")
            return tr.wrap_ok(v)
        ctx = Ctx(normal, lambda s: s, "fn")
        old = area.tmap
        area.tmap = tmap
        try:
            text = tr.seq(list(body[1]), body[2], env, ctx, 2)
        finally:
            area.tmap = old
        return tr, text

    if t.guard:
        tr, text = run(True)
        panic_mode = True
    else:
        try:
            tr, text = run(False)
            panic_mode = False
        except ExtractError as e:
            if "without a panic result" not in str(e):
                raise
            tr, text = run(True)
            panic_mode = True
    sig = []
    if tr.uses_k:
        sig.append("(k : %s)" % area.kernel)
    for n, _ in cgen:
        sig.append("(%s : Bool)" % ident(n))
    for n, ty in params:
        sig.append("(%s : %s)" % (ident(n.lstrip("_")) if n != "_" else "_", ty_lean(ty)))
    fin = ("except", ret) if panic_mode else ret
    h = hashlib.sha1(it["text"].encode()).hexdigest()[:12]
    doc = "/-- `%s` — %s:%d-%d, sha1 %s%s -/" % (t.doc or t.fn, t.rel, it["lines"][0], it["lines"][1], h,
                                                "; result `Except Panic _`: the body can panic" if panic_mode else "")
    lean = "%s\ndef %s %s : %s :=\n    %s\n" % (doc, t.lean, " ".join(sig), ty_lean(fin), text)
    sym = GenSym("Gen." + t.lean if False else t.lean, params, ret, tr.uses_k, panic_mode, cgen)
    sym.kernel = area.kernel
    if not t.register:
        return lean, h
    if t.method_of:
        syms[(t.method_of, t.fn)] = sym
    elif t.alias:
        syms[(None, t.alias)] = sym
    else:
        syms[(None, t.fn)] = sym
    return lean, h


SELF_RUST = {"FBig": "FBig", "FRepr": "Repr", "FCtx": "Context", "QRepr": "Repr"}


def gen_const(area, syms, t):
    """`const NAME: Self = EXPR;` inside an impl → a generated constant"""
    src = read(t.rel)
    pos = 0
    if t.after:
        m = re.search(t.after, src)
        if not m:
            raise ExtractError("%s: anchor %r not found" % (t.rel, t.after))
        pos = m.end()
    m = re.compile(r"\bconst\s+%s\s*:\s*([^=]+?)\s*=\s*([^;]+);" % re.escape(t.fn)).search(src, pos)
    if not m:
        raise ExtractError("%s: const %s not found" % (t.rel, t.fn))
    where = "%s:%d `const %s`" % (t.rel, line_of(src, m.start()), t.fn)
    tmap = dict(area.tmap)
    if t.self_ty:
        tmap["Self"] = t.self_ty
    ty = rust_type(m.group(1), tmap)
    try:
        ps = P2(tokenize(m.group(2)))
        e = ps.expr()
        if ps.peek()[0] != "eof":
            raise ExtractError("trailing tokens")
    except ExtractError as ex:
        raise ExtractError("%s: translator cannot read this initialiser: %s" % (where, ex))
    tr = Tr(area, syms, where, ty, False, t.self_ty)
    old = area.tmap
    area.tmap = tmap
    try:
        v, vt = tr.expr(e, {}, 2)
    finally:
        area.tmap = old
    tr.same(vt, ty, "constant")
    if tr.uses_k:
        raise ExtractError("%s: constant depends on the kernel record" % where)
    h = hashlib.sha1(m.group(0).encode()).hexdigest()[:12]
    l0, l1 = line_of(src, m.start()), line_of(src, m.end())
    lean = "/-- `%s` — %s:%d-%d, sha1 %s -/\ndef %s : %s :=\n    %s\n" % (t.doc or t.fn, t.rel, l0, l1, h, t.lean, ty_lean(ty), v)
    syms[("const", t.alias)] = (t.lean, ty)
    return lean, h


def gen_area(area, syms):
    out = ["import Dashu.Model.GluePrelude.Ext"]
    for imp_ in getattr(area, "imports", ()):
        out.append("import %s" % imp_)
    for u in area.uses:
        out.append("import Dashu.Gen.%s" % u)
    out += ["/-! GENERATED by vlib/extract.py from /repo — do not edit.  %s -/" % area.doc,
            "namespace Dashu.Gen", "open Dashu", "set_option linter.unusedVariables false"]
    if area.variables:
        out.append(area.variables)
    out.append("")
    info = {}
    pre_ = getattr(area, "presyms", None) or {}
    syms.update(pre_)
    try:
        for t in area.targets:
            lean, h = gen_const(area, syms, t) if t.macro == "const" else gen_target(area, syms, t)
            out.append(lean)
            info[t.lean] = h
    finally:
        for k_ in pre_:
            syms.pop(k_, None)
    out.append("end Dashu.Gen")
    return "\n".join(out) + "\n", info


# ------------------------------------------------------------------ v2 areas

FLOAT_TMAP = {"Repr": "FRepr", "FloatRepr": "FRepr", "FBig": "FBig", "Context": "FCtx"}
FLOAT_PANICS = {
    "panic_operate_with_inf": ("PANIC", "OperateWithInf"),
    "panic_unlimited_precision": ("PANIC", "UnlimitedPrecision"),
    "panic_power_negative_base": ("PANIC", "PowerNegativeBase"),
    "panic_log_nonpositive": ("PANIC", "LogNonPositive"),
    "panic_root_negative": ("PANIC", "RootNegative"),
}
FLOAT_K_METHODS = {
    ("FRepr", "digits_ub"): ("(k.digits_ub {0})", "Int"),
    ("FRepr", "digits"): ("(k.digits {0})", "Int"),
    ("FRepr", "log2_bounds"): ("(k.log2_bounds_repr {0})", ("tuple", ("E", "E"))),
    ("Int", "log2_bounds"): ("(k.log2_bounds_int {0})", ("tuple", ("E", "E"))),
}
FLOAT_K_FUNCS = {
    "shl_digits": ("(k.shl_digits {0} {1})", "Int", ["Int", "Int"]),
    "shr_digits": ("(k.shr_digits {0} {1})", "Int", ["Int", "Int"]),
    "split_digits": ("(k.split_digits {0} {1})", ("tuple", ("Int", "Int")), ["Int", "Int"]),
    "split_digits_ref": ("(k.split_digits {0} {1})", ("tuple", ("Int", "Int")), ["Int", "Int"]),
    "digit_len": ("(k.digit_len {0})", "Int", ["Int"]),
    "Repr::new": ("(k.repr_new {0} {1})", "FRepr", ["Int", "Int"]),
    "R::round_fract": ("(k.round_fract {0} {1} {2})", "Rounding", ["Int", "Int", "Int"]),
    "Up::round_fract": ("(k.round_fract_up {0} {1} {2})", "Rounding", ["Int", "Int", "Int"]),
    "Down::round_fract": ("(k.round_fract_down {0} {1} {2})", "Rounding", ["Int", "Int", "Int"]),
    "HalfAway::round_fract": ("(k.round_fract_half_away {0} {1} {2})", "Rounding", ["Int", "Int", "Int"]),
}
FLOAT_CONSTS = {("IBig", "ZERO"): ("(0 : Int)", "Int"), ("IBig", "ONE"): ("(1 : Int)", "Int"),
                ("IBig", "NEG_ONE"): ("(-1 : Int)", "Int"), ("UBig", "ZERO"): ("(0 : Int)", "Int"),
                ("UBig", "ONE"): ("(1 : Int)", "Int")}


def float_area(name, doc, uses=()):
    funcs = dict(FLOAT_PANICS)
    funcs.update(FLOAT_K_FUNCS)
    return Area(name, doc, FLOAT_TMAP, kernel="GluePrelude.FloatK E", uses=uses, methods=FLOAT_K_METHODS,
                funcs=funcs, consts=FLOAT_CONSTS, inplace={"shl_digits_in_place": "shl_digits"},
                variables="variable {E : Type}")


def build_areas():
    areas = []
    IMPL_REPR = r"impl<const B: Word> Repr<B> \{"
    IMPL_CTX = r"impl<R: Round> Context<R> \{"

    a = float_area("FloatRepr", "Predicates of `float/src/repr.rs` and the assertion helpers of `float/src/error.rs`.")
    R = "float/src/repr.rs"
    for fn in ("is_zero", "is_one", "is_infinite", "is_finite", "is_int", "sign", "smaller_than_one"):
        a.targets.append(Target(R, fn, lean="Repr_" + fn, after=IMPL_REPR, self_ty="FRepr", method_of="FRepr",
                                doc="Repr::<B>::" + fn))
    a.targets.append(Target(R, "max", lean="Context_max", after=IMPL_CTX, self_ty="FCtx", alias="Context::max",
                            doc="Context::<R>::max"))
    a.targets.append(Target(R, "is_limited", lean="Context_is_limited", after=IMPL_CTX, self_ty="FCtx",
                            method_of="FCtx", doc="Context::<R>::is_limited"))
    for fn in ("assert_finite", "assert_finite_operands", "assert_limited_precision"):
        a.targets.append(Target("float/src/error.rs", fn))
    for fn in ("zero", "one", "neg_one", "infinity", "neg_infinity"):
        a.targets.append(Target(R, fn, lean="Repr_" + fn, after=IMPL_REPR, self_ty="FRepr", alias="Repr::" + fn,
                                doc="Repr::<B>::" + fn))
    a.targets.append(Target(R, "new", lean="Context_new", after=IMPL_CTX, self_ty="FCtx", alias="Context::new",
                            doc="Context::<R>::new"))
    FB = "float/src/fbig.rs"
    IMPL_FBIG = r"impl<R: Round, const B: Word> FBig<R, B> \{"
    a.targets.append(Target(FB, "new", lean="FBig_new", after=IMPL_FBIG, self_ty="FBig", alias="FBig::new",
                            doc="FBig::<R, B>::new"))
    for c in ("ZERO", "ONE", "NEG_ONE", "INFINITY", "NEG_INFINITY"):
        a.targets.append(Target(FB, c, lean="FBig_" + c, after=IMPL_FBIG, self_ty="FBig", alias="FBig::" + c,
                                doc="FBig::<R, B>::" + c, macro="const"))
    a.targets.append(Target("float/src/sign.rs", "neg", lean="Repr_neg", after=r"impl<const B: Word> Neg for Repr<B> \{",
                            self_ty="FRepr", method_of="FRepr", doc="<Repr<B> as Neg>::neg"))
    areas.append(a)

    a = float_area("FloatRound", "`Context::repr_round` / `repr_round_ref` of `float/src/repr.rs`.", uses=["FloatRepr"])
    for fn in ("repr_round", "repr_round_ref"):
        a.targets.append(Target(R, fn, lean="Context_" + fn, after=IMPL_CTX, self_ty="FCtx", method_of="FCtx",
                                doc="Context::<R>::" + fn))
    areas.append(a)

    a = float_area("FloatAdd", "Addition and subtraction of floats: `float/src/add.rs`.", uses=["FloatRepr", "FloatRound"])
    A = "float/src/add.rs"
    for fn in ("repr_round_sum", "repr_add_large_small", "repr_add_small_large", "add", "sub"):
        a.targets.append(Target(A, fn, lean="Context_" + fn, after=IMPL_CTX, self_ty="FCtx", method_of="FCtx",
                                doc="Context::<R>::" + fn))
    for fn in ("add_val_val", "add_val_ref", "add_ref_val", "add_ref_ref"):
        a.targets.append(Target(A, fn))
    areas.append(a)

    a = float_area("FloatRoundOps", "Rounding a float to an integer: `float/src/round_ops.rs`.", uses=["FloatRepr"])
    O = "float/src/round_ops.rs"
    for fn in ("split_at_point_internal", "trunc", "split_at_point", "fract", "ceil", "floor", "round"):
        a.targets.append(Target(O, fn, lean="FBig_" + fn, after=IMPL_FBIG, self_ty="FBig", method_of="FBig",
                                doc="FBig::<R, B>::" + fn))
    areas.append(a)

    a = float_area("FloatCmp", "Comparison of floats: `float/src/cmp.rs`.", uses=["FloatRepr"])
    C = "float/src/cmp.rs"
    # C05 (round 6, /repo ee43486): case 4 clamps the precisions with `.min(isize::MAX as usize) as isize`
    a.imports = ["Dashu.Model.GluePrelude.FloatCmp"]
    a.consts = dict(a.consts)
    a.consts[("isize", "MAX")] = ("GluePrelude.isize_MAX", "Int")
    a.targets.append(Target(C, "eq", lean="FBig_eq", after=r"PartialEq<FBig<R2, B>> for FBig<R1, B> \{",
                            self_ty="FBig", doc="<FBig as PartialEq>::eq"))
    a.targets.append(Target(C, "repr_cmp_same_base"))
    a.targets.append(Target(C, "cmp", lean="Repr_cmp", after=r"impl<const B: Word> Ord for Repr<B> \{",
                            self_ty="FRepr", method_of="FRepr", doc="<Repr<B> as Ord>::cmp"))
    a.targets.append(Target(C, "cmp", lean="FBig_cmp", after=r"impl<R: Round, const B: Word> Ord for FBig<R, B> \{",
                            self_ty="FBig", doc="<FBig as Ord>::cmp"))
    a.targets.append(Target(C, "abs_cmp", lean="FBig_abs_cmp", after=r"impl<R: Round, const B: Word> AbsOrd for FBig<R, B> \{",
                            self_ty="FBig", doc="<FBig as AbsOrd>::abs_cmp"))
    a.targets.append(Target(C, "repr_cmp_ubig"))
    a.targets.append(Target(C, "repr_cmp_ibig"))
    areas.append(a)

    a = float_area("FloatGuards", "Entry guards (the prologue up to the first computation) of float operations that can panic.",
                   uses=["FloatRepr", "FloatRound", "FloatCmp"])
    a.targets.append(Target("float/src/exp.rs", "powf", lean="guard_Context_powf", after=IMPL_CTX, self_ty="FCtx",
                            doc="Context::<R>::powf (prologue)", guard=True, stop_at=r"// x\^y = exp\(y\*ln\(x\)\)", register=False))
    a.targets.append(Target("float/src/log.rs", "ln_internal", lean="guard_Context_ln_internal", after=IMPL_CTX, self_ty="FCtx",
                            doc="Context::<R>::ln_internal (prologue)", guard=True, stop_at=r"// A simple algorithm", register=False))
    a.targets.append(Target("float/src/root.rs", "sqrt", lean="guard_Context_sqrt", after=IMPL_CTX, self_ty="FCtx",
                            doc="Context::<R>::sqrt (prologue)", guard=True, stop_at=r"// adjust the signifcand", register=False))
    a.targets.append(Target("float/src/div.rs", "repr_div", lean="guard_Context_repr_div", after=IMPL_CTX, self_ty="FCtx",
                            doc="Context::<R>::repr_div (prologue)", guard=True, stop_at=r"// this method don't deal", register=False))
    a.targets.append(Target("float/src/div.rs", "div", lean="guard_Context_div", after=IMPL_CTX, self_ty="FCtx",
                            doc="Context::<R>::div (prologue)", guard=True, stop_at=r"let lhs_repr = ", register=False))
    a.targets.append(Target("float/src/fbig.rs", "ulp", lean="guard_FBig_ulp", after=IMPL_FBIG, self_ty="FBig",
                            doc="FBig::<R, B>::ulp (prologue)", guard=True, stop_at=r"let repr = Repr \{", register=False))
    areas.append(a)

    INT_PANICS = {"panic_root_zeroth": ("PANIC", "RootZeroth"), "panic_root_negative": ("PANIC", "RootNegative"),
                  "panic_invalid_radix": ("PANIC", "InvalidRadix"), "panic_divide_by_0": ("PANIC", "DivideByZero"),
                  "panic_negative_ubig": ("PANIC", "NegativeUBig"), "panic_invalid_log_oprand": ("PANIC", "InvalidLogOperand")}
    a = Area("IntGuards", "Entry guards of integer and rational operations that can panic.",
             {"Repr": "QRepr", "RBig": "QRepr", "Relaxed": "QRepr", "Digit": "Int"}, funcs=INT_PANICS,
             consts={("Sign", "Negative"): ("Sign.Negative", "Sign"), ("Sign", "Positive"): ("Sign.Positive", "Sign")})
    RX = "integer/src/radix.rs"
    for c in ("MIN_RADIX", "MAX_RADIX"):
        a.targets.append(Target(RX, c, lean="radix_" + c, alias=c, macro="const", doc=c))
    a.targets.append(Target(RX, "is_radix_valid", lean="radix_is_radix_valid", alias="radix::is_radix_valid"))
    a.targets.append(Target("integer/src/fmt/mod.rs", "in_radix", lean="guard_UBig_in_radix", after=r"\nimpl UBig \{", self_ty="Int",
                            doc="UBig::in_radix (guard)", guard=True, register=False))
    a.targets.append(Target("integer/src/fmt/mod.rs", "in_radix", lean="guard_IBig_in_radix", after=r"\nimpl IBig \{", self_ty="Int",
                            doc="IBig::in_radix (guard)", guard=True, register=False))
    a.targets.append(Target("integer/src/root_ops.rs", "nth_root", lean="guard_IBig_nth_root", after=r"\nimpl IBig \{", self_ty="Int",
                            doc="IBig::nth_root (guard)", guard=True, register=False))
    a.targets.append(Target("integer/src/root_ops.rs", "sqrt", lean="guard_IBig_sqrt", after=r"impl SquareRoot for IBig \{", self_ty="Int",
                            doc="<IBig as SquareRoot>::sqrt (guard)", guard=True, register=False))
    a.targets.append(Target("rational/src/rbig.rs", "from_parts", lean="guard_RBig_from_parts", after=r"\nimpl RBig \{", self_ty="QRepr",
                            doc="RBig::from_parts (guard)", guard=True, register=False))
    a.targets.append(Target("rational/src/rbig.rs", "from_parts", lean="guard_Relaxed_from_parts", after=r"\nimpl Relaxed \{", self_ty="QRepr",
                            doc="Relaxed::from_parts (guard)", guard=True, register=False))
    areas.append(a)

    a = Area("IntOps", "Sign handling of `IBig` comparison and right shift: `integer/src/cmp.rs`, `integer/src/shift_ops.rs`.",
             {}, funcs={"IBig::from": ("(GluePrelude.b2i {0})", "Int", ["Bool"])})
    a.targets.append(Target("integer/src/cmp.rs", "cmp", lean="IBig_cmp", after=r"impl Ord for IBig \{", self_ty="Int",
                            doc="<IBig as Ord>::cmp", register=False))
    a.targets.append(Target("integer/src/shift_ops.rs", "shr", lean="IBig_shr", after=r"impl Shr<usize> for IBig \{", self_ty="Int",
                            doc="<IBig as Shr<usize>>::shr", register=False))
    a.targets.append(Target("integer/src/shift_ops.rs", "shr", lean="IBig_ref_shr", after=r"impl Shr<usize> for &IBig \{", self_ty="Int",
                            doc="<&IBig as Shr<usize>>::shr", register=False))
    areas.append(a)

    # C09 (round 6, additive): the sign-level bit functions of IBig over the record `GluePrelude.BitK` of the magnitude-level methods
    a = Area("IntBits", "Sign-level bit functions of `IBig`: `integer/src/bits.rs` (`IBig::trailing_zeros`, `IBig::trailing_ones`, "
             "`<IBig as BitTest>::bit` / `bit_len`, `Not for IBig` / `&IBig`).",
             {}, kernel="GluePrelude.BitK",
             methods={("Int", "trailing_ones"): ("(k.trailing_ones {0})", "Int"),
                      ("Int", "trailing_ones_neg"): ("(k.trailing_ones_neg {0})", ("option", "Int")),
                      ("Int", "trailing_zeros"): ("(k.trailing_zeros {0})", ("option", "Int")),
                      ("Int", "bit"): ("(k.bit {0} {1})", "Bool"),
                      ("Int", "bit_len"): ("(k.bit_len {0})", "Int"),
                      ("option", "unwrap"): ("(k.unwrap {0})", "Int"),
                      ("Int", "add_one"): ("(GluePrelude.add_one {0})", "Int"),
                      ("Int", "sub_one"): ("(GluePrelude.sub_one {0})", "Int"),
                      ("Int", "with_sign"): ("(GluePrelude.with_sign {0} {1})", "Int")},
             funcs={"IBig": ("{0}", "Int", ["Int"])})
    a.imports = ["Dashu.Model.GluePrelude.IntBits"]
    BITS = "integer/src/bits.rs"
    a.targets.append(Target(BITS, "trailing_zeros", lean="IBig_trailing_zeros", after=r"\nimpl IBig \{", self_ty="Int",
                            doc="IBig::trailing_zeros", register=False))
    a.targets.append(Target(BITS, "trailing_ones", lean="IBig_trailing_ones", after=r"\nimpl IBig \{", self_ty="Int",
                            doc="IBig::trailing_ones", register=False))
    a.targets.append(Target(BITS, "bit", lean="IBig_bit", after=r"impl BitTest for IBig \{", self_ty="Int",
                            doc="<IBig as BitTest>::bit", register=False))
    a.targets.append(Target(BITS, "bit_len", lean="IBig_bit_len", after=r"impl BitTest for IBig \{", self_ty="Int",
                            doc="<IBig as BitTest>::bit_len", register=False))
    a.targets.append(Target(BITS, "not", lean="IBig_not", after=r"impl Not for IBig \{", self_ty="Int",
                            doc="<IBig as Not>::not", register=False))
    a.targets.append(Target(BITS, "not", lean="IBig_ref_not", after=r"impl Not for &IBig \{", self_ty="Int",
                            doc="<&IBig as Not>::not", register=False))
    areas.append(a)

    a = Area("RatCmp", "Comparison of rationals: `rational/src/cmp.rs`.",
             {"Repr": "QRepr", "RBig": "QRepr", "Relaxed": "QRepr", "FloatRepr": "FRepr"},
             kernel="GluePrelude.RatK E", uses=["FloatRepr"],
             methods={("QRepr", "log2_bounds"): ("(k.log2_bounds_q {0})", ("tuple", ("E", "E"))),
                      ("FRepr", "log2_bounds"): ("(k.log2_bounds_repr {0})", ("tuple", ("E", "E"))),
                      ("Int", "log2_bounds"): ("(k.log2_bounds_int {0})", ("tuple", ("E", "E"))),
                      ("Base", "is_power_of_two"): ("k.base_is_pow2{0:.0s}", "Bool"),
                      ("Base", "trailing_zeros"): ("k.base_tz{0:.0s}", "Int")},
             funcs={"UBig::from_word": ("k.base{0:.0s}", "Int", ["Base"])},
             consts={("B",): ("k.base", "Base")}, variables="variable {E : Type}")
    Q = "rational/src/cmp.rs"
    a.targets.append(Target(Q, "repr_eq", lean="q_repr_eq"))
    a.targets.append(Target(Q, "eq", lean="RBig_eq", after=r"impl PartialEq for RBig \{", self_ty="QRepr",
                            doc="<RBig as PartialEq>::eq"))
    a.targets.append(Target(Q, "abs_eq", lean="RBig_abs_eq", after=r"impl AbsEq for RBig \{", self_ty="QRepr",
                            doc="<RBig as AbsEq>::abs_eq"))
    a.targets.append(Target(Q, "repr_cmp", lean="q_repr_cmp"))
    a.targets.append(Target(Q, "repr_cmp_ubig", lean="q_repr_cmp_ubig"))
    a.targets.append(Target(Q, "repr_cmp_ibig", lean="q_repr_cmp_ibig"))
    a.targets.append(Target(Q, "repr_cmp_fbig", lean="q_repr_cmp_fbig", after=r"mod with_float \{"))
    areas.append(a)
    areas += float_arith_areas(IMPL_CTX)
    return areas


def float_arith_areas(IMPL_CTX):
    """C03 (round 4): `Context::mul/sqr/cubic`, `Context::repr_div/div/inv` and the operator impls `FBig * FBig`,
    `FBig / FBig`, `FBig::sqr/cubic`, `Inverse for FBig` regenerated as typed Lean text.  Kernel record
    `GluePrelude.FloatK2` (= FloatK + `digits_lb`, `round_ratio`); `IBig::div_rem` is the hand-written panicking
    primitive `GluePrelude.IBig_div_rem` (lean/Dashu/Model/GluePrelude/FloatArith.lean)."""
    def area(name, doc, uses):
        a = float_area(name, doc, uses=uses)
        a.kernel = "GluePrelude.FloatK2 E"
        a.kcoerce = {"GluePrelude.FloatK E": "k.toFloatK"}
        a.imports = ["Dashu.Model.GluePrelude.FloatArith"]
        a.consts = dict(a.consts)
        a.consts[("usize", "MAX")] = ("GluePrelude.usize_MAX", "Int")
        a.methods = dict(a.methods)
        a.methods[("Int", "sqr")] = ("(GluePrelude.mul_ {0} {0})", "Int")
        a.methods[("Int", "cubic")] = ("(GluePrelude.mul_ (GluePrelude.mul_ {0} {0}) {0})", "Int")
        a.methods[("FRepr", "digits_lb")] = ("(k.digits_lb {0})", "Int")
        a.funcs = dict(a.funcs)
        a.funcs["R::round_ratio"] = ("(k.round_ratio {0} {1} {2})", "Rounding", ["Int", "Int", "Int"])
        dr = GenSym("GluePrelude.IBig_div_rem", [("self", "Int"), ("rhs", "Int")], ("tuple", ("Int", "Int")), False, True, [])
        dr.kernel = None
        a.presyms = {("Int", "div_rem"): dr}
        return a

    out = []
    M = "float/src/mul.rs"
    a = area("FloatMul", "Multiplication of floats: `float/src/mul.rs` (Context methods and the operator impls).",
             ["FloatRepr", "FloatRound"])
    for fn in ("mul", "sqr", "cubic"):
        a.targets.append(Target(M, fn, lean="Context_" + fn, after=IMPL_CTX, self_ty="FCtx", method_of="FCtx",
                                doc="Context::<R>::" + fn))
    for tag, hdr in (("ref_ref", r"Mul<&'r FBig<R, B>> for &'l FBig<R, B> \{"), ("val_ref", r"Mul<&'r FBig<R, B>> for FBig<R, B> \{"),
                     ("ref_val", r"Mul<FBig<R, B>> for &'l FBig<R, B> \{"), ("val_val", r"Mul<FBig<R, B>> for FBig<R, B> \{")):
        a.targets.append(Target(M, "mul", lean="FBig_mul_" + tag, after=hdr, self_ty="FBig", register=False,
                                doc="<FBig as Mul<FBig>>::mul, form " + tag))
    IMPL_FBIG = r"impl<R: Round, const B: Word> FBig<R, B> \{"
    for fn in ("sqr", "cubic"):
        a.targets.append(Target(M, fn, lean="FBig_" + fn, after=IMPL_FBIG, self_ty="FBig", register=False, doc="FBig::<R, B>::" + fn))
    out.append(a)

    D = "float/src/div.rs"
    a = area("FloatDiv", "Division of floats: `float/src/div.rs` (`repr_div`, `Context::div` / `inv` and the operator impls).",
             ["FloatRepr", "FloatRound"])
    for fn in ("repr_div", "div", "inv"):
        a.targets.append(Target(D, fn, lean="Context_" + fn, after=IMPL_CTX, self_ty="FCtx", method_of="FCtx",
                                doc="Context::<R>::" + fn))
    margs = {"name": "impl_div_or_rem_for_fbig", "subst": {"op": "Div", "method": "div", "repr_method": "repr_div"}}
    for tag, hdr in (("val_val", r"Div<FBig<R, B>> for FBig<R, B> \{"), ("ref_val", r"Div<FBig<R, B>> for &'l FBig<R, B> \{"),
                     ("val_ref", r"Div<&'r FBig<R, B>> for FBig<R, B> \{"), ("ref_ref", r"Div<&'r FBig<R, B>> for &'l FBig<R, B> \{")):
        a.targets.append(Target(D, "div", lean="FBig_div_" + tag, after=hdr, self_ty="FBig", register=False, macro="subst",
                                macro_args=margs, doc="<FBig as Div<FBig>>::div (impl_div_or_rem_for_fbig!), form " + tag))
    for tag, hdr in (("val", r"Inverse for FBig<R, B> \{"), ("ref", r"Inverse for &FBig<R, B> \{")):
        a.targets.append(Target(D, "inv", lean="FBig_inv_" + tag, after=hdr, self_ty="FBig", register=False,
                                doc="<FBig as Inverse>::inv, form " + tag))
    out.append(a)
    return out


def regenerate_v2(out_dir, only=None):
    """generate every v2 area into out_dir; returns {file: (text | None, error | None)}, info"""
    syms, res, info, failed = {}, {}, {}, {}
    for a in build_areas():
        fname = a.name + ".lean"
        bad = [u for u in a.uses if u in failed]
        if bad:
            failed[a.name] = "needs Gen/%s.lean (%s)" % (bad[0], failed[bad[0]])
            res[fname] = (None, failed[a.name])
            continue
        try:
            text, inf = gen_area(a, syms)
            res[fname] = (text, None)
            info.update(inf)
        except ExtractError as e:
            failed[a.name] = str(e)
            res[fname] = (None, str(e))
    return res, info

# ------------------------------------------------------------------ what is generated

SIGN_MACROS = [
    ("integer/src/add_ops.rs", ["impl_ibig_add", "impl_ibig_sub"]),
    ("integer/src/mul_ops.rs", ["impl_ibig_mul"]),
    ("integer/src/div_ops.rs", ["impl_ibig_div", "impl_ibig_rem", "impl_ibig_divrem", "impl_ibig_div_euclid",
                                "impl_ibig_rem_euclid", "impl_ibig_divrem_euclid", "impl_ubig_ibig_rem",
                                "impl_ubig_ibig_divrem"]),
    ("integer/src/bits.rs", ["impl_ibig_bitand", "impl_ibig_bitor", "impl_ibig_bitxor"]),
]
ROUND_MODES = ["Zero", "Away", "Down", "Up", "HalfAway", "HalfEven"]
CONSTANTS = [
    ("integer/src/mul/mod.rs", "THRESHOLD_SIMPLE", "mul_THRESHOLD_SIMPLE"),
    ("integer/src/mul/mod.rs", "THRESHOLD_KARATSUBA", "mul_THRESHOLD_KARATSUBA"),
    ("integer/src/mul/karatsuba.rs", "MIN_LEN", "karatsuba_MIN_LEN"),
    ("integer/src/mul/toom_3.rs", "MIN_LEN", "toom3_MIN_LEN"),
    ("integer/src/mul/simple.rs", "CHUNK_LEN", "mul_simple_CHUNK_LEN"),
    ("integer/src/div/mod.rs", "THRESHOLD_SIMPLE", "div_THRESHOLD_SIMPLE"),
    ("integer/src/sqr/mod.rs", "MAX_LEN_SIMPLE", "sqr_MAX_LEN_SIMPLE"),
]


def param_type(n):
    n = n.lstrip("_")
    if n.startswith("sign") or n.endswith("_sign"):
        return "Sign"
    if n in ("low_half_test",):
        return "Ordering"
    return "Int"


def gen_glue():
    out = ["import Dashu.Model.GluePrelude",
           "/-! GENERATED by vlib/extract.py from /repo — do not edit.  Sign tables of the operator glue. -/",
           "namespace Dashu.Gen", "open Dashu", "set_option linter.unusedVariables false", ""]
    info = {}
    for rel, names in SIGN_MACROS:
        src = read(rel)
        for name in names:
            params, body = macro_body(src, name)
            lean, _ = translate_body(body)
            sig = " ".join("(%s : %s)" % (ident(p), param_type(p)) for p in params)
            out.append("/-- `%s` (%s) -/" % (name, rel))
            out.append("def %s %s :=\n    %s\n" % (name, sig, lean))
            info[name] = hashlib.sha1(body.encode()).hexdigest()[:12]
    out.append("end Dashu.Gen")
    return "\n".join(out) + "\n", info


def gen_round():
    src = read("float/src/round.rs")
    out = ["import Dashu.Model.GluePrelude",
           "/-! GENERATED by vlib/extract.py from /repo/float/src/round.rs — do not edit. -/",
           "namespace Dashu.Gen", "open Dashu", "set_option linter.unusedVariables false", ""]
    info = {}
    for mode in ROUND_MODES:
        params, body = fn_body(src, "round_low_part", after=r"impl\s+Round\s+for\s+mode::%s\s*\{" % mode)
        lean, _ = translate_body(body)
        sig = " ".join("(%s : %s)" % (ident(p), param_type(p)) for p in params)
        out.append("/-- `<mode::%s as Round>::round_low_part` -/" % mode)
        out.append("def round_low_part_%s %s : Rounding :=\n    %s\n" % (mode, sig, lean))
        info["round_low_part_" + mode] = hashlib.sha1(body.encode()).hexdigest()[:12]
    out.append("end Dashu.Gen")
    return "\n".join(out) + "\n", info


def gen_misc():
    out = ["import Dashu.Model.GluePrelude",
           "/-! GENERATED by vlib/extract.py from /repo — do not edit.  Constants, capacity policy, small predicates. -/",
           "namespace Dashu.Gen", "open Dashu", "set_option linter.unusedVariables false", ""]
    info = {}
    for rel, name, lean_name in CONSTANTS:
        v = const_value(read(rel), name, rel)
        out.append("/-- `%s` in %s -/\ndef %s : Nat := %d\n" % (name, rel, lean_name, v))
        info[lean_name] = v
    bsrc = read("integer/src/buffer.rs")
    for fn in ("default_capacity", "max_compact_capacity"):
        params, body = fn_body(bsrc, fn)
        lean, _ = translate_body(body)
        out.append("/-- `Buffer::%s` (MAX_CAPACITY is a parameter: usize::MAX / WORD_BITS) -/" % fn)
        out.append("def %s (MAX_CAPACITY : Int) (%s : Int) :=\n    %s\n" % (fn, ident(params[0]), lean))
        info[fn] = hashlib.sha1(body.encode()).hexdigest()[:12]
    # digit-conversion chunk sizes and the "stop squaring" test of the divide-and-conquer printer
    for rel, name, lean_name in (("integer/src/fmt/non_power_two.rs", "CHUNK_LEN", "fmt_CHUNK_LEN"),
                                 ("integer/src/parse/non_power_two.rs", "CHUNK_LEN", "parse_CHUNK_LEN")):
        v = const_value(read(rel), name, rel)
        out.append("/-- `%s` in %s -/\ndef %s : Nat := %d\n" % (name, rel, lean_name, v))
        info[lean_name] = v
    fsrc = read("integer/src/fmt/non_power_two.rs")
    m = re.search(r"impl\s+PreparedLarge\s*\{", fsrc)
    if not m:
        raise ExtractError("impl PreparedLarge not found")
    _, nbody = fn_body(fsrc, "new", after=r"impl\s+PreparedLarge\s*\{")
    nbody = re.sub(r"//[^\n]*", "", nbody)        # the comment above the test also contains the word `if`
    lp = nbody.find("loop {")
    mm = re.search(r"if\s+([^{};]+?)\s*\{\s*break;", nbody[lp:]) if lp >= 0 else None
    if not mm:
        raise ExtractError("PreparedLarge::new: length shortcut `if … { break; }` not found inside the loop")
    cond = re.sub(r"\b(\w+)\.len\(\)", r"\1_len", mm.group(1))
    names = sorted(set(re.findall(r"\b(\w+_len)\b", cond)))
    if names != ["number_len", "prev_len"]:
        raise ExtractError("PreparedLarge::new: unexpected operands in the length shortcut: %s" % cond)
    lean, _ = translate_body("{ " + cond + " }")
    out.append("/-- the length shortcut that stops squaring the radix-power tower in `PreparedLarge::new`\n    (integer/src/fmt/non_power_two.rs): `%s` -/" % mm.group(1).strip())
    out.append("def fmt_tower_stop (prev_len number_len : Int) : Bool :=\n    %s\n" % lean)
    info["fmt_tower_stop"] = hashlib.sha1(cond.encode()).hexdigest()[:12]
    # float base conversion: exponent magnitude up to which the exact path is used
    csrc = read("float/src/convert.rs")
    m = re.search(r"const\s+THRESHOLD_SMALL_EXP\s*:\s*isize\s*=\s*\(Word::BITS as f32 \* ([0-9.]+)\) as isize\s*;", csrc)
    m2 = re.search(r"const\s+THRESHOLD_SMALL_EXP\s*:\s*isize\s*=\s*(\d+)\s*;", csrc)
    if m:
        import struct
        def f32(x):
            return struct.unpack("f", struct.pack("f", x))[0]
        cst = f32(float(m.group(1)))
        vals = {W: int(f32(f32(float(W)) * cst)) for W in (16, 32, 64)}
        how = "(Word::BITS as f32 * %s) as isize" % m.group(1)
    elif m2:
        vals = {W: int(m2.group(1)) for W in (16, 32, 64)}
        how = m2.group(1)
    else:
        raise ExtractError("THRESHOLD_SMALL_EXP in float/src/convert.rs is neither a literal nor `(Word::BITS as f32 * c) as isize`")
    out.append("/-- `THRESHOLD_SMALL_EXP = %s` in float/src/convert.rs, per word size -/" % how)
    out.append("def float_THRESHOLD_SMALL_EXP (W : Nat) : Nat :=\n    if W = 64 then %d else if W = 32 then %d else if W = 16 then %d else 0\n" % (vals[64], vals[32], vals[16]))
    info["float_THRESHOLD_SMALL_EXP"] = vals[64]
    rsrc = read("rational/src/simplify.rs")
    params, body = fn_body(rsrc, "is_simpler_than")
    lean, _ = translate_body(body)
    out.append("/-- `RBig::is_simpler_than` — `self`/`other` are (numerator, denominator) pairs -/")
    out.append("def is_simpler_than (self other : Int × Int) : Bool :=\n    %s\n" % lean)
    info["is_simpler_than"] = hashlib.sha1(body.encode()).hexdigest()[:12]
    out.append("end Dashu.Gen")
    return "\n".join(out) + "\n", info


# ------------------------------------------------------------------ ownership-form bodies of the helper macros (C15)
#
# `helper_macros.rs` of dashu-int / dashu-float / dashu-ratio stamp out, per operator, one `impl` per ownership form
# (val/ref x val/ref, the `*_assign` forms, the forms with a primitive on either side).  Every `fn` body inside those
# macro rules is translated into one Lean definition over an ABSTRACT value domain `V`: every callee of the body
# (a method, a `$metavariable` method, the `$impl!` core macro, a conversion `T::from`, a constructor) is a PARAMETER of
# the definition (an uninterpreted function), references / dereferences / `.clone()` / `core::mem::take` are erased
# (value semantics), `&mut self` is state passing (the definition returns the new `self`, paired with the result if
# the `fn` has one).  The theorems of Props/C15Forms.lean then say: for EVERY interpretation of the callees, all forms of
# one macro rule evaluate the same core call on the same operand values.  Anything outside this subset fails closed.

FORMS_SOURCES = [
    ("q", "rational/src/helper_macros.rs"),
    ("f", "float/src/helper_macros.rs"),
    ("i", "integer/src/helper_macros.rs"),
]


class PF(P2):
    """the second parser plus: `$name!(args)` macro calls, qualified paths `<$t>::from`"""
    def primary(self, nostruct):
        k, v = self.peek()
        if v == "<":
            depth, txt = 0, []
            while True:
                t = self.next()[1]
                if t == "<":
                    depth += 1
                elif t == ">":
                    depth -= 1
                    if depth == 0:
                        break
                if t == "eof" or t == "":
                    raise ExtractError("unterminated qualified path")
                txt.append(t)
            parts = ["<" + "".join(txt[1:]) + ">"]
            while self.peek()[1] == "::":
                self.next()
                parts.append(self.next()[1])
            return ("path", parts)
        if k == "id" and self.peek(1)[1] == "!" and self.peek(2)[1] == "(":
            name = self.next()[1]
            self.next()
            return ("macro", name, self.args())
        return P2.primary(self, nostruct)


def _skip_trivia(s, i):
    n = len(s)
    while i < n:
        if s[i].isspace():
            i += 1
        elif s.startswith("//", i):
            j = s.find("\n", i)
            i = n if j < 0 else j
        elif s.startswith("/*", i):
            i = s.index("*/", i) + 2
        elif s.startswith("#[", i):
            i = balanced(s, i + 1, "[", "]")
        else:
            break
    return i


def macro_rules_all(src, name, rel):
    """[(pattern text, body text)] of every rule of `macro_rules! name`"""
    m = re.search(r"macro_rules!\s+%s\s*\{" % re.escape(name), src)
    if not m:
        raise ExtractError("%s: macro %s not found" % (rel, name))
    end = balanced(src, m.end() - 1)
    body = src[m.end():end - 1]
    rules, i = [], 0
    while True:
        i = _skip_trivia(body, i)
        if i >= len(body):
            break
        if body[i] != "(":
            raise ExtractError("%s: macro %s: rule head expected at %r" % (rel, name, body[i:i + 30]))
        j = balanced(body, i, "(", ")")
        pat = body[i + 1:j - 1]
        k = _skip_trivia(body, j)
        if not body.startswith("=>", k):
            raise ExtractError("%s: macro %s: `=>` expected" % (rel, name))
        k = _skip_trivia(body, k + 2)
        if body[k] != "{":
            raise ExtractError("%s: macro %s: rule body expected" % (rel, name))
        e = balanced(body, k)
        rules.append((pat, body[k + 1:e - 1]))
        i = _skip_trivia(body, e)
        if i < len(body) and body[i] == ";":
            i += 1
    return rules


def _angle(s, i):
    """s[i] == '<': index after the matching '>' (`->` does not close)"""
    depth = 0
    while i < len(s):
        if s[i] == "<":
            depth += 1
        elif s[i] == ">" and s[i - 1] != "-":
            depth -= 1
            if depth == 0:
                return i + 1
        i += 1
    raise ExtractError("unbalanced <>")


def rule_items(body, where):
    """items of a macro rule body: ("impl", header, body text) | ("invoke", macro name)"""
    items, i = [], 0
    while True:
        i = _skip_trivia(body, i)
        if i >= len(body):
            return items
        m = re.compile(r"impl\b").match(body, i)
        if m:
            b0 = body.index("{", i)
            b1 = balanced(body, b0)
            items.append(("impl", " ".join(body[i:b0].split()), body[b0 + 1:b1 - 1]))
            i = b1
            continue
        m = re.compile(r"((?:\$?\w+::)*\w+)!\s*\(").match(body, i)
        if m:
            j = balanced(body, m.end() - 1, "(", ")")
            j = _skip_trivia(body, j)
            if j < len(body) and body[j] == ";":
                j += 1
            items.append(("invoke", m.group(1).split("::")[-1]))
            i = j
            continue
        raise ExtractError("%s: item outside the subset (impl / macro invocation) at %r" % (where, body[i:i + 40]))


def impl_header(h, where):
    """`impl<…> Trait<Rhs> for Lhs` -> (trait, rhs text | None, lhs text)"""
    s = h[4:].strip()
    if s.startswith("<"):
        s = s[_angle(s, 0):].strip()
    m = re.match(r"(\$?\w+)\s*", s)
    if not m:
        raise ExtractError("%s: impl header %r" % (where, h))
    trait, s = m.group(1), s[m.end():]
    rhs = None
    if s.startswith("<"):
        e = _angle(s, 0)
        rhs, s = s[1:e - 1].strip(), s[e:].strip()
    m = re.match(r"for\s+(.+?)(?:\s+where\s.*)?$", s)
    if not m:
        raise ExtractError("%s: impl header %r" % (where, h))
    return trait, rhs, m.group(1).strip()


def impl_fn(body, where):
    """the single fn of an impl body -> (name, [(param, kind)], has result, body text); kind: val / mut / ref"""
    i, found = 0, None
    while True:
        i = _skip_trivia(body, i)
        if i >= len(body):
            break
        m = re.compile(r"type\s+\$?\w+\s*=[^;]*;").match(body, i)
        if m:
            i = m.end()
            continue
        m = re.compile(r"fn\s+(\$?\w+)\s*").match(body, i)
        if not m or found:
            raise ExtractError("%s: impl body outside the subset (type items + one fn) at %r" % (where, body[i:i + 40]))
        j = m.end()
        if body[j] == "<":
            j = _skip_trivia(body, _angle(body, j))
        if body[j] != "(":
            raise ExtractError("%s: fn parameter list expected" % where)
        p1 = balanced(body, j, "(", ")")
        b0 = body.index("{", p1)
        sig_tail = body[p1:b0].strip()
        if sig_tail and not sig_tail.startswith("->"):
            raise ExtractError("%s: fn signature %r" % (where, sig_tail))
        b1 = balanced(body, b0)
        params = []
        for part in split_top(body[j + 1:p1 - 1]):
            part = " ".join(part.split())
            if not part:
                continue
            if part in ("self", "mut self"):
                params.append(("self", "val"))
            elif part == "&self":
                params.append(("self", "ref"))
            elif part == "&mut self":
                params.append(("self", "mut"))
            else:
                nm, ty = part.split(":", 1)
                nm = nm.replace("mut ", "").strip()
                if ty.strip().startswith("&mut"):
                    raise ExtractError("%s: `&mut` parameter %s" % (where, nm))
                params.append((nm, "val"))
        found = (m.group(1), params, bool(sig_tail), body[b0:b1])
        i = b1
    if not found:
        raise ExtractError("%s: impl without fn" % where)
    return found


class FormTr:
    """one fn body -> Lean term over the abstract domain; callees become parameters (in order of first use)"""
    def __init__(self, where, fn_name, mut_self, has_result):
        self.where, self.fn_name, self.mut_self, self.has_result = where, fn_name, mut_self, has_result
        self.params = []          # [(lean name, type text)]
        self.locals = set()
        self.from_ty = None
        self.tmp = 0
        self.guards = []
        self.self_by_value = True

    def err(self, msg):
        raise ExtractError("%s: %s" % (self.where, msg))

    def callee(self, name, arity, result):
        ty = " → ".join(["V"] * arity + [result]) if arity else result
        for n, t in self.params:
            if n == name:
                if t != ty:
                    self.err("callee %s used at two types (%s, %s)" % (name, t, ty))
                return name
        if name in self.locals:
            self.err("callee %s clashes with a local variable" % name)
        self.params.append((name, ty))
        return name

    @staticmethod
    def meta(n):
        return ident(n) + "_" if n.startswith("$") else ident(n)

    def pat(self, p):
        if p[0] == "pvar":
            self.locals.add(ident(p[1]))
            return ident(p[1])
        if p[0] == "pwild":
            return "_"
        if p[0] == "ptuple":
            return "(" + ", ".join(self.pat(x) for x in p[1]) + ")"
        self.err("pattern " + p[0])

    def width(self, pat):
        """result type of an expression bound by this pattern"""
        if pat is not None and pat[0] == "ptuple":
            if not all(x[0] in ("pvar", "pwild") for x in pat[1]):
                self.err("nested tuple pattern")
            return " × ".join(["V"] * len(pat[1]))
        return "V"

    def e(self, x, res="V"):
        k = x[0]
        if k == "path":
            p = x[1]
            if len(p) == 1:
                n = ident(p[0])
                if n in self.locals:
                    return n
                if p[0].startswith("$"):
                    return self.callee(self.meta(p[0]) + "tok", 0, "M")      # a macro token handed on (`$method`)
                if p[0][:1].isupper():
                    return self.callee(n, 0, "V")                             # an imported constant (`Positive`)
                self.err("unbound name %s" % p[0])
            return self.callee(ident(p[-1]), 0, "V")                         # a constant (`Sign::Positive`)
        if k == "tuple":
            return "(" + ", ".join(self.e(i) for i in x[1]) + ")"
        if k == "macro":
            if not x[1].startswith("$"):
                self.err("macro call %s! is not a `$metavariable` core" % x[1])
            args = [self.e(a) for a in x[2]]
            tys = ["M" if (a[0] == "path" and len(a[1]) == 1 and a[1][0].startswith("$") and ident(a[1][0]) not in self.locals)
                   else "V" for a in x[2]]
            return "(%s %s)" % (self.callee(self.meta(x[1]), 0, " → ".join(tys + ["O"])), " ".join(args))
        if k == "mcall":
            name, recv, args = x[2], x[1], x[3]
            if name == "clone" and not args:
                return self.e(recv)                                           # erased
            if self.mut_self and name == self.fn_name and recv[0] == "path" and recv[1] == ["self"]:
                self.err("call of the `&mut self` method itself below the statement level")
            a = [self.e(recv)] + [self.e(i) for i in args]
            return "(%s %s)" % (self.callee(self.meta(name), len(a), res), " ".join(a))
        if k == "call":
            f, args = x[1], x[2]
            if f[0] != "path":
                self.err("call of a computed function")
            p = f[1]
            if p[-3:] == ["core", "mem", "take"] and len(args) == 1:
                return self.e(args[0])                                        # erased: the old value
            if p[-1] == "from" and len(p) >= 2 and len(args) == 1:
                ty = re.sub(r"\s+", "", p[-2])
                if self.from_ty not in (None, ty):
                    self.err("two different conversions %s::from / %s::from in one body" % (self.from_ty, ty))
                self.from_ty = ty
                return "(%s %s)" % (self.callee("from_", 1, "V"), self.e(args[0]))
            a = [self.e(i) for i in args]
            return "(%s %s)" % (self.callee(ident(p[-1]), len(a), res), " ".join(a)) if a else self.callee(ident(p[-1]), 0, res)
        if k == "block" and not x[1] and x[2] is not None:
            return self.e(x[2], res)
        if k == "field":
            return "(%s %s)" % (self.callee("fld_" + x[2], 1, "V"), self.e(x[1]))
        if k == "refmut":
            return self.e(x[1], res)
        if k == "cast":
            return "(%s %s)" % (self.callee("as_" + ident(x[2]), 1, "V"), self.e(x[1]))
        if k == "un" and x[1] in ("!", "-"):
            return "(%s %s)" % (self.callee("op_not" if x[1] == "!" else "op_neg", 1, "V"), self.e(x[2]))
        if k == "bin" and x[1] in self.BINOPS:
            return "(%s %s %s)" % (self.callee("op_" + self.BINOPS[x[1]], 2, "V"), self.e(x[2]), self.e(x[3]))
        self.err("expression kind %s outside the subset" % k)

    BINOPS = {"+": "add", "-": "sub", "*": "mul", "/": "div", "%": "rem"}

    def root(self, place):
        while place[0] == "field":
            place = place[1]
        n = ident(place[1][0])
        if n not in self.locals:
            self.err("assignment to the unbound name %s" % n)
        if n == "self" and not (self.mut_self or self.self_by_value):
            self.err("assignment through `&self`")
        return n

    def assign(self, s, out):
        place = s[1] if s[0] == "assignp" else s[2]
        rhs = self.hoist(s[2] if s[0] == "assignp" else s[3], out)
        r = self.root(place)
        fields = []
        p = place
        while p[0] == "field":
            fields.append(p[2])
            p = p[1]
        fields.reverse()
        v = self.e(rhs)
        if s[0] == "assignop":
            if s[1] not in self.BINOPS:
                self.err("compound assignment %s=" % s[1])
            v = "(%s %s %s)" % (self.callee("op_" + self.BINOPS[s[1]], 2, "V"), self.e(place), v)
        if not fields:
            return "let %s := %s" % (r, v)
        return "let %s := (%s %s %s)" % (r, self.callee("upd_" + "_".join(fields), 2, "V"), r, v)

    def hoist(self, x, out):
        """`self.$method(args)` on a `&mut self` receiver where `$method` is the fn being defined (the same trait method
        at another operand type): state passing — bind the new `self` (and the result) first"""
        if x[0] == "mcall":
            if self.mut_self and x[2] == self.fn_name and x[1][0] == "path" and x[1][1] == ["self"]:
                a = ["self"] + [self.e(i) for i in x[3]]
                if self.has_result:
                    self.tmp += 1
                    t = "r%d" % self.tmp
                    self.locals.add(t)
                    f = self.callee(self.meta(x[2]), len(a), "V × V")
                    out.append("let (self, %s) := (%s %s)" % (t, f, " ".join(a)))
                    return ("path", [t])
                f = self.callee(self.meta(x[2]), len(a), "V")
                out.append("let self := (%s %s)" % (f, " ".join(a)))
                return ("unit",)
            return ("mcall", self.hoist(x[1], out), x[2], x[3])
        return x

    def body(self, b):
        _, stmts, tail = b
        out = []
        if tail is not None and tail[0] == "if" and tail[3] is None:
            stmts, tail = list(stmts) + [("expr", tail)], None           # a trailing `if c { x op= e; }` is a statement
        for s in stmts:
            if s[0] == "let":
                rhs = self.e(self.hoist(s[2], out), self.width(s[1]))
                out.append("let %s := %s" % (self.pat(s[1]), rhs))
            elif s[0] in ("assignp", "assignop"):
                out.append(self.assign(s, out))
            elif s[0] == "expr" and s[1][0] == "if" and s[1][3] is None and s[1][2][2] is None and s[1][2][1] \
                    and all(t[0] in ("assignp", "assignop") for t in s[1][2][1]):
                # `if c { place op= e; … }` on ONE root variable: the new value of that variable
                inner = []
                roots = set()
                cond = self.e(s[1][1])
                for t in s[1][2][1]:
                    inner.append(self.assign(t, inner))
                    roots.add(self.root(t[1] if t[0] == "assignp" else t[2]))
                if len(roots) != 1:
                    self.err("conditional assignment to more than one variable")
                r = roots.pop()
                out.append("let %s := (%s %s (%s; %s) %s)" % (r, self.callee("ite_", 3, "V"), cond, "; ".join(inner), r, r))
            elif s[0] == "expr":
                v = self.hoist(s[1], out)
                if v == ("unit",):
                    continue
                if v[0] == "call" and v[1][0] == "path" and v[1][1][-1].startswith("assert_"):
                    # a guard (`assert_finite_operands(&a, &b);`): its value is kept and returned beside the result
                    self.tmp += 1
                    g = "g%d" % self.tmp
                    self.locals.add(g)
                    self.guards.append(g)
                    out.append("let %s := %s" % (g, self.e(v)))
                    continue
                self.err("expression statement without effect on `self`")
            else:
                self.err("statement %s outside the subset" % s[0])
        val = None
        if tail is not None:
            v = self.hoist(tail, out)
            if v != ("unit",):
                val = self.e(v, "O" if v[0] == "macro" else "V")
        if self.has_result and val is None:
            self.err("fn with a result type but without a tail expression")
        if self.mut_self:
            val = "(self, %s)" % val if val is not None else "self"
        elif val is None:
            self.err("fn without value")
        if self.guards:
            val = "(%s, [%s])" % (val, ", ".join(self.guards))
        return out, val


def form_tag(lhs, rhs, self_kind):
    l = "mut" if self_kind == "mut" else ("ref" if lhs.startswith("&") else "val")
    r = "ref" if (rhs or "").startswith("&") else "val"
    return l + "_" + r


FORMS_FNS = [
    # accessors whose by-value / by-reference variants the macro bodies mix: (definition, file, anchor, fn)
    ("q_RBig_into_parts", "rational/src/rbig.rs", r"\nimpl RBig \{", "into_parts"),
    ("q_RBig_numerator", "rational/src/rbig.rs", r"\nimpl RBig \{", "numerator"),
    ("q_RBig_denominator", "rational/src/rbig.rs", r"\nimpl RBig \{", "denominator"),
    ("q_Relaxed_into_parts", "rational/src/rbig.rs", r"\nimpl Relaxed \{", "into_parts"),
    ("q_Relaxed_numerator", "rational/src/rbig.rs", r"\nimpl Relaxed \{", "numerator"),
    ("q_Relaxed_denominator", "rational/src/rbig.rs", r"\nimpl Relaxed \{", "denominator"),
]
# ordinary source files: their own impl-generating macros and their hand-written operator impls
FORMS_FILES = [
    ("f", "float/src/add.rs"), ("f", "float/src/mul.rs"), ("f", "float/src/div.rs"), ("f", "float/src/shift.rs"),
    ("f", "float/src/iter.rs"), ("q", "rational/src/iter.rs"), ("q", "rational/src/div.rs"), ("i", "integer/src/iter.rs"),
]
FORMS_TRAITS = {"Add", "Sub", "Mul", "Div", "Rem", "AddAssign", "SubAssign", "MulAssign", "DivAssign", "RemAssign",
                "Shl", "Shr", "ShlAssign", "ShrAssign", "DivEuclid", "RemEuclid", "DivRemEuclid", "DivRem", "DivRemAssign",
                "Inverse", "Sum", "Product"}


def form_def(prefix_where, header, ibody, lean_name, doc_head):
    """one impl item -> (Lean text, sha1, form tag pieces) ; raises ExtractError outside the subset"""
    where = "%s `%s`" % (prefix_where, header)
    trait, rhs, lhs = impl_header(header, where)
    fn_name, params, has_result, btext = impl_fn(ibody, where)
    self_kind = dict(params).get("self")
    try:
        ps = PF(tokenize(btext))
        blk = ps.block()
        if ps.peek()[0] != "eof":
            raise ExtractError("trailing tokens after the body")
    except IndexError:
        raise ExtractError("%s: translator cannot read this body" % where)
    except ExtractError as e:
        raise ExtractError("%s: translator cannot read this body: %s" % (where, e))
    tr = FormTr(where, fn_name, self_kind == "mut", has_result)
    tr.self_by_value = self_kind == "val"
    for nm, _ in params:
        tr.locals.add(ident(nm))
    lets, val = tr.body(blk)
    sig = " ".join("(%s : %s)" % (n, t) for n, t in tr.params)
    sig += (" " if sig else "") + " ".join("(%s : V)" % ident(nm) for nm, _ in params)
    h = hashlib.sha1((header + ibody).encode()).hexdigest()[:12]
    doc = "/-- %s: `%s` — `fn %s(%s)%s`, sha1 %s%s -/" % (
        doc_head, header, fn_name, ", ".join(("&mut self" if k == "mut" else n) for n, k in params),
        " -> _" if has_result else "", h, ("; conversion `%s::from`" % tr.from_ty) if tr.from_ty else "")
    text = "".join("    %s\n" % l for l in lets) + "    %s" % val
    return "%s\ndef %s %s :=\n%s\n" % (doc, lean_name, sig, text), h


def _macro_forms(prefix, rel, src, out, info, table):
    """every impl-generating `macro_rules!` of one file"""
    for mac in re.findall(r"macro_rules!\s+(\w+)\s*\{", src):
        rules = macro_rules_all(src, mac, rel)
        if not any(re.search(r"\bimpl\b[^;{}()]*\bfor\b[^;{}()]*\{", re.sub(r"//[^\n]*", "", body)) for _, body in rules):
            continue                      # not an impl-generating macro (assertion helpers, lists of invocations, …)
        bearing = []
        for ri, (pat, body) in enumerate(rules, 1):
            items = rule_items(body, "%s `%s` rule %d" % (rel, mac, ri))
            if any(it[0] == "impl" for it in items):
                bearing.append((ri, items))
            elif not items:
                raise ExtractError("%s `%s` rule %d: empty rule" % (rel, mac, ri))
        for ri, items in bearing:
            stem = "%s_%s" % (prefix, mac) + ("_r%d" % ri if len(bearing) > 1 else "")
            invokes = [it[1] for it in items if it[0] == "invoke"]
            forms = []
            for it in items:
                if it[0] != "impl":
                    continue
                where = "%s `%s` rule %d" % (rel, mac, ri)
                trait, rhs, lhs = impl_header(it[1], where)
                _, params, _, _ = impl_fn(it[2], where + " `%s`" % it[1])
                self_kind = dict(params).get("self")
                if self_kind is None:
                    tag = "fn"
                else:
                    tag = form_tag(lhs, rhs, self_kind)
                lean_name = "%s_%s" % (stem, tag)
                if lean_name in info:
                    raise ExtractError("%s `%s`: second impl of the form %s in one rule" % (where, it[1], tag))
                text, h = form_def(where, it[1], it[2], lean_name, where)
                out.append(text)
                info[lean_name] = h
                forms.append(tag)
            table.append((stem, rel, mac, ri, forms, invokes))


def _handwritten_forms(prefix, rel, src, out, info, table, skipped):
    """hand-written (top-level) operator impls of one file; a body outside the subset is listed, not translated"""
    groups = {}
    for m in re.finditer(r"(?m)^impl\b", src):
        b0 = src.index("{", m.start())
        header = " ".join(src[m.start():b0].split())
        try:
            trait, rhs, lhs = impl_header(header, rel)
        except ExtractError:
            continue
        if trait not in FORMS_TRAITS:
            continue
        b1 = balanced(src, b0)
        ibody = src[b0 + 1:b1 - 1]
        where = "%s:%d" % (rel, line_of(src, m.start()))
        try:
            _, params, _, _ = impl_fn(ibody, where)
            self_kind = dict(params).get("self")
            tag = form_tag(lhs, rhs, self_kind) if self_kind else "fn"
            base = re.sub(r"^&\s*(?:'\w+\s+)?", "", lhs).split("<")[0].strip()
            stem = "%s_%s" % (prefix, trait) + ("" if base == "FBig" else "_" + base)
            lean_name = "%s_%s" % (stem, tag)
            if lean_name in info:
                raise ExtractError("second hand-written impl of %s %s" % (trait, tag))
            text, h = form_def(where, header, ibody, lean_name, where)
        except ExtractError as e:
            skipped.append((rel, header, str(e)))
            continue
        out.append(text)
        info[lean_name] = h
        groups.setdefault(stem, []).append(tag)
    for stem, forms in groups.items():
        table.append((stem, rel, "", 0, forms, []))


def _gen_forms_glue():
    out = ["/-! GENERATED by vlib/extract.py from /repo — do not edit.  The `fn` bodies of the ownership-form impls stamped out by",
           "    the `helper_macros.rs` of dashu-ratio (`q_`), dashu-float (`f_`), dashu-int (`i_`), by the impl-generating macros of",
           "    the operator files, and of the hand-written operator impls of those files: one definition per impl, over an",
           "    abstract value domain `V` (results of `$impl!` cores: `O`; macro tokens handed on: `M`).  Callees (methods,",
           "    `$metavariable` methods, cores, conversions, constructors, field projections `fld_x`, operators `op_add` …) are",
           "    parameters; `&`, `*`, `.clone()`, `core::mem::take` are erased; `&mut self` is state passing (new `self` first);",
           "    `assert_*(…);` guards are returned in a list beside the result. -/",
           "namespace Dashu.Gen", "set_option linter.unusedVariables false", "variable {V O M : Type}", ""]
    info, table, skipped = {}, [], []
    for prefix, rel in FORMS_SOURCES:
        _macro_forms(prefix, rel, read(rel), out, info, table)
    for lean_name, rel, after, fn in FORMS_FNS:
        src = read(rel)
        m = re.search(after, src)
        if not m:
            raise ExtractError("%s: anchor %r not found" % (rel, after))
        m2 = re.compile(r"fn\s+%s\b" % re.escape(fn)).search(src, m.end())
        if not m2:
            raise ExtractError("%s: fn %s not found" % (rel, fn))
        b0 = src.index("{", m2.end())
        b1 = balanced(src, b0)
        where = "%s:%d" % (rel, line_of(src, m2.start()))
        text, h = form_def(where, "impl %s" % lean_name.split("_")[1] + " for " + lean_name.split("_")[1], src[m2.start():b1], lean_name, where)
        out.append(text)
        info[lean_name] = h
    for prefix, rel in FORMS_FILES:
        src = read(rel)
        _macro_forms(prefix, rel, src, out, info, table)
        _handwritten_forms(prefix, rel, src, out, info, table, skipped)
    out.append("/-- the families: (definition stem, file, macro (\"\" = hand-written impls), rule, forms, macros invoked beside the impls) -/")
    out.append("def forms_glue_rules : List (String × String × String × Nat × List String × List String) := [")
    out.append(",\n".join("    (\"%s\", \"%s\", \"%s\", %d, [%s], [%s])" % (
        s, rel, mac, ri, ", ".join('"%s"' % f for f in forms), ", ".join('"%s"' % v for v in inv))
        for s, rel, mac, ri, forms, inv in table))
    out.append("  ]\n")
    out.append("/-- hand-written operator impls whose body is outside the subset of this translator (file, impl header, reason) -/")
    out.append("def forms_glue_untranslated : List (String × String × String) := [")
    out.append(",\n".join("    (\"%s\", \"%s\", \"%s\")" % (r, h.replace('"', "'"), e.replace('"', "'").replace("\\", "/")) for r, h, e in skipped))
    out.append("  ]\n")
    out.append("end Dashu.Gen")
    return "\n".join(out) + "\n", info


def gen_forms_glue():
    try:
        return _gen_forms_glue()
    except ExtractError:
        raise
    except Exception as e:                 # fail closed, never take another property's regeneration down
        raise ExtractError("forms glue: translator cannot read the source: %r" % (e,))


FILES = {"Glue.lean": gen_glue, "Round.lean": gen_round, "Misc.lean": gen_misc}
FILES["FormsGlue.lean"] = gen_forms_glue          # C15: ownership-form bodies (additive)


def gen_text_low():
    """C07: the constants and the statement skeleton of the lowest printing layer — the SWAR digit -> ASCII routine
    (integer/src/arch/generic/digits.rs), the `DigitCase` offsets (integer/src/radix.rs) and the `DigitWriter` buffer
    length (integer/src/fmt/digit_writer.rs).  Fails closed when the routine no longer has the shape the model mirrors."""
    def lit(s):
        return int(s.replace("_", ""), 0)

    def byte_expr(e, what):
        # `b'a' - b'0' - 10`: byte literals and integers joined by + / -
        toks = re.findall(r"b'(.)'|(0x[0-9a-fA-F_]+|\d[\d_]*)|([+-])|(\S)", e)
        val, sign = 0, 1
        for ch, num, op, other in toks:
            if other:
                raise ExtractError("%s: unexpected token %r in `%s`" % (what, other, e.strip()))
            if op:
                sign = 1 if op == "+" else -1
            else:
                val += sign * (ord(ch) if ch else lit(num))
                sign = 1
        if val < 0:
            raise ExtractError("%s: negative value of `%s`" % (what, e.strip()))
        return val

    out = ["/-! GENERATED by vlib/extract.py from /repo — do not edit.  C07: constants of the SWAR digit conversion",
           "    (arch/generic/digits.rs), of `DigitCase` (radix.rs) and of the `DigitWriter` buffer (fmt/digit_writer.rs). -/",
           "namespace Dashu.Gen", ""]
    info = {}
    rel = "integer/src/arch/generic/digits.rs"
    src = re.sub(r"//[^\n]*", "", read(rel))
    _, body = fn_body(src, "digit_chunk_raw_to_ascii")
    flat = re.sub(r"\s+", " ", body)
    pats = [
        ("swar_LANE_MAX", r"const ALL_ONES ?: ?Word ?= ?Word::MAX ?/ ?(0x[0-9a-fA-F_]+|\d+) ?;", "`ALL_ONES = Word::MAX / %s`"),
        ("swar_BIAS_SHIFT", r"if digit_case != DigitCase::NoLetters \{ let letters ?= ?\(\( ?(0x[0-9a-fA-F_]+|\d+) ?\* ?ALL_ONES ?\+ ?word ?\) ?>> ?(\d+) ?\) ?& ?ALL_ONES ?; word ?\+= ?letters ?\* ?\(digit_case as Word\) ?; \}",
         None),
        ("swar_ASCII_ZERO", r"word ?\+= ?ALL_ONES ?\* ?\((b'.'|0x[0-9a-fA-F_]+|\d+) as Word\) ?;", "`word += ALL_ONES * (%s as Word)`"),
    ]
    vals = {}
    for name, pat, doc in pats:
        m = re.search(pat, flat)
        if not m:
            raise ExtractError("digit_chunk_raw_to_ascii (%s): statement for %s not found — the SWAR routine changed shape" % (rel, name))
        vals[name] = m
    if not re.search(r"let mut word ?= ?Word::from_ne_bytes\(\*digits\) ?;", flat) or \
       not re.search(r"digits\.copy_from_slice\(&word\.to_ne_bytes\(\)\) ?;", flat):
        raise ExtractError("digit_chunk_raw_to_ascii (%s): from_ne_bytes / to_ne_bytes frame not found" % rel)
    if not re.search(r"pub const DIGIT_CHUNK_LEN ?: ?usize ?= ?WORD_BYTES ?;", re.sub(r"\s+", " ", src)):
        raise ExtractError("%s: DIGIT_CHUNK_LEN is not WORD_BYTES" % rel)
    lane = lit(vals["swar_LANE_MAX"].group(1))
    bias, shift = lit(vals["swar_BIAS_SHIFT"].group(1)), int(vals["swar_BIAS_SHIFT"].group(2))
    zero = byte_expr(vals["swar_ASCII_ZERO"].group(1), "swar_ASCII_ZERO")
    for lean_name, v, doc in (("swar_LANE_MAX", lane, "`ALL_ONES = Word::MAX / %s`" % vals["swar_LANE_MAX"].group(1)),
                              ("swar_BIAS", bias, "`(%s * ALL_ONES + word) >> %d` — the bias" % (vals["swar_BIAS_SHIFT"].group(1), shift)),
                              ("swar_SHIFT", shift, "`(%s * ALL_ONES + word) >> %d` — the shift" % (vals["swar_BIAS_SHIFT"].group(1), shift)),
                              ("swar_ASCII_ZERO", zero, "`word += ALL_ONES * (%s as Word)`" % vals["swar_ASCII_ZERO"].group(1))):
        out.append("/-- %s in %s `digit_chunk_raw_to_ascii` -/\ndef %s : Nat := %d\n" % (doc, rel, lean_name, v))
        info[lean_name] = v
    info["swar_body"] = hashlib.sha1(flat.encode()).hexdigest()[:12]
    # DigitCase discriminants
    rel = "integer/src/radix.rs"
    rsrc = re.sub(r"//[^\n]*", "", read(rel))
    m = re.search(r"pub enum DigitCase\s*\{([^}]*)\}", rsrc)
    if not m:
        raise ExtractError("enum DigitCase not found in %s" % rel)
    variants = dict((k, e) for k, e in re.findall(r"(\w+)\s*=\s*([^,}]+)", m.group(1)))
    if sorted(variants) != ["Lower", "NoLetters", "Upper"]:
        raise ExtractError("enum DigitCase in %s: unexpected variants %s" % (rel, sorted(variants)))
    for k in ("NoLetters", "Lower", "Upper"):
        v = byte_expr(variants[k], "DigitCase::" + k)
        out.append("/-- `DigitCase::%s = %s` in %s -/\ndef digitcase_%s : Nat := %d\n" % (k, variants[k].strip(), rel, k, v))
        info["digitcase_" + k] = v
    # DigitWriter buffer
    rel = "integer/src/fmt/digit_writer.rs"
    wsrc = re.sub(r"//[^\n]*", "", read(rel))
    v = const_value(wsrc, "BUFFER_LEN_MIN", rel)
    if not re.search(r"const BUFFER_LEN ?: ?usize ?= ?math::round_up_usize\(BUFFER_LEN_MIN, ?arch::digits::DIGIT_CHUNK_LEN\) ?;",
                     re.sub(r"\s+", " ", wsrc)):
        raise ExtractError("%s: BUFFER_LEN is not round_up_usize(BUFFER_LEN_MIN, DIGIT_CHUNK_LEN)" % rel)
    out.append("/-- `BUFFER_LEN_MIN` in %s (`BUFFER_LEN = round_up_usize(BUFFER_LEN_MIN, DIGIT_CHUNK_LEN)`) -/\ndef digit_writer_BUFFER_LEN_MIN : Nat := %d\n" % (rel, v))
    info["digit_writer_BUFFER_LEN_MIN"] = v
    out.append("end Dashu.Gen")
    return "\n".join(out) + "\n", info


FILES["TextLow.lean"] = gen_text_low              # C07: SWAR / DigitCase / DigitWriter constants (additive)


def gen_modular():
    """C13: decision logic of the multi-word reduced ring (integer/src/modular/{mul,pow,div}.rs) that the hand-written model
    `lean/Dashu/Model/NT/{Modular,ModInvLarge}.lean` mirrors — the "needs a long division" tests of `mul_normalized` /
    `sqr_normalized`, the cost model / loop guard / stop test / start value of `choose_pow_window_len`, and the `match raw_len`
    dispatch + the "gcd == 1" test of `inv_large`.  `Props/C13` proves the model equal to these regenerated definitions.
    Fails closed when a routine no longer has the shape the model mirrors."""
    out = ["import Dashu.Model.GluePrelude",
           "/-! GENERATED by vlib/extract.py from /repo — do not edit.  Decision logic of integer/src/modular (C13). -/",
           "namespace Dashu.Gen.Modular", "open Dashu", "set_option linter.unusedVariables false", ""]
    info = {}

    def strip_comments(t):
        return re.sub(r"//[^\n]*", "", t)

    def h(t):
        return hashlib.sha1(t.encode()).hexdigest()[:12]

    msrc = read("integer/src/modular/mul.rs")
    for fn, names, lean_name in (("mul_normalized", ["n", "na", "nb"], "mul_normalized_needs_division"),
                                 ("sqr_normalized", ["n", "na"], "sqr_normalized_needs_division")):
        _, body = fn_body(msrc, fn)
        body = strip_comments(body)
        mm = re.search(r"\bif\s+([^{};]+?)\s*\{\s*let\s+_overflow\s*=\s*div::div_rem_in_place\(", body)
        if not mm:
            raise ExtractError("integer/src/modular/mul.rs %s: `if … { let _overflow = div::div_rem_in_place(` not found" % fn)
        cond = mm.group(1).strip()
        if sorted(set(re.findall(r"\b[a-z_]\w*\b", cond))) != names:
            raise ExtractError("integer/src/modular/mul.rs %s: unexpected operands in the division test: %s" % (fn, cond))
        if len(re.findall(r"div::div_rem_in_place\(", body)) != 1:
            raise ExtractError("integer/src/modular/mul.rs %s: more than one long division" % fn)
        lean, _ = translate_body("{ " + cond + " }")
        out.append("/-- `%s` (integer/src/modular/mul.rs): the product goes through `div_rem_in_place` iff `%s`\n    (otherwise one conditional subtraction) -/" % (fn, cond))
        out.append("def %s (%s : Int) : Bool :=\n    %s\n" % (lean_name, " ".join(names), lean))
        info["Modular." + lean_name] = h(cond)

    psrc = read("integer/src/modular/pow.rs")
    _, body = fn_body(psrc, "choose_pow_window_len")
    body = strip_comments(body)
    mm = re.search(r"let\s+cost\s*=\s*\|window_size\|\s*\(1usize\s*<<\s*\(window_size\s*-\s*(\d+)\)\)\s*-\s*(\d+)\s*\+\s*n\s*/\s*"
                   r"\(window_size\s+as\s+usize\s*\+\s*(\d+)\)\s*;", body)
    if not mm:
        raise ExtractError("integer/src/modular/pow.rs choose_pow_window_len: cost closure is not "
                           "`|window_size| (1usize << (window_size - a)) - b + n / (window_size as usize + c)`")
    c1, c2, c3 = (int(x) for x in mm.groups())
    out.append("/-- cost model of `choose_pow_window_len` (integer/src/modular/pow.rs): `%s` -/" % mm.group(0).strip())
    out.append("def pow_window_cost (window_size n : Nat) : Nat :=\n    2 ^ (window_size - %d) - %d + n / (window_size + %d)\n" % (c1, c2, c3))
    info["Modular.pow_window_cost"] = h(mm.group(0))
    mi = re.search(r"let\s+mut\s+window_size\s*=\s*(\d+)\s*;", body)
    mw = re.search(r"\bwhile\s+([^{};]+?)\s*\{", body)
    mb = re.search(r"\bif\s+([^{};]+?)\s*\{\s*break\s*;", body)
    ms = re.search(r"window_size\s*\+=\s*(\d+)\s*;", body)
    if not (mi and mw and mb and ms) or len(re.findall(r"\bwhile\b", body)) != 1 or not re.search(r"let\s+c2\s*=\s*cost\(window_size\s*\+\s*1\)\s*;", body) \
            or not re.search(r"let\s+mut\s+c\s*=\s*cost\(window_size\)\s*;", body) or int(ms.group(1)) != 1:
        raise ExtractError("integer/src/modular/pow.rs choose_pow_window_len: loop no longer has the shape "
                           "`let mut window_size = k; let mut c = cost(window_size); while G { let c2 = cost(window_size + 1); if S { break; } window_size += 1; c = c2; }`")
    wcond = mw.group(1).strip().replace("usize::BIT_SIZE", "USIZE_BITS")
    if sorted(set(re.findall(r"\b[A-Za-z_]\w*\b", wcond))) != ["USIZE_BITS", "WORD_BITS", "min", "window_size"]:
        raise ExtractError("choose_pow_window_len: unexpected operands in the loop guard: %s" % mw.group(1))
    lean, _ = translate_body("{ " + wcond + " }")
    out.append("/-- loop guard of `choose_pow_window_len`: `%s` -/" % mw.group(1).strip())
    out.append("def pow_window_continue (window_size WORD_BITS USIZE_BITS : Int) : Bool :=\n    %s\n" % lean)
    bcond = mb.group(1).strip()
    if sorted(set(re.findall(r"\b[a-z_]\w*\b", bcond))) != ["c", "c2"]:
        raise ExtractError("choose_pow_window_len: unexpected operands in the stop test: %s" % bcond)
    lean, _ = translate_body("{ " + bcond + " }")
    out.append("/-- stop test of `choose_pow_window_len` (`c` = cost of the current window, `c2` = of the next): `%s` -/" % bcond)
    out.append("def pow_window_stop (c c2 : Int) : Bool :=\n    %s\n" % lean)
    out.append("/-- start value of `window_size` in `choose_pow_window_len` -/\ndef pow_window_init : Nat := %d\n" % int(mi.group(1)))
    info["Modular.pow_window_loop"] = h(wcond + "|" + bcond + "|" + mi.group(1))

    dsrc = read("integer/src/modular/div.rs")
    _, body = fn_body(dsrc, "inv_large")
    body = strip_comments(body)
    mm = re.search(r"\bmatch\s+raw_len\s*\{", body)
    if not mm:
        raise ExtractError("integer/src/modular/div.rs inv_large: `match raw_len {` not found")
    block = body[mm.end():balanced(body, mm.end() - 1) - 1]
    heads = list(re.finditer(r"(?m)^\s*(\d+|_)\s*=>", block))
    arms = []
    for i, hd in enumerate(heads):
        seg = block[hd.end():heads[i + 1].start() if i + 1 < len(heads) else len(block)]
        k = re.search(r"gcd::(gcd_ext_\w+)\(", seg)
        if k:
            arms.append((hd.group(1), k.group(1)))
        elif re.match(r"\s*return\s+None\s*,", seg):
            arms.append((hd.group(1), "None"))
        else:
            raise ExtractError("inv_large: arm `%s =>` neither returns None nor calls a gcd::gcd_ext_* kernel" % hd.group(1))
    pats = [a for a, _ in arms]
    if not pats or pats[-1] != "_" or pats[:-1] != [str(i) for i in range(len(pats) - 1)]:
        raise ExtractError("inv_large: `match raw_len` arms are not 0, 1, …, k, _ : %s" % pats)
    out.append("/-- `match raw_len { … }` of `inv_large` (integer/src/modular/div.rs): which extended-gcd kernel runs for a residue of\n    `raw_len` words (`None`: no inverse without calling a kernel) -/")
    lines = ["def inv_large_arm (raw_len : Nat) : String :=", "    match raw_len with"]
    for a, kname in arms[:-1]:
        lines.append("    | %s => \"%s\"" % (a, kname))
    lines.append("    | _ => \"%s\"" % arms[-1][1])
    out.append("\n".join(lines) + "\n")
    info["Modular.inv_large_arm"] = h(repr(arms))
    mo = re.search(r"\(\s*(g_len\s*==\s*\d+\s*&&\s*\*raw\.0\.first\(\)\.unwrap\(\)\s*==\s*\d+)\s*,\s*b_sign\s*\)", block)
    if not mo:
        raise ExtractError("inv_large: the multi-word arm no longer ends in `(g_len == 1 && *raw.0.first().unwrap() == 1, b_sign)`")
    ocond = mo.group(1).replace("*raw.0.first().unwrap()", "raw0")
    lean, _ = translate_body("{ " + ocond + " }")
    out.append("/-- \"the gcd is one\" in the `gcd_ext_in_place` arm of `inv_large` (`raw0` = lowest word of the gcd left in `raw`): `%s` -/" % mo.group(1))
    out.append("def inv_large_gcd_is_one (g_len raw0 : Int) : Bool :=\n    %s\n" % lean)
    info["Modular.inv_large_gcd_is_one"] = h(ocond)
    small = re.findall(r"\(\s*g\s*==\s*(\d+)\s*,\s*b_sign\s*\)", block)
    if small != ["1"] * (len(arms) - 2):
        raise ExtractError("inv_large: the word / double-word arms no longer end in `(g == 1, b_sign)`")
    out.append("end Dashu.Gen.Modular")
    return "\n".join(out) + "\n", info


FILES["Modular.lean"] = gen_modular               # C13: reduced-ring decision logic (additive)


def gen_modular_buf():
    """C13 (round 5): buffer-level decision logic of the multi-word ring that `lean/Dashu/Model/NT/ModLargeK.lean` mirrors —
    `ConstLargeDivisor::rem_large` (integer/src/div_const.rs): the "long enough to divide" test; `mul_normalized` /
    `sqr_normalized` (integer/src/modular/mul.rs): the length of the product buffer, the "nothing to multiply" early return
    and the one-word-by-one-word shortcut.  `Props/C13Link` proves the model's tests equal to these regenerated definitions.
    Fails closed when a routine no longer has the shape the model mirrors."""
    out = ["import Dashu.Model.GluePrelude",
           "/-! GENERATED by vlib/extract.py from /repo — do not edit.  Buffer-level decision logic of the multi-word reduced ring (C13). -/",
           "namespace Dashu.Gen.ModularBuf", "open Dashu", "set_option linter.unusedVariables false", ""]
    info = {}

    def strip_comments(t):
        return re.sub(r"//[^\n]*", "", t)

    def h(t):
        return hashlib.sha1(t.encode()).hexdigest()[:12]

    dsrc = read("integer/src/div_const.rs")
    _, body = fn_body(dsrc, "rem_large", after=r"impl\s+ConstLargeDivisor\s*\{")
    body = strip_comments(body)
    mm = re.search(r"\bif\s+([^{};]+?)\s*\{\s*let\s+mut\s+allocation\b", body)
    if not mm or len(re.findall(r"\bif\b", body)) != 1 or len(re.findall(r"div::div_rem_in_place\(", body)) != 1:
        raise ExtractError("integer/src/div_const.rs ConstLargeDivisor::rem_large: `if … { let mut allocation … div::div_rem_in_place(` not found exactly once")
    cond = mm.group(1).strip()
    if not re.search(r"let\s+modulus\s*=\s*&self\.normalized_divisor\s*;", body) or not re.search(r"words\.push_resizing\(carry\)\s*;", body) \
            or not re.search(r"words\.truncate\(modulus\.len\(\)\)\s*;", body):
        raise ExtractError("integer/src/div_const.rs ConstLargeDivisor::rem_large: push_resizing(carry) / modulus / truncate(modulus.len()) shape changed")
    c2 = cond.replace("words.len()", "words_len").replace("modulus.len()", "modulus_len")
    if sorted(set(re.findall(r"\b[a-z_]\w*\b", c2))) != ["modulus_len", "words_len"]:
        raise ExtractError("integer/src/div_const.rs ConstLargeDivisor::rem_large: unexpected operands in the division test: %s" % cond)
    lean, _ = translate_body("{ " + c2 + " }")
    out.append("/-- `ConstLargeDivisor::rem_large` (integer/src/div_const.rs): the shifted buffer (after `push_resizing(carry)`) goes through\n    `div_rem_in_place` and is truncated iff `%s` -/" % cond)
    out.append("def rem_large_divides (words_len modulus_len : Int) : Bool :=\n    %s\n" % lean)
    info["ModularBuf.rem_large_divides"] = h(cond)

    msrc = read("integer/src/modular/mul.rs")
    for fn, names, zero_names in (("mul_normalized", ["n", "na", "nb"], ["na", "nb"]), ("sqr_normalized", ["n", "na"], ["na"])):
        _, body = fn_body(msrc, fn)
        body = strip_comments(body)
        ml = re.search(r"allocate_slice_fill::<Word>\(\s*([^;]+?)\s*,\s*0\s*\)\s*;", body)
        if not ml:
            raise ExtractError("integer/src/modular/mul.rs %s: product buffer allocation not found" % fn)
        lexp = ml.group(1).strip()
        if sorted(set(re.findall(r"\b[a-z_]\w*\b", lexp)) - {"max"}) != names:
            raise ExtractError("integer/src/modular/mul.rs %s: unexpected operands in the buffer length: %s" % (fn, lexp))
        lean, _ = translate_body("{ " + lexp + " }")
        out.append("/-- `%s` (integer/src/modular/mul.rs): number of words of the product buffer, `%s` -/" % (fn, lexp))
        out.append("def %s_buffer_len (%s : Int) : Int :=\n    %s\n" % (fn, " ".join(names), lean))
        info["ModularBuf.%s_buffer_len" % fn] = h(lexp)
        mz = re.search(r"\bif\s+([^{};]+?)\s*\{\s*return\s+product\s*;\s*\}\s*else\s+if\s+([^{};]+?)\s*\{", body)
        if not mz:
            raise ExtractError("integer/src/modular/mul.rs %s: `if … { return product; } else if … {` not found" % fn)
        zc, oc = mz.group(1).strip(), mz.group(2).strip()
        mo = re.fullmatch(r"(\w+)\s*\|\s*(\w+)\s*==\s*0", zc)
        if mo:      # Rust: `|` binds tighter than `==`
            if [mo.group(1), mo.group(2)] != zero_names:
                raise ExtractError("integer/src/modular/mul.rs %s: unexpected early-return test: %s" % (fn, zc))
            zlean = "(GluePrelude.eq_ (GluePrelude.bitor %s %s) (0))" % (mo.group(1), mo.group(2))
        else:
            if sorted(set(re.findall(r"\b[a-z_]\w*\b", zc))) != zero_names:
                raise ExtractError("integer/src/modular/mul.rs %s: unexpected early-return test: %s" % (fn, zc))
            zlean, _ = translate_body("{ " + zc + " }")
        out.append("/-- `%s`: the zero-filled buffer is returned at once iff `%s` -/" % (fn, zc))
        out.append("def %s_is_zero (%s : Int) : Bool :=\n    %s\n" % (fn, " ".join(zero_names), zlean))
        info["ModularBuf.%s_is_zero" % fn] = h(zc)
        if sorted(set(re.findall(r"\b[a-z_]\w*\b", oc))) != zero_names:
            raise ExtractError("integer/src/modular/mul.rs %s: unexpected one-word shortcut test: %s" % (fn, oc))
        olean, _ = translate_body("{ " + oc + " }")
        out.append("/-- `%s`: the product is formed by one `extend_word` multiplication iff `%s` (else `mul::multiply` / `sqr::sqr`) -/" % (fn, oc))
        out.append("def %s_one_word (%s : Int) : Bool :=\n    %s\n" % (fn, " ".join(zero_names), olean))
        info["ModularBuf.%s_one_word" % fn] = h(oc)
    out.append("end Dashu.Gen.ModularBuf")
    return "\n".join(out) + "\n", info


FILES["ModularBuf.lean"] = gen_modular_buf        # C13 round 5: buffer-level decision logic of rem_large / mul_normalized (additive)


def gen_modular_add():
    """C13 (round 6): decision logic of integer/src/modular/add.rs on the multi-word ring, mirrored on buffers by
    `lean/Dashu/Model/NT/ModAddK.lean` — when `add_in_place` / `dbl_in_place` subtract the modulus, when `sub_in_place` /
    `sub_in_place_swap` add it back, when `negate_in_place` subtracts from the modulus.  The word loops called, their argument
    order and the debug assertions are checked as a fixed shape (fails closed when a routine no longer has it); the conditions are
    regenerated.  `Props/C13Link.add_logic_gen` proves the model's tests equal to these definitions."""
    out = ["/-! GENERATED by vlib/extract.py from /repo — do not edit.  Decision logic of integer/src/modular/add.rs on the multi-word reduced ring (C13). -/",
           "namespace Dashu.Gen.ModularAdd", ""]
    info = {}
    src = read("integer/src/modular/add.rs")
    ORD = {"is_ge": "isGE", "is_gt": "isGT", "is_le": "isLE", "is_lt": "isLT", "is_eq": "isEq", "is_ne": "isNe"}

    def body_of(fn):
        _, body = fn_body(src, fn)
        return re.sub(r"//[^\n]*", "", body)

    def boolean(cond, atoms, what):
        """a condition over the given atoms with `||`, `&&`, `!`, parentheses and `c.is_xx()` -> Lean (same precedences)"""
        toks = re.findall(r"\|\||&&|!|\(|\)|c\.is_\w+\(\)|\w+|\S", cond)
        res = []
        for t in toks:
            if t in ("||", "&&", "!", "(", ")"):
                res.append(t)
            elif t in atoms:
                res.append(t)
            elif re.fullmatch(r"c\.(is_\w+)\(\)", t) and "c" in atoms and t[2:-2] in ORD:
                res.append("c." + ORD[t[2:-2]])
            else:
                raise ExtractError("integer/src/modular/add.rs %s: unexpected token `%s` in the test `%s`" % (what, t, cond))
        txt = " ".join(res).replace("( ", "(").replace(" )", ")").replace("! ", "!")
        return "(" + txt + ")"

    def h(t):
        return hashlib.sha1(t.encode()).hexdigest()[:12]

    for fn, buf, first in (("add_in_place", "lhs.0", r"let\s+overflow\s*=\s*add::add_same_len_in_place\(\s*&mut\s+lhs\.0\s*,\s*&rhs\.0\s*\)\s*;"),
                           ("dbl_in_place", "raw.0", r"let\s+overflow\s*=\s*shift::shl_in_place\(\s*&mut\s+raw\.0\s*,\s*1\s*\)\s*>\s*0\s*;")):
        body = body_of(fn)
        mm = re.search(r"\bif\s+([^{};]+?)\s*\{\s*let\s+overflow2\s*=\s*add::sub_same_len_in_place\(\s*&mut\s+%s\s*,\s*modulus\s*\)\s*;\s*"
                       r"debug_assert_eq!\(\s*overflow\s*,\s*overflow2\s*\)\s*;\s*\}" % re.escape(buf), body)
        if not mm or len(re.findall(r"\bif\b", body)) != 1 or not re.search(first, body) \
                or not re.search(r"let\s+modulus\s*=\s*&ring\.normalized_divisor\s*;", body) or len(re.findall(r"\blet\b", body)) != 3:
            raise ExtractError("integer/src/modular/add.rs %s: shape `let modulus; let overflow = …; if … { let overflow2 = sub_same_len_in_place(.., modulus); debug_assert_eq!(overflow, overflow2); }` changed" % fn)
        cond = mm.group(1).strip()
        c2, k = re.subn(r"cmp::cmp_same_len\(\s*&%s\s*,\s*modulus\s*\)" % re.escape(buf), "c", cond)
        if k > 1:
            raise ExtractError("integer/src/modular/add.rs %s: more than one comparison in `%s`" % (fn, cond))
        lean = boolean(c2, ["overflow", "c"], fn)
        out.append("/-- `%s` (integer/src/modular/add.rs): the modulus is subtracted once iff `%s`\n    (`overflow` = carry out of the top word, `c` = `cmp_same_len(&%s, modulus)`) -/" % (fn, cond, buf))
        out.append("def %s_subtracts (overflow : Bool) (c : Ordering) : Bool :=\n    %s\n" % (fn, lean))
        info["ModularAdd.%s_subtracts" % fn] = h(cond)

    for fn, first, buf in (("sub_in_place", r"let\s+overflow\s*=\s*add::sub_same_len_in_place\(\s*&mut\s+lhs\.0\s*,\s*&rhs\.0\s*\)\s*;", "lhs.0"),
                           ("sub_in_place_swap", r"let\s+overflow\s*=\s*add::sub_same_len_in_place_swap\(\s*&lhs\.0\s*,\s*&mut\s+rhs\.0\s*\)\s*;", "rhs.0")):
        body = body_of(fn)
        mm = re.search(r"\bif\s+([^{};]+?)\s*\{\s*let\s+overflow2\s*=\s*add::add_same_len_in_place\(\s*&mut\s+%s\s*,\s*modulus\s*\)\s*;\s*"
                       r"debug_assert!\(\s*overflow2\s*\)\s*;\s*\}" % re.escape(buf), body)
        if not mm or len(re.findall(r"\bif\b", body)) != 1 or not re.search(first, body) \
                or not re.search(r"let\s+modulus\s*=\s*&ring\.normalized_divisor\s*;", body) or len(re.findall(r"\blet\b", body)) != 3:
            raise ExtractError("integer/src/modular/add.rs %s: shape `let modulus; let overflow = …; if … { let overflow2 = add_same_len_in_place(.., modulus); debug_assert!(overflow2); }` changed" % fn)
        cond = mm.group(1).strip()
        lean = boolean(cond, ["overflow"], fn)
        out.append("/-- `%s` (integer/src/modular/add.rs): the modulus is added back iff `%s` (`overflow` = borrow out of the top word) -/" % (fn, cond))
        out.append("def %s_adds_back (overflow : Bool) : Bool :=\n    %s\n" % (fn, lean))
        info["ModularAdd.%s_adds_back" % fn] = h(cond)

    body = body_of("negate_in_place")
    mm = re.search(r"\bif\s+([^{};]+?)\s*\{\s*let\s+overflow\s*=\s*add::sub_same_len_in_place_swap\(\s*&ring\.normalized_divisor\s*,\s*&mut\s+raw\.0\s*\)\s*;\s*"
                   r"debug_assert!\(\s*!\s*overflow\s*\)\s*;\s*\}", body)
    if not mm or len(re.findall(r"\bif\b", body)) != 1 or len(re.findall(r"\blet\b", body)) != 1:
        raise ExtractError("integer/src/modular/add.rs negate_in_place: shape `if … { let overflow = sub_same_len_in_place_swap(&ring.normalized_divisor, &mut raw.0); debug_assert!(!overflow); }` changed")
    cond = mm.group(1).strip()
    c2, k = re.subn(r"raw\.0\.iter\(\)\.all\(\s*\|w\|\s*\*w\s*==\s*0\s*\)", "all_zero", cond)
    if k != 1:
        raise ExtractError("integer/src/modular/add.rs negate_in_place: the all-words-zero scan `raw.0.iter().all(|w| *w == 0)` not found exactly once in `%s`" % cond)
    lean = boolean(c2, ["all_zero"], "negate_in_place")
    out.append("/-- `negate_in_place` (integer/src/modular/add.rs): the residue is replaced by `modulus - residue` iff `%s`\n    (`all_zero` = `raw.0.iter().all(|w| *w == 0)`) -/" % cond)
    out.append("def negate_in_place_subtracts (all_zero : Bool) : Bool :=\n    %s\n" % lean)
    info["ModularAdd.negate_in_place_subtracts"] = h(cond)
    msrc = read("integer/src/modular/mul.rs")
    for fn in ("mul_normalized", "sqr_normalized"):
        _, body = fn_body(msrc, fn)
        body = re.sub(r"//[^\n]*", "", body)
        mms = re.findall(r"\bif\s+([^{};]+?)\s*\{\s*debug_assert_zero!\(\s*add::sub_same_len_in_place\(\s*product\s*,\s*modulus\s*\)\s*\)\s*;\s*\}", body)
        if len(mms) != 1 or len(re.findall(r"sub_same_len_in_place", body)) != 1 or len(re.findall(r"cmp::cmp_same_len\(", body)) != 1:
            raise ExtractError("integer/src/modular/mul.rs %s: shape `if … { debug_assert_zero!(add::sub_same_len_in_place(product, modulus)); }` changed" % fn)
        cond = mms[0].strip()
        c2, k = re.subn(r"cmp::cmp_same_len\(\s*product\s*,\s*modulus\s*\)", "c", cond)
        if k != 1:
            raise ExtractError("integer/src/modular/mul.rs %s: `cmp::cmp_same_len(product, modulus)` not found in `%s`" % (fn, cond))
        lean = boolean(c2, ["c"], fn)
        out.append("/-- `%s` (integer/src/modular/mul.rs), short product (`na + nb <= n` resp. `na * 2 <= n`): the modulus is subtracted once iff `%s`\n    (`c` = `cmp_same_len(product, modulus)`) -/" % (fn, cond))
        out.append("def %s_subtracts (c : Ordering) : Bool :=\n    %s\n" % (fn, lean))
        info["ModularAdd.%s_subtracts" % fn] = h(cond)
    out.append("end Dashu.Gen.ModularAdd")
    return "\n".join(out) + "\n", info


FILES["ModularAdd.lean"] = gen_modular_add        # C13 round 6: decision logic of modular/add.rs on buffers (additive)


# ------------------------------------------------------------------ C09: integer/src/math.rs helpers + the inline arms of bits.rs / shift_ops.rs
#                                                                    over CHECKED machine integers

class PM(P):
    """the first parser, but casts are kept: `e as T` -> ("cast", e, "T")"""
    def expr(self, minp=0, nostruct=False):
        lhs = self.unary(nostruct)
        while True:
            k, v = self.peek()
            if v == "as":
                self.next()
                lhs = ("cast", lhs, "::".join(self.path()))
                continue
            if v in self.BIN:
                p = self.BIN[v]
                if p < minp:
                    break
                self.next()
                rhs = self.expr(p + 1, nostruct)
                lhs = ("bin", v, lhs, rhs)
                continue
            break
        return lhs


class MachTr:
    """Rust integer code (let / if-else / arithmetic / shifts / casts / calls of already generated functions) ->
    a Lean `do` block in `Option` over `GluePrelude.MachInt` (checked operations).  Widths are Lean terms:
    `bits` (generic T), `U` (usize), `32` (u32), `W` (Word), `(2 * W)` (DoubleWord)."""
    WIDTH = {"T": "bits", "usize": "U", "u32": "32", "Word": "W", "DoubleWord": "(2 * W)"}
    NEEDS = {"T": "bits", "usize": "U", "Word": "W", "DoubleWord": "W"}

    def __init__(self, ns):
        self.sigs = {}          # generated function -> (width parameters, parameter names, result widths, Lean name)
        self.ns = ns

    def fail(self, msg):
        raise ExtractError("%s: %s" % (self.what, msg))

    def fresh(self):
        self.counter += 1
        return "t_%d" % self.counter

    def unify(self, a, b, ctx):
        if a is None:
            return b
        if b is None or a == b:
            return a
        self.fail("operands of different widths (%s, %s) in `%s`" % (a, b, ctx))

    CONSTS = {("T", "BIT_SIZE"): ("bits", "32"), ("Word", "BIT_SIZE"): ("W", "32"), ("WORD_BITS",): ("W", "32"),
              ("DWORD_BITS",): ("(2 * W)", "32"), ("Word", "MAX"): ("(MachInt.maxVal W)", "W"),
              ("DoubleWord", "MAX"): ("(MachInt.maxVal (2 * W))", "(2 * W)"),
              ("WORD_BITS_USIZE",): ("W", "U"), ("DWORD_BITS_USIZE",): ("(2 * W)", "U"),
              ("true",): ("true", "Bool"), ("false",): ("false", "Bool")}

    def wof(self, e, env):
        """width of an expression without emitting anything (None: an untyped literal)"""
        k = e[0]
        if k == "num":
            return None
        if k == "path":
            p = tuple(e[1])
            if len(p) == 1 and p[0] in env:
                return env[p[0]]
            if p in self.CONSTS:
                return self.CONSTS[p][1]
            self.fail("name `%s` outside the subset" % "::".join(p))
        if k == "cast":
            if e[2] == "_":
                return None           # inferred from the context (the callee's parameter type)
            if e[2] not in self.WIDTH:
                self.fail("cast to `%s` outside the subset" % e[2])
            return self.WIDTH[e[2]]
        if k == "call" and e[1][0] == "path":
            f = tuple(e[1][1])
            if f == ("T", "from"):
                return "bits"
            if f in (("extend_word",), ("double_word",), ("Repr", "from_dword"), ("Repr", "zero"), ("Repr", "from_word"),
                     ("Self", "from_word"), ("Self", "from_dword")):
                return "(2 * W)"
            if f == ("split_dword",):
                return ("tuple", ["W", "W"])
            if len(f) == 1 and f[0] in self.sigs:
                rws = self.sigs[f[0]][2]
                return rws[0] if len(rws) == 1 else ("tuple", rws)
            self.fail("call of `%s` outside the subset" % "::".join(f))
        if k == "mcall":
            if e[2] == "leading_zeros":
                return "32"
            if e[2] == "min" and len(e[3]) == 1:
                return self.wof(e[1], env) or self.wof(e[3][0], env)
            self.fail("method `%s` outside the subset" % e[2])
        if k == "bin":
            if e[1] in ("==", "!=", "<", ">", "<=", ">=", "&&", "||"):
                return "Bool"
            if e[1] in ("<<", ">>"):
                return self.wof(e[2], env)
            return self.wof(e[2], env) or self.wof(e[3], env)
        if k == "un":
            return self.wof(e[2], env)
        if k == "tuple":
            return ("tuple", [self.wof(x, env) for x in e[1]])
        self.fail("expression form `%s` outside the subset" % k)

    def ex(self, e, env, lines, ind, expect=None):
        """-> (Lean atom, width term | None | 'Bool' | ('tuple', [...])); checked operations are bound in `lines`"""
        k = e[0]
        if k == "num":
            return str(int(re.sub(r"[iu](8|16|32|64|128|size)$", "", e[1]).replace("_", ""), 0)), expect
        if k == "path":
            p = tuple(e[1])
            if len(p) == 1 and p[0] in env:
                return p[0], env[p[0]]
            if p in self.CONSTS:
                return self.CONSTS[p]
            self.fail("name `%s` outside the subset" % "::".join(p))
        if k == "cast":
            a, w = self.ex(e[1], env, lines, ind)
            tw = self.wof(e, env)
            if e[2] == "_":
                if expect is None or isinstance(expect, tuple) or expect in ("Bool", "reprs"):
                    self.fail("`as _` where the target type is not fixed by a callee's parameter")
                tw = expect
            if w is None or isinstance(w, tuple) or w == "Bool":
                self.fail("cast of an untyped value")
            if tw == w:
                return a, tw
            # a narrowing cast truncates (`usize as u32`); a widening one keeps the value.  Which of the two it is
            # depends on the parameters, so the truncation is always written: `x % 2^tw` (the identity when x < 2^tw)
            return "(MachInt.cast %s %s)" % (tw, a), tw
        if k == "call" and e[1][0] == "path":
            f = tuple(e[1][1])
            args = e[2]
            if f == ("T", "from") and len(args) == 1 and args[0][0] == "num":
                return self.ex(args[0], env, lines, ind)[0], "bits"
            if f == ("split_dword",) and len(args) == 1:
                a, w = self.ex(args[0], env, lines, ind, "(2 * W)")
                self.unify(w, "(2 * W)", "split_dword")
                return "(MachInt.split_dword W %s)" % a, ("tuple", ["W", "W"])
            if f == ("extend_word",) and len(args) == 1:
                a, w = self.ex(args[0], env, lines, ind, "W")
                self.unify(w, "W", "extend_word")
                return a, "(2 * W)"
            if f == ("double_word",) and len(args) == 2:
                a, wa = self.ex(args[0], env, lines, ind, "W")
                b, wb = self.ex(args[1], env, lines, ind, "W")
                self.unify(wa, "W", "double_word"); self.unify(wb, "W", "double_word")
                return "(MachInt.double_word W %s %s)" % (a, b), "(2 * W)"
            if f in (("Repr", "from_word"), ("Self", "from_word")) and len(args) == 1:
                a, w = self.ex(args[0], env, lines, ind, "W")
                self.unify(w, "W", "from_word")
                return a, "(2 * W)"
            if f in (("Repr", "from_dword"), ("Self", "from_dword")) and len(args) == 1:       # the inline representation IS its double word
                a, w = self.ex(args[0], env, lines, ind, "(2 * W)")
                self.unify(w, "(2 * W)", "Repr::from_dword")
                return a, "(2 * W)"
            if f == ("Repr", "zero") and not args:
                return "0", "(2 * W)"
            if len(f) == 1 and f[0] in self.sigs:
                wp, pws, rws, lean = self.sigs[f[0]]
                if len(args) != len(pws):
                    self.fail("call of %s with %d arguments" % (f[0], len(args)))
                for w_ in wp:
                    if w_ not in self.wparams:
                        self.fail("call of %s needs the width parameter %s" % (f[0], w_))
                atoms = []
                for a_, pw in zip(args, pws):
                    a, w = self.ex(a_, env, lines, ind, pw)
                    self.unify(w, pw, "argument of " + f[0])
                    atoms.append(a)
                t = self.fresh()
                lines.append("%slet %s ← %s %s" % (ind, t, lean, " ".join(wp + atoms)))
                return t, (rws[0] if len(rws) == 1 else ("tuple", rws))
            self.fail("call of `%s` outside the subset" % "::".join(f))
        if k == "mcall" and e[2] == "leading_zeros" and not e[3]:
            a, w = self.ex(e[1], env, lines, ind)
            if w is None:
                self.fail("leading_zeros of an untyped literal")
            return "(MachInt.leading_zeros %s %s)" % (w, a), "32"
        if k == "mcall" and e[2] == "min" and len(e[3]) == 1:
            w = self.wof(e, env)
            a, wa = self.ex(e[1], env, lines, ind, w)
            b, wb = self.ex(e[3][0], env, lines, ind, w)
            self.unify(wa, wb, "min")
            return "(min %s %s)" % (a, b), w
        if k == "un" and e[1] == "!":
            a, w = self.ex(e[2], env, lines, ind, expect)
            if w is None or isinstance(w, tuple):
                self.fail("`!` of an untyped value")
            if w == "Bool":
                return "(!%s)" % a, "Bool"
            return "(MachInt.not %s %s)" % (w, a), w
        if k == "bin":
            op = e[1]
            if op == "&&":
                # short circuit: the right operand (which may overflow) is evaluated only when the left one holds
                a, wa = self.ex(e[2], env, lines, ind)
                if wa != "Bool":
                    self.fail("`&&` of a non-boolean")
                t = self.fresh()
                sub = []
                b, wb = self.ex(e[3], env, sub, ind + "  ")
                if wb != "Bool":
                    self.fail("`&&` of a non-boolean")
                lines.append("%slet %s ← (if %s then do" % (ind, t, a))
                lines += sub
                lines.append("%s  pure %s" % (ind, b))
                lines.append("%selse pure false : Option Bool)" % ind)
                return t, "Bool"
            if op in ("==", "!=", "<", ">", "<=", ">="):
                w = self.wof(e[2], env) or self.wof(e[3], env)
                a, wa = self.ex(e[2], env, lines, ind, w)
                b, wb = self.ex(e[3], env, lines, ind, w)
                self.unify(wa, wb, op)
                lop = {"==": "==", "!=": "!=", "<": "<", ">": ">", "<=": "≤", ">=": "≥"}[op]
                return ("(%s %s %s)" % (a, lop, b)) if op in ("==", "!=") else ("(decide (%s %s %s))" % (a, lop, b)), "Bool"
            if op in ("<<", ">>"):
                a, wa = self.ex(e[2], env, lines, ind, expect)
                b, wb = self.ex(e[3], env, lines, ind)
                if wa is None or isinstance(wa, tuple) or wa == "Bool":
                    self.fail("shift of an untyped value")
                t = self.fresh()
                lines.append("%slet %s ← MachInt.%s %s %s %s" % (ind, t, "shl" if op == "<<" else "shr", wa, a, b))
                return t, wa
            if op in ("+", "-", "*", "/", "%", "|", "&", "^"):
                w = self.wof(e[2], env) or self.wof(e[3], env) or expect
                a, wa = self.ex(e[2], env, lines, ind, w)
                b, wb = self.ex(e[3], env, lines, ind, w)
                w = self.unify(wa, wb, op)
                if w is None or isinstance(w, tuple) or w == "Bool":
                    self.fail("arithmetic on untyped values")
                if op in ("|", "&", "^"):
                    return "(%s %s %s)" % (a, {"|": "|||", "&": "&&&", "^": "^^^"}[op], b), w
                t = self.fresh()
                lines.append("%slet %s ← MachInt.%s %s %s %s" % (ind, t, {"+": "add", "-": "sub", "*": "mul", "/": "div", "%": "rem"}[op], w, a, b))
                return t, w
            self.fail("operator `%s` outside the subset" % op)
        if k == "tuple":
            parts = [self.ex(x, env, lines, ind, "(2 * W)" if expect == "reprs" else None) for x in e[1]]
            return "(" + ", ".join(p[0] for p in parts) + ")", ("tuple", [p[1] for p in parts])
        self.fail("expression form `%s` outside the subset" % k)

    def blk(self, b, env, lines, ind):
        env = dict(env)
        if b[0] != "block":
            b = ("block", [], b)
        for st in b[1]:
            if st[0] == "let":
                a, w = self.ex(st[2], env, lines, ind)
                pat = st[1]
                if pat[0] == "pvar":
                    lines.append("%slet %s := %s" % (ind, pat[1], a))
                    env[pat[1]] = w
                elif pat[0] == "ptuple" and isinstance(w, tuple) and len(w[1]) == len(pat[1]) and all(p[0] == "pvar" for p in pat[1]):
                    t = self.fresh()
                    lines.append("%slet %s := %s" % (ind, t, a))
                    n = len(pat[1])
                    for i, p in enumerate(pat[1]):
                        lines.append("%slet %s := %s" % (ind, p[1], proj(t, i, n)))
                        env[p[1]] = w[1][i]
                else:
                    self.fail("`let` pattern outside the subset")
            else:
                self.fail("statement `%s` outside the subset" % st[0])
        tail = b[2]
        if tail is None:
            self.fail("block without a result")
        if tail[0] == "block":
            return self.blk(tail, env, lines, ind)
        if tail[0] == "if":
            c, wc = self.ex(tail[1], env, lines, ind)
            if wc != "Bool" or tail[3] is None or tail[3][0] not in ("block", "if"):
                self.fail("`if` outside the subset")
            lines.append("%sif %s then do" % (ind, c))
            self.blk(tail[2], env, lines, ind + "  ")
            lines.append("%selse do" % ind)
            self.blk(tail[3] if tail[3][0] == "block" else ("block", [], tail[3]), env, lines, ind + "  ")
            return
        a, w = self.ex(tail, env, lines, ind, self.ret_expect)
        lines.append("%spure %s" % (ind, a))

    def ret_widths(self, ret):
        ret = ret.strip()
        if ret.startswith("("):
            return [self.ret_widths(x)[0] for x in split_top(ret[1:-1]) if x.strip()]
        if ret == "bool":
            return ["Bool"]
        if ret == "Repr":
            return ["(2 * W)"]
        if ret not in self.WIDTH:
            self.fail("result type `%s` outside the subset" % ret)
        return [self.WIDTH[ret]]

    def function(self, it, name, lean, doc, out, small_arm=None, extra_w=()):
        """one `fn` item (fn_item record) -> a generated definition appended to `out`; `small_arm`: the body is
        `match self { Small(dword) | RefSmall(dword) => ARM, … }` and only ARM is translated (self = the double word)"""
        self.what = "%s (%s:%d)" % (name, it["rel"], it["lines"][0])
        self.counter = 0
        toks = tokenize(it["body"])
        params = [(pn, ty) for pn, ty in it["params"] if pn != "self"]
        wparams = list(extra_w)
        for pn, ty in params:
            if ty not in self.WIDTH:
                self.fail("parameter type `%s` outside the subset" % ty)
            if self.NEEDS.get(ty) and self.NEEDS[ty] not in wparams:
                wparams.append(self.NEEDS[ty])
        self.what_ret = it["ret"] or ""
        rws = self.ret_widths(it["ret"] or "")
        if re.search(r"\b(Word|DoubleWord|WORD_BITS|DWORD_BITS|WORD_BITS_USIZE|DWORD_BITS_USIZE|Repr)\b", it["body"] + " " + (it["ret"] or "")) \
                and "W" not in wparams:
            wparams.append("W")
        self.wparams = wparams
        self.ret_expect = "reprs" if len(rws) > 1 and all(w == "(2 * W)" for w in rws) and "Repr" in (it["ret"] or "") else \
            (rws[0] if len(rws) == 1 and rws[0] != "Bool" else None)
        env = dict((pn, self.WIDTH[ty]) for pn, ty in params)
        pnames = [pn for pn, _ in params]
        if small_arm:
            body = re.sub(r"//[^\n]*", "", it["body"])
            if not re.match(r"\{\s*match self \{", body):
                self.fail("the body is no longer a single `match self { … }`")
            ms = list(re.finditer(r"\b(?:Ref)?Small\((\w+)\)\s*=>\s*", body))
            if len(ms) != 1:
                self.fail("expected exactly one `Small(x)` / `RefSmall(x)` arm, found %d" % len(ms))
            var, q = ms[0].group(1), ms[0].end()
            if body[q] == "{":
                arm = body[q:balanced(body, q)]
            else:
                depth, r = 0, q
                while not (depth == 0 and body[r] == ","):
                    depth += body[r] in "([{"
                    depth -= body[r] in ")]}"
                    if depth < 0:
                        break
                    r += 1
                arm = "{ " + body[q:r] + " }"
            env[var] = "(2 * W)"
            pnames = [var] + pnames
            toks = tokenize(arm)
        ast = PM(toks).block()
        self.sigs[name] = (wparams, [env[p] for p in pnames], rws, lean)
        lines = []
        self.blk(ast, env, lines, "    ")
        def lty(w):
            return "Bool" if w == "Bool" else "Nat"
        rty = lty(rws[0]) if len(rws) == 1 else " × ".join(lty(w) for w in rws)
        sha = hashlib.sha1(re.sub(r"\s+", " ", it["text"]).encode()).hexdigest()[:12]
        out.append("/-- %s — %s:%d-%d, sha1 %s -/" % (doc, it["rel"], it["lines"][0], it["lines"][1], sha))
        out.append("def %s %s: Option (%s) := do" % (lean, "".join("(%s : Nat) " % x for x in wparams + pnames), rty))
        out += lines
        out.append("")
        return sha


def gen_math_helpers():
    """C09 (Tie A): the small arithmetic helpers of integer/src/math.rs (`bit_len`, `ceil_log2`, `ceil_div`, `ceil_div_usize`,
    `round_up`, `round_up_usize`, `ones_word`, `ones_dword`, `shl_dword`, `shr_word`) translated statement by statement into
    Lean definitions over the CHECKED machine-integer operations of `Dashu/Model/GluePrelude/MachInt.lean` (`none` = the
    Rust operation overflows).  `Props/GenMath.lean` proves each body total on its domain and equal to its specification
    (and to the definition the hand-written bit model uses), so a rewrite such as `(a + (b - 1)) / b` for `ceil_div` — equal
    on unbounded integers, overflowing near the type maximum — no longer checks.  Fails closed outside the subset."""
    rel = "integer/src/math.rs"
    src = read(rel)
    out, info = [], {}
    out += ["import Dashu.Model.GluePrelude.MachInt",
            "/-! GENERATED by vlib/extract.py from /repo — do not edit.  C09: the helpers of `integer/src/math.rs` over checked",
            "    machine integers (`none` = arithmetic overflow: a panic in debug builds, a wrapped value in release builds). -/",
            "namespace Dashu.Gen.MathHelpers", "open Dashu.GluePrelude", "set_option linter.unusedVariables false", ""]
    tr = MachTr("MathHelpers")
    for name in ["bit_len", "ceil_log2", "ceil_div", "ceil_div_usize", "round_up", "round_up_usize", "ones_word", "ones_dword",
                 "shl_dword", "shr_word"]:
        it = fn_item(src, name, rel=rel)
        info["MathHelpers." + name] = tr.function(it, name, name, "`math::%s`" % name, out)
    out.append("end Dashu.Gen.MathHelpers")
    return "\n".join(out) + "\n", info


FILES["MathHelpers.lean"] = gen_math_helpers      # C09: math.rs helpers over checked machine integers (additive)


def gen_bits_small():
    """C09 (Tie A): the INLINE (one double word) arms of the bit operations that take a user-supplied `usize` — the guards
    `n < DWORD_BITS_USIZE`, the `as u32` casts, the clamps — of integer/src/bits.rs and integer/src/shift_ops.rs, over
    checked machine integers with truncating casts.  `Props/GenBitsSmall.lean` proves each equal to the arm of the hand
    model for EVERY `usize` argument (so a guard evaluated after a narrowing cast, or a shift by an unchecked count, no
    longer checks).  Fails closed outside the subset (e.g. `checked_shr(..).unwrap_or(0)`)."""
    out, info = [], {}
    out += ["import Dashu.Gen.MathHelpers",
            "/-! GENERATED by vlib/extract.py from /repo — do not edit.  C09: the inline (`Small(dword)`) arms of the bit operations",
            "    with a `usize` argument, `integer/src/bits.rs` / `integer/src/shift_ops.rs`, over checked machine integers;",
            "    `Repr::from_dword(x)` is `x`, `Repr::zero()` is `0`. -/",
            "namespace Dashu.Gen.BitsSmall", "open Dashu.GluePrelude Dashu.Gen.MathHelpers", "set_option linter.unusedVariables false", ""]
    tr = MachTr("BitsSmall")
    msrc = read("integer/src/math.rs")
    for name in ("ones_word", "ones_dword"):       # callable from the arms (defined in MathHelpers)
        tr.function(fn_item(msrc, name, rel="integer/src/math.rs"), name, name, "", [])
    B, S = "integer/src/bits.rs", "integer/src/shift_ops.rs"
    bsrc, ssrc = read(B), read(S)
    REF = r"impl<'a> TypedReprRef<'a> \{"
    OWN = r"\n    impl TypedRepr \{"
    jobs = [(ssrc, S, "shr_dword", None, False, "shr_dword", "`shift_ops::repr::shr_dword`"),
            (bsrc, B, "are_dword_low_bits_nonzero", r"mod repr \{", False, "are_dword_low_bits_nonzero", "`bits::repr::are_dword_low_bits_nonzero`"),
            (bsrc, B, "bit", REF, True, "bit_small", "`TypedReprRef::bit`, arm `RefSmall(dword)`"),
            (bsrc, B, "clear_bit", OWN, True, "clear_bit_small", "`TypedRepr::clear_bit`, arm `Small(dword)`"),
            (bsrc, B, "clear_high_bits", OWN, True, "clear_high_bits_small", "`TypedRepr::clear_high_bits`, arm `Small(dword)`"),
            (bsrc, B, "split_bits", OWN, True, "split_bits_small", "`TypedRepr::split_bits`, arm `Small(dword)`")]
    for src, rel, fn, after, arm, lean, doc in jobs:
        it = fn_item(src, fn, after=after, rel=rel)
        info["BitsSmall." + lean] = tr.function(it, lean, lean, doc, out, small_arm=arm, extra_w=("W", "U"))
    # ---- the word-index / bit-offset computations of the HEAP arms: `let x = <expression over the usize argument>;`
    out.append("-- word index / bit offset computations of the heap arms (`let NAME = …;` statements, in source order)")
    out.append("")
    INDEX = [(ssrc, S, "shl_one_spilled", None, ["idx"]),
             (ssrc, S, "shl_dword_spilled", None, ["shift_words", "shift_bits"]),
             (ssrc, S, "shl_large", None, ["shift_words", "shift_bits"]),
             (ssrc, S, "shl_large_ref", None, ["shift_words", "shift_bits"]),
             (ssrc, S, "shr_large", None, ["shift_words", "shift_bits"]),
             (ssrc, S, "shr_large_ref", None, ["shift_words", "shift_bits"]),
             (bsrc, B, "bit", REF, ["idx"]),
             (bsrc, B, "clear_bit", OWN, ["idx"]),
             (bsrc, B, "are_slice_low_bits_nonzero", r"mod repr \{", ["n_words", "n_top"]),
             (bsrc, B, "with_bit_dword_spilled", r"mod repr \{", ["idx"]),
             (bsrc, B, "with_bit_large", r"mod repr \{", ["idx"]),
             (bsrc, B, "clear_high_bits_large", r"mod repr \{", ["n_words"])]
    tr.function(fn_item(msrc, "ceil_div", rel="integer/src/math.rs"), "ceil_div", "ceil_div", "", [])
    # `ceil_div::<usize>`: the generic width is the usize width at these call sites
    wp, pws, rws, lean = tr.sigs["ceil_div"]
    tr.sigs["ceil_div"] = (["U"], ["U", "U"], ["U"], lean)
    for src, rel, fn, after, names in INDEX:
        it = fn_item(src, fn, after=after, rel=rel)
        body = re.sub(r"//[^\n]*", "", it["body"])
        usz = [pn for pn, ty in it["params"] if ty == "usize"]
        if len(usz) != 1:
            raise ExtractError("%s (%s): expected exactly one usize parameter" % (fn, rel))
        env = {usz[0]: "U"}
        for nm in names:
            ms = list(re.finditer(r"\blet\s+(?:mut\s+)?%s\s*(?::\s*\w+\s*)?=\s*([^;]*);" % re.escape(nm), body))
            if len(ms) != 1:
                raise ExtractError("%s (%s:%d): expected exactly one `let %s = …;`, found %d" % (fn, rel, it["lines"][0], nm, len(ms)))
            text = ms[0].group(1)
            tr.what = "%s, let %s (%s:%d)" % (fn, nm, rel, it["lines"][0])
            tr.counter = 0
            tr.wparams = ["W", "U"]
            tr.ret_expect = None
            lines = []
            ast = PM(tokenize("{ " + text + " }")).block()
            # only the usize argument (not an earlier `let`) may occur: each statement is a function of the argument alone
            tr.blk(ast, env, lines, "    ")
            lean = "%s__%s" % (fn, nm)
            sha = hashlib.sha1(re.sub(r"\s+", " ", text).encode()).hexdigest()[:12]
            out.append("/-- `let %s = %s;` in `%s` — %s:%d-%d, sha1 %s -/" % (nm, re.sub(r"\s+", " ", text).strip(), fn, rel, it["lines"][0], it["lines"][1], sha))
            out.append("def %s (W : Nat) (U : Nat) (%s : Nat) : Option (Nat) := do" % (lean, usz[0]))
            out += lines
            out.append("")
            info["BitsSmall." + lean] = sha
    # ---- Repr::ones (integer/src/repr.rs): which counts are built inline (and how), which on the heap
    R = "integer/src/repr.rs"
    rsrc = read(R)
    it = fn_item(rsrc, "ones", after=r"\nimpl Repr \{", rel=R)
    body = re.sub(r"//[^\n]*", "", it["body"])
    m = re.match(r"\{\s*if ([^{}]+?) \{\s*([^{}]+?)\s*\} else if ([^{}]+?) \{\s*([^{}]+?)\s*\} else \{", body)
    if not m:
        raise ExtractError("Repr::ones (%s:%d): no longer `if C1 { inline } else if C2 { inline } else { heap }`" % (R, it["lines"][0]))
    synth = "{ if %s { (true, %s) } else if %s { (true, %s) } else { (false, 0) } }" % m.groups()
    tr.what = "Repr::ones (%s:%d)" % (R, it["lines"][0])
    tr.counter = 0
    tr.wparams = ["W", "U"]
    tr.ret_expect = None
    lines = []
    tr.blk(PM(tokenize(synth)).block(), {"n": "U"}, lines, "    ")
    sha = hashlib.sha1(re.sub(r"\s+", " ", " ".join(m.groups())).encode()).hexdigest()[:12]
    out.append("/-- `Repr::ones(n)`: `(true, double word)` when the value is built inline (`if %s { %s } else if %s { %s }`)," % m.groups())
    out.append("    `(false, 0)` when it is built on the heap — %s:%d-%d, sha1 %s -/" % (R, it["lines"][0], it["lines"][1], sha))
    out.append("def ones_inline (W : Nat) (U : Nat) (n : Nat) : Option (Bool × Nat) := do")
    out += lines
    out.append("")
    info["BitsSmall.ones_inline"] = sha
    env = {"n": "U"}
    for nm in ("lo_words", "hi_bits"):
        ms = list(re.finditer(r"\blet\s+%s\s*=\s*([^;]*);" % nm, body))
        if len(ms) != 1:
            raise ExtractError("Repr::ones (%s:%d): expected exactly one `let %s = …;`" % (R, it["lines"][0], nm))
        text = ms[0].group(1)
        tr.what = "Repr::ones, let %s (%s:%d)" % (nm, R, it["lines"][0])
        tr.counter = 0
        lines = []
        tr.blk(PM(tokenize("{ " + text + " }")).block(), env, lines, "    ")
        sha = hashlib.sha1(re.sub(r"\s+", " ", text).encode()).hexdigest()[:12]
        out.append("/-- `let %s = %s;` in `Repr::ones` (heap arm) — %s:%d-%d, sha1 %s -/" % (nm, text.strip(), R, it["lines"][0], it["lines"][1], sha))
        out.append("def ones__%s (W : Nat) (U : Nat) (n : Nat) : Option (Nat) := do" % nm)
        out += lines
        out.append("")
        info["BitsSmall.ones__" + nm] = sha
    out.append("end Dashu.Gen.BitsSmall")
    return "\n".join(out) + "\n", info


FILES["BitsSmall.lean"] = gen_bits_small          # C09: inline arms of bits.rs / shift_ops.rs with a usize argument (additive)


def gen_conv_consts():
    """C06: the literal constants of the float conversions that the hand-written models `lean/Dashu/Model/Conv/{Exact,Ratio,Base}.lean`
    carry — `into_f32_internal` / `into_f64_internal` (float/src/convert.rs: width assertion incl. its panic site, overflow and
    underflow exits), the working precision `FBig/Repr::to_f32/to_f64` hand to `Context::new`, the literal bounds of
    `impl_conversion_to_float!` and the guard width / exits of `Repr::to_f32/to_f64` (rational/src/convert.rs).
    `Props/C06.conv_constants_regenerated` proves the models' constants equal to these; the panic-site strings are CALLED by the
    model.  Fails closed when a routine no longer has the shape the model mirrors."""
    out = ["/-! GENERATED by vlib/extract.py from /repo — do not edit.  Literal constants of the float conversions (C06). -/",
           "namespace Dashu.Gen.Conv", ""]
    info = {}

    def one(pat, text, what):
        ms = re.findall(pat, text)
        if len(ms) != 1:
            raise ExtractError("%s: expected exactly one match of %r, found %d" % (what, pat, len(ms)))
        return ms[0]

    rel = "float/src/convert.rs"
    fsrc = read(rel)
    for ty in ("f32", "f64"):
        fn = "into_%s_internal" % ty
        _, body = fn_body(fsrc, fn)
        body_nc = re.sub(r"//[^\n]*", "", body)
        prec = int(one(r"debug_assert!\(self\.significand\.bit_len\(\)\s*<=\s*(\d+)\)\s*;", body_nc, rel + " " + fn))
        inf = int(one(r"if\s+self\.exponent\s*>=\s*(\d+)\s*\{", body_nc, rel + " " + fn))
        za, zb = one(r"else\s+if\s+self\.exponent\s*<\s*-(\d+)\s*-\s*(\d+)\s*\{", body_nc, rel + " " + fn)
        one(r"%s::encode\(\w+,\s*self\.exponent as i16\)" % ty, body_nc, rel + " " + fn)
        # panic site of the width assertion as the harness prints it (`file:line|message`, blanks -> `_`)
        stmt = "debug_assert!(self.significand.bit_len() <= %d)" % prec
        pos = fsrc.index(stmt, fsrc.index("fn " + fn))
        line = fsrc.count("\n", 0, pos) + 1
        site = "%s:%d|assertion_failed:_self.significand.bit_len()_<=_%d" % (rel, line, prec)
        out.append("/-- `%s` (%s): `debug_assert!(bit_len <= %d)`, `exponent >= %d`, `exponent < -%s - %s` -/" % (fn, rel, prec, inf, za, zb))
        out.append("def into_%s_prec : Nat := %d" % (ty, prec))
        out.append("def into_%s_inf_exp : Int := %d" % (ty, inf))
        out.append("def into_%s_zero_exp : Int := -%s - %s" % (ty, za, zb))
        out.append("def into_%s_assert_site : String := \"%s\"\n" % (ty, site))
        info[fn] = [prec, inf, -int(za) - int(zb), line]
    # the working precisions: every `to_f32` passes 24, every `to_f64` 53 (FBig and Repr)
    for ty in ("f32", "f64"):
        precs = set()
        n = 0
        for m in re.finditer(r"pub fn to_%s\(&self\)\s*->\s*Rounded<%s>\s*\{" % (ty, ty), fsrc):
            b1 = balanced(fsrc, m.end() - 1)
            body = fsrc[m.end() - 1:b1]
            precs.add(int(one(r"Context::<\w+>::new\((\d+)\)", body, rel + " to_" + ty)))
            n += 1
        if n != 2 or len(precs) != 1:
            raise ExtractError("%s: expected FBig::to_%s and Repr::to_%s with one common precision, found %d fns, %r" % (rel, ty, ty, n, sorted(precs)))
        out.append("/-- `Context::new(…)` in `FBig::to_%s` and `Repr::to_%s` -/\ndef to_%s_precision : Nat := %d\n" % (ty, ty, ty, precs.pop()))
    # round 6 (/repo 1349a4b): the early exit `match self[.repr].exponent_out_of_range(max_exp, min_exp)` of every to_f32 / to_f64
    # (its literal arguments, and that it sits between the infinity test and `Context::new`), and the decision text of
    # `Repr::exponent_out_of_range` itself, translated token by token; the model `exponentOutOfRange` CALLS the regenerated def
    for ty in ("f32", "f64"):
        args = set()
        n = 0
        for m in re.finditer(r"pub fn to_%s\(&self\)\s*->\s*Rounded<%s>\s*\{" % (ty, ty), fsrc):
            b1 = balanced(fsrc, m.end() - 1)
            body = re.sub(r"//[^\n]*", "", fsrc[m.end() - 1:b1])
            a, b, c = one(r"match\s+self(?:\.repr)?\.exponent_out_of_range\((\d+),\s*-(\d+)\s*-\s*(\d+)\)\s*\{", body, rel + " to_" + ty)
            i_inf, i_rng, i_ctx = body.find("is_infinite()"), body.find("exponent_out_of_range("), body.find("Context::<")
            if not (0 <= i_inf < i_rng < i_ctx):
                raise ExtractError("%s to_%s: the range test no longer sits between the infinity test and Context::new" % (rel, ty))
            arms = " ".join(body[i_rng:i_ctx].split())
            want = ("Some(true) => { return match self.sign() { Sign::Positive => Inexact(%s::INFINITY, Rounding::AddOne), "
                    "Sign::Negative => Inexact(%s::NEG_INFINITY, Rounding::SubOne), } } "
                    "Some(false) => return Inexact(self.sign() * 0%s, Rounding::NoOp), None => {} }" % (ty, ty, ty))
            if want not in arms:
                raise ExtractError("%s to_%s: the arms of the range test changed: %r" % (rel, ty, arms))
            args.add((int(a), int(b), int(c)))
            n += 1
        if n != 2 or len(args) != 1:
            raise ExtractError("%s: expected one common exponent_out_of_range(..) in FBig::to_%s and Repr::to_%s, found %r" % (rel, ty, ty, sorted(args)))
        a, b, c = args.pop()
        out.append("/-- `exponent_out_of_range(%d, -%d - %d)` in `FBig::to_%s` and `Repr::to_%s` (arms: +-inf AddOne/SubOne, +-0 NoOp) -/" % (a, b, c, ty, ty))
        out.append("def to_%s_range_max_exp : Int := %d\ndef to_%s_range_min_exp : Int := -%d - %d\n" % (ty, a, ty, b, c))
        info["to_%s_range" % ty] = [a, -b - c]
    _, rbody = fn_body(fsrc, "exponent_out_of_range")
    rb = " ".join(re.sub(r"//[^\n]*", "", rbody).split())
    mm = re.fullmatch(r"\{ if self\.significand\.is_zero\(\) \{ None \} else if ([^{}]+) \{ Some\(true\) \} else if ([^{}]+) \{ Some\(false\) \} else \{ None \} \}", rb)
    if not mm:
        raise ExtractError("%s exponent_out_of_range: the body no longer has the mirrored shape: %r" % (rel, rb))

    def tr_range(expr):
        e2 = expr.replace("self.significand.bit_len() as isize", " BITLEN ").replace("self.exponent", " EXPONENT ")
        res = []
        for t in re.findall(r"[A-Za-z_]\w*|>=|<=|&&|\d+|[-+()<>]|\S", e2):
            if t in ("max_exp", "min_exp", "<", ">", "-", "+", "(", ")") or t.isdigit():
                res.append(t)
            elif t == "EXPONENT":
                res.append("exponent")
            elif t == "BITLEN":
                res.append("(bit_len : Int)")
            elif t in (">=", "<=", "&&"):
                res.append({">=": "≥", "<=": "≤", "&&": "∧"}[t])
            else:
                raise ExtractError("%s exponent_out_of_range: token %r of %r is outside the translated fragment" % (rel, t, expr))
        return " ".join(res)

    out.append("/-- `Repr::exponent_out_of_range(&self, max_exp, min_exp)` (%s): `if self.significand.is_zero() { None } else if %s { Some(true) }"
               " else if %s { Some(false) } else { None }` -/" % (rel, mm.group(1), mm.group(2)))
    out.append("def exponent_out_of_range (significand_is_zero : Bool) (exponent : Int) (bit_len : Nat) (max_exp min_exp : Int) : Option Bool :=")
    out.append("  if significand_is_zero then none else if %s then some true else if %s then some false else none\n" % (tr_range(mm.group(1)), tr_range(mm.group(2))))
    info["exponent_out_of_range"] = [mm.group(1), mm.group(2)]
    rrel = "rational/src/convert.rs"
    rsrc = read(rrel)
    for ty in ("f32", "f64"):
        lb, ub = one(r"impl_conversion_to_float!\(%s \[(-?\d+),\s*(-?\d+)\]\)" % ty, rsrc, rrel)
        out.append("/-- `impl_conversion_to_float!(%s [%s, %s])` (%s) -/" % (ty, lb, ub, rrel))
        out.append("def rbig_try_to_%s_lb : Int := %s\ndef rbig_try_to_%s_ub : Int := %s\n" % (ty, lb, ty, ub))
        _, body = fn_body(rsrc, "to_" + ty, after=r"impl_conversion_to_float!\(f64")
        body_nc = re.sub(r"//[^\n]*", "", body)
        guard = int(one(r"let\s+shift\s*=\s*num_bits as isize\s*-\s*den_bits as isize\s*-\s*(\d+)\s*;", body_nc, rrel + " to_" + ty))
        inf = int(one(r"if\s+shift\s*>=\s*([1-9]\d*)\s*\{", body_nc, rrel + " to_" + ty))     # (`shift >= 0` selects the operand to shift)
        za, zb = one(r"else\s+if\s+shift\s*<\s*-(\d+)\s*-\s*(\d+)\s*\{", body_nc, rrel + " to_" + ty)
        out.append("/-- `Repr::to_%s` (%s): quotient width `%d`, `shift >= %d`, `shift < -%s - %s` -/" % (ty, rrel, guard, inf, za, zb))
        out.append("def rbig_to_%s_quotient_bits : Nat := %d\ndef rbig_to_%s_inf_shift : Int := %d\ndef rbig_to_%s_zero_shift : Int := -%s - %s\n"
                   % (ty, guard, ty, inf, ty, za, zb))
        info["rbig_to_" + ty] = [int(lb), int(ub), guard, inf, -int(za) - int(zb)]
    out.append("end Dashu.Gen.Conv")
    return "\n".join(out) + "\n", info


FILES["ConvConsts.lean"] = gen_conv_consts        # C06: literal constants of the float conversions (additive)


def gen_conv_tofloat():
    """C06: the decision logic of `Repr::to_float` (rational/src/third_party/dashu_float.rs) that the mirrored model
    `lean/Dashu/Model/Conv/ToFloat.lean` CALLS: the no-shift test `num_digits >= precision + den_digits`, the shift amount
    `(precision + den_digits) - num_digits` (translated token by token over Nat), the panic sites of `assert!(precision > 0)`
    and of the debug-build overflow check of that addition.  Fails closed when the routine no longer has the mirrored shape."""
    rel = "rational/src/third_party/dashu_float.rs"
    src = read(rel)
    _, body = fn_body(src, "to_float")
    nc = re.sub(r"//[^\n]*", "", body)

    def one(pat, what, flags=0):
        ms = re.findall(pat, nc, flags)
        if len(ms) != 1:
            raise ExtractError("%s to_float: expected exactly one match of %r (%s), found %d" % (rel, pat, what, len(ms)))
        return ms[0]

    def tr(expr):
        toks = re.findall(r"[A-Za-z_]\w*|>=|<=|==|[-+()<>]|\S", expr)
        out = []
        for t in toks:
            if t in ("num_digits", "den_digits", "precision", "+", "-", "(", ")", "<", ">"):
                out.append(t)
            elif t == "need_digits":      # round 6: `let need_digits = precision.saturating_add(den_digits);`
                out.append("(to_float_need_digits den_digits precision)")
            elif t == ">=":
                out.append("≥")
            elif t == "<=":
                out.append("≤")
            else:
                raise ExtractError("%s to_float: token %r of %r is outside the translated fragment" % (rel, t, expr))
        return " ".join(out).replace("( ", "(").replace(" )", ")")

    one(r"assert!\(precision\s*>\s*0\)\s*;", "precision assertion")
    one(r"let\s+num_digits\s*=\s*self\.numerator\.ilog\(&base\)\s*;", "numerator digit count")
    one(r"let\s+den_digits\s*=\s*self\.denominator\.ilog\(&base\)\s*;", "denominator digit count")
    # round 6 (/repo 43925c0): the sum saturates at usize::MAX instead of overflowing
    need_a, need_b = one(r"let\s+need_digits\s*=\s*(precision|den_digits)\.saturating_add\((precision|den_digits)\)\s*;", "saturating digit sum")
    if need_a == need_b:
        raise ExtractError("%s to_float: need_digits adds %s to itself" % (rel, need_a))
    cond = one(r"let\s+\(q,\s*r\)\s*=\s*if\s+([^{}]+?)\s*\{\s*shift\s*=\s*0\s*;", "no-shift test")
    shift = one(r"\}\s*else\s*\{\s*shift\s*=\s*([^;{}]+?)\s*;\s*if\s+B\s*==\s*2\s*\{", "shift amount")
    one(r"\(&self\.numerator\s*<<\s*shift\)\.div_rem\(&self\.denominator\)", "binary shift")
    one(r"\(&self\.numerator\s*\*\s*base\.pow\(shift\)\)\.div_rem\(&self\.denominator\)", "power multiplication")
    one(r"R::round_ratio\(&q,\s*r,\s*self\.denominator\.as_ibig\(\)\)", "first rounding")
    one(r"Context::<R>::new\(precision\)", "context")
    one(r"\.and_then\(\|n\|\s*context\.convert_int\(n\)\)\s*\.map\(\|f\|\s*f\s*>>\s*\(shift as isize\)\)", "second rounding and shift")
    fpos = src.index("fn to_float")

    def line_of(text):
        return src.count("\n", 0, src.index(text, fpos)) + 1

    l_assert = line_of("assert!(precision > 0);")
    m = re.search(r"let\s+\(q,\s*r\)\s*=\s*if\s+", src[fpos:])
    l_add = src.count("\n", 0, fpos + m.start()) + 1
    out = ["/-! GENERATED by vlib/extract.py from /repo — do not edit.  Decision logic of `Repr::to_float` (C06). -/",
           "namespace Dashu.Gen.ConvToFloat", "",
           "/-- `let need_digits = %s.saturating_add(%s);` (`usize`, 64-bit target: saturates at `usize::MAX`) -/" % (need_a, need_b),
           "def to_float_need_digits (den_digits precision : Nat) : Nat := min (%s + %s) (2 ^ 64 - 1)" % (need_a, need_b), "",
           "/-- `if %s { shift = 0; … }` (%s:%d) -/" % (cond, rel, l_add),
           "def to_float_no_shift (num_digits den_digits precision : Nat) : Bool := decide (%s)" % tr(cond), "",
           "/-- `shift = %s;` (usize subtraction, guarded by the test above) -/" % shift,
           "def to_float_shift (num_digits den_digits precision : Nat) : Nat := %s" % tr(shift), "",
           "/-- `assert!(precision > 0)` as the harness prints it -/",
           "def to_float_assert_site : String := \"%s:%d|assertion_failed:_precision_>_0\"" % (rel, l_assert), "",
           ""][:-1]        # (round 6: the `usize` addition that could overflow is gone, and with it `to_float_add_site`)
    if re.search(r"precision\s*\+\s*den_digits|den_digits\s*\+\s*precision", nc):
        raise ExtractError("%s to_float: an unsaturated `precision + den_digits` is back" % rel)
    # `From<Repr> for FBig<R, B>`: the whole body, whitespace-normalised (the mirrored `fbigFromRat` documents this text;
    # `Props.C06.fbig_from_rbig_source_shape` compares), and the forwarding of RBig / Relaxed to it
    mi = re.search(r"impl<R: Round, const B: Word> From<Repr> for FBig<R, B>\s*\{", src)
    if not mi:
        raise ExtractError("%s: impl From<Repr> for FBig not found" % rel)
    _, fbody = fn_body(src[mi.end():], "from")
    fbody_n = " ".join(re.sub(r"//[^\n]*", "", fbody).split()).strip("{} ").strip()
    if '"' in fbody_n or "\\" in fbody_n:
        raise ExtractError("%s: From<Repr> for FBig body cannot be quoted" % rel)
    if len(re.findall(r"impl<R: Round, const B: Word> From<\$t> for FBig<R, B>\s*\{\s*#\[inline\]\s*fn from\(v: \$t\) -> Self\s*\{\s*v\.0\.into\(\)\s*\}",
                      src)) != 1:
        raise ExtractError("%s: forward_conversion_to_repr! no longer forwards From<RBig|Relaxed> to From<Repr>" % rel)
    out += ["/-- body of `impl From<Repr> for FBig<R, B> { fn from(v: Repr) -> Self }` (whitespace-normalised) -/",
            "def from_repr_body : String := \"%s\"" % fbody_n, "",
            "end Dashu.Gen.ConvToFloat"]
    return "\n".join(out) + "\n", {"rbig_to_float": [cond, shift, l_assert, l_add]}


FILES["ConvToFloat.lean"] = gen_conv_tofloat      # C06: decision logic of Repr::to_float (additive)

def gen_scratch():
    """C01 (+ targets proposed by C17): `memory_requirement_*` scratch formulas of mul / sqr / div / root, the `shl_large`
    capacity guard and the buffer / scratch sizes of `pow_word_base` / `pow_dword_base` — see vlib/extract_scratch.py"""
    import importlib.util, sys
    spec = importlib.util.spec_from_file_location("vlib_extract_scratch",
                                                  os.path.join(os.path.dirname(os.path.abspath(__file__)), "extract_scratch.py"))
    mod = importlib.util.module_from_spec(spec)
    spec.loader.exec_module(mod)
    return mod.generate(sys.modules[__name__])


FILES["Scratch.lean"] = gen_scratch               # C01/C17: scratch-memory formulas and buffer-size decisions (additive)


def gen_int_dispatch():
    """C01: the TypedRepr-level dispatch of `+ - * sub_signed` (add_ops.rs / mul_ops.rs `mod repr`, `mod repr_signed`), one
    definition per ownership form, the public `sqr` / `cubic` bodies and the small guards of mul_ops.rs — see
    vlib/extract_intdispatch.py"""
    import importlib.util, sys
    spec = importlib.util.spec_from_file_location("vlib_extract_intdispatch",
                                                  os.path.join(os.path.dirname(os.path.abspath(__file__)), "extract_intdispatch.py"))
    mod = importlib.util.module_from_spec(spec)
    spec.loader.exec_module(mod)
    return mod.generate(sys.modules[__name__])


FILES["IntDispatch.lean"] = gen_int_dispatch      # C01: operator dispatch tables of add_ops.rs / mul_ops.rs (additive)


def gen_shift_loops():
    """C09 (Tie A): the word loops of integer/src/shift.rs (`shl_in_place`, `shr_in_place_with_carry`, `shr_in_place`,
    `shr_in_place_one_word`) — loop header, loop body, early return, initial carry — over checked machine integers;
    see vlib/extract_shift.py.  `Props/GenShift.lean` proves them equal to the hand-written mirrors."""
    import importlib.util, sys
    spec = importlib.util.spec_from_file_location("vlib_extract_shift",
                                                  os.path.join(os.path.dirname(os.path.abspath(__file__)), "extract_shift.py"))
    mod = importlib.util.module_from_spec(spec)
    spec.loader.exec_module(mod)
    return mod.generate(sys.modules[__name__])


FILES["ShiftLoops.lean"] = gen_shift_loops        # C09: shift.rs word loops over checked machine integers (additive)


def gen_bit_scans():
    """C09 (Tie A): the word scans of integer/src/bits.rs (`trailing_zeros_large`, `trailing_zeros_large_shifted_by_one`,
    `trailing_ones_large`) — scan loops, checked slice accesses, early exits, index arithmetic — over checked machine
    integers; see vlib/extract_scans.py.  `Props/GenScans.lean` proves them equal to the hand mirrors."""
    import importlib.util, sys
    spec = importlib.util.spec_from_file_location("vlib_extract_scans",
                                                  os.path.join(os.path.dirname(os.path.abspath(__file__)), "extract_scans.py"))
    mod = importlib.util.module_from_spec(spec)
    spec.loader.exec_module(mod)
    return mod.generate(sys.modules[__name__])


FILES["BitScans.lean"] = gen_bit_scans            # C09: bits.rs word scans over checked machine integers (additive)


def gen_shift_heap():
    """C09 (Tie A): the heap arms of `<<` / `>>` of integer/src/shift_ops.rs (`shl_one_spilled`, `shl_dword_spilled`,
    `shl_large_ref`, `shl_large`, `shr_large`) — buffer statements, calls of the regenerated loops and helpers, the capacity
    branch — see vlib/extract_shiftheap.py.  `Props/GenShiftHeap.lean` proves them equal to the hand model's arms."""
    import importlib.util, sys
    spec = importlib.util.spec_from_file_location("vlib_extract_shiftheap",
                                                  os.path.join(os.path.dirname(os.path.abspath(__file__)), "extract_shiftheap.py"))
    mod = importlib.util.module_from_spec(spec)
    spec.loader.exec_module(mod)
    return mod.generate(sys.modules[__name__])


FILES["ShiftHeap.lean"] = gen_shift_heap          # C09: shift_ops.rs heap arms (additive)


def gen_bits_heap():
    """C09 (Tie A): the heap arms of set_bit / clear_high_bits of integer/src/bits.rs (`with_bit_dword_spilled`,
    `with_bit_large`, `clear_high_bits_large`) with the translator of vlib/extract_shiftheap.py.
    `Props/GenBitsHeap.lean` proves them equal to the hand model's arms."""
    import importlib.util, sys
    spec = importlib.util.spec_from_file_location("vlib_extract_shiftheap",
                                                  os.path.join(os.path.dirname(os.path.abspath(__file__)), "extract_shiftheap.py"))
    mod = importlib.util.module_from_spec(spec)
    spec.loader.exec_module(mod)
    return mod.generate_bits(sys.modules[__name__])


FILES["BitsHeap.lean"] = gen_bits_heap            # C09: bits.rs heap arms of set_bit / clear_high_bits (additive)


def gen_bitops_heap():
    """C09 (Tie A): the word loops of the unsigned bit operators of integer/src/bits.rs (`bitand_large`, `bitor_large`,
    `bitxor_large`, `and_not_large`, `*_large_dword`) with the translator of vlib/extract_shiftheap.py.
    `Props/GenBitOpsHeap.lean` proves them equal to the hand model's zipAnd / zipOr / zipXor / zipAndNot / opLargeDword."""
    import importlib.util, sys
    spec = importlib.util.spec_from_file_location("vlib_extract_shiftheap",
                                                  os.path.join(os.path.dirname(os.path.abspath(__file__)), "extract_shiftheap.py"))
    mod = importlib.util.module_from_spec(spec)
    spec.loader.exec_module(mod)
    return mod.generate_bitops(sys.modules[__name__])


FILES["BitOpsHeap.lean"] = gen_bitops_heap        # C09: bits.rs word loops of & | ^ and_not (additive)


def gen_repr_ones():
    """C09 (Tie A): `Repr::ones` of integer/src/repr.rs in full (inline arms, heap arm with `push_repeat::<{ Word::MAX }>`, the
    conditional top word and the `transmute` into the heap value) with the translator of vlib/extract_shiftheap.py.
    `Props/GenReprOnes.lean` proves it equal to the hand model's `reprOnes` for every usize argument."""
    import importlib.util, sys
    spec = importlib.util.spec_from_file_location("vlib_extract_shiftheap",
                                                  os.path.join(os.path.dirname(os.path.abspath(__file__)), "extract_shiftheap.py"))
    mod = importlib.util.module_from_spec(spec)
    spec.loader.exec_module(mod)
    return mod.generate_ones(sys.modules[__name__])


FILES["ReprOnes.lean"] = gen_repr_ones            # C09: Repr::ones in full (additive)


def gen_bit_dispatch():
    """C09 (Tie A): the TypedRepr-level dispatch of `& | ^ and_not` (bits.rs `mod repr`: sixteen impls on TypedRepr / TypedReprRef),
    one definition per ownership form over the regenerated word loops of Gen/BitOpsHeap — see vlib/extract_bitdispatch.py.
    `Props/GenBitDispatch.lean` proves them equal to the hand model's TRepr.bitand / bitor / bitxor / andNot."""
    import importlib.util, sys
    spec = importlib.util.spec_from_file_location("vlib_extract_bitdispatch",
                                                  os.path.join(os.path.dirname(os.path.abspath(__file__)), "extract_bitdispatch.py"))
    mod = importlib.util.module_from_spec(spec)
    spec.loader.exec_module(mod)
    return mod.generate(sys.modules[__name__])


FILES["BitDispatch.lean"] = gen_bit_dispatch       # C09: operator dispatch of bits.rs (additive)


def gen_shift_dispatch():
    """C09 (Tie A): the four `impl Shl<usize>|Shr<usize> for TypedRepr|TypedReprRef` of shift_ops.rs (`mod repr`) over the functions
    regenerated in Gen/ShiftHeap / Gen/BitsSmall — see vlib/extract_bitdispatch.py (`generate_shift`).
    `Props/GenShiftDispatch.lean` proves them equal to the hand model's TRepr.shl / TRepr.shr."""
    import importlib.util, sys
    spec = importlib.util.spec_from_file_location("vlib_extract_bitdispatch",
                                                  os.path.join(os.path.dirname(os.path.abspath(__file__)), "extract_bitdispatch.py"))
    mod = importlib.util.module_from_spec(spec)
    spec.loader.exec_module(mod)
    return mod.generate_shift(sys.modules[__name__])


FILES["ShiftDispatch.lean"] = gen_shift_dispatch   # C09: << / >> dispatch of shift_ops.rs (additive)


def gen_next_pow2():
    """C09 (Tie A): `next_power_of_two_large` (iterator statements recognised as a whole, every constant read from the source) and
    `TypedRepr::next_power_of_two` of bits.rs — see vlib/extract_nextpow2.py.  `Props/GenNextPow2.lean` proves them equal to the hand
    model's nextPow2Large / TRepr.nextPow2."""
    import importlib.util, sys
    spec = importlib.util.spec_from_file_location("vlib_extract_nextpow2",
                                                  os.path.join(os.path.dirname(os.path.abspath(__file__)), "extract_nextpow2.py"))
    mod = importlib.util.module_from_spec(spec)
    spec.loader.exec_module(mod)
    return mod.generate(sys.modules[__name__])


FILES["NextPow2.lean"] = gen_next_pow2             # C09: next_power_of_two of bits.rs (additive)

def gen_float_norm():
    """C05 (Tie A): `Repr::<B>::normalize` of float/src/repr.rs through the typed translator after three checked
    desugarings (struct pattern, UFCS, `&mut self` method in state-passing form) — see vlib/extract_floatnorm.py.
    `Props/GenFloatNorm.lean` proves it equal to the hand models of C05 (`FRepr.normalize`) and C03 (`FRepr.new`)."""
    import importlib.util, sys
    spec = importlib.util.spec_from_file_location("vlib_extract_floatnorm",
                                                  os.path.join(os.path.dirname(os.path.abspath(__file__)), "extract_floatnorm.py"))
    mod = importlib.util.module_from_spec(spec)
    spec.loader.exec_module(mod)
    return mod.generate(sys.modules[__name__])


FILES["FloatNorm.lean"] = gen_float_norm          # C05: Repr::normalize regenerated (additive)

def gen_div_plumbing():
    """C02 (Tie A): the operator-trait plumbing table of integer division (which TypedRepr dispatch function, sign-table
    macro and operand accessor each `impl Trait<Rhs> for Lhs` of div_ops.rs / div_const.rs reaches), read from the
    MACRO-EXPANDED dashu-int — see vlib/divplumb.py.  The expansion (`cargo +nightly rustc -Zunpretty=expanded`, cached
    under .cache/c02-expand by a hash of the sources) is only run when the calling check builds a module that imports
    `Dashu.Gen.DivPlumbing`; for every other caller the file keeps its text.  `Props/C02Plumbing.lean` proves that every
    generated entry computes what C02 requires of its trait."""
    import importlib.util, subprocess
    path = os.path.join(GEN_DIR, "DivPlumbing.lean")
    mods = _caller_modules()
    needed = gen_files_needed(mods) if mods is not None else None
    if needed is not None and "DivPlumbing.lean" not in needed and os.path.exists(path):
        return open(path).read(), {}
    spec = importlib.util.spec_from_file_location("vlib_divplumb",
                                                  os.path.join(os.path.dirname(os.path.abspath(__file__)), "divplumb.py"))
    mod = importlib.util.module_from_spec(spec)
    spec.loader.exec_module(mod)
    try:
        text, info = mod.generate(REPO)
    except (mod.PlumbError, RuntimeError, OSError, subprocess.SubprocessError) as e:
        raise ExtractError("division plumbing table: %s" % (str(e)[-600:],))
    if info.get("unclassified"):
        # still written (the theorems over it then fail closed), but say so in the evidence
        info["note"] = "impl bodies outside the known shapes: " + ", ".join(info["unclassified"])
    return text, {"DivPlumbing": info}


FILES["DivPlumbing.lean"] = gen_div_plumbing      # C02: operator-trait plumbing table of integer division (additive)


def gen_error_bounds():
    """C18 (Tie A): the six `impl ErrorBounds for mode::X` of float/src/round.rs as decision tables, the half-ulp significand
    formula, and the decision skeleton of `RBig::simplest_from_float` — see vlib/extract_errorbounds.py.  `Props/C18Gen.lean`
    proves the hand model (`roundingSet Quirks.code`, the unlimited-precision panic, `fbigIsInfinite`, `pickSimplest`)
    equal to them."""
    import importlib.util, sys
    spec = importlib.util.spec_from_file_location("vlib_extract_errorbounds",
                                                  os.path.join(os.path.dirname(os.path.abspath(__file__)), "extract_errorbounds.py"))
    mod = importlib.util.module_from_spec(spec)
    spec.loader.exec_module(mod)
    return mod.generate(sys.modules[__name__])


FILES["ErrorBounds.lean"] = gen_error_bounds      # C18: ErrorBounds tables + simplest_from_float skeleton (additive)


def gen_trans_prec():
    """C11 (Tie A): the working-precision / guard-digit formulas of float/src/exp.rs, float/src/log.rs and the exponent of
    `FBig::sub_ulp` (float/src/fbig.rs), one Lean definition per source statement — see vlib/extract_transprec.py.
    `Props/C11Gen.lean` proves the definitions of the hand model (`Model/Trans/{Series,Powi,PowiNeg}.lean`) equal to them."""
    import importlib.util, sys
    spec = importlib.util.spec_from_file_location("vlib_extract_transprec",
                                                  os.path.join(os.path.dirname(os.path.abspath(__file__)), "extract_transprec.py"))
    mod = importlib.util.module_from_spec(spec)
    spec.loader.exec_module(mod)
    return mod.generate(sys.modules[__name__])


FILES["TransPrec.lean"] = gen_trans_prec          # C11: precision / guard-digit formulas of exp.rs, log.rs, sub_ulp (additive)


def gen_rat_ops():
    """C04 (Tie A): every operator macro body of rational/src/{add,mul,div}.rs (`impl_add_or_sub_with_rbig`, `impl_mul_int_with_rbig`,
    `impl_rbig_div_ibig`, … 24 bodies) as a Lean `do` block over `Model/Ratio/GenPrelude.lean`, plus the table of the
    `impl_binop_with_macro!` / `impl_binop_with_int!` invocations — see vlib/extract_ratops.py.  `Props/C04Gen.lean` proves every
    body equal to the hand-written model function the driver executes."""
    import importlib.util, sys
    spec = importlib.util.spec_from_file_location("vlib_extract_ratops",
                                                  os.path.join(os.path.dirname(os.path.abspath(__file__)), "extract_ratops.py"))
    mod = importlib.util.module_from_spec(spec)
    spec.loader.exec_module(mod)
    return mod.generate(sys.modules[__name__])


FILES["RatOps.lean"] = gen_rat_ops                # C04: operator macro bodies of dashu-ratio + invocation table (additive)


def gen_rat_fns():
    """C04 (Tie A): the `Repr`-level function bodies of dashu-ratio that are not macro bodies — repr.rs `reduce` / `reduce_with_hint` /
    `reduce2`, round.rs `split_at_point` / `ceil` / `floor` / `trunc` / `fract` / `round`, div.rs `Inverse::inv`, sign.rs `neg` / `abs` /
    `Mul<Sign>`, mul.rs `sqr` / `cubic` / `pow`, rbig.rs `from_parts` / `from_parts_signed` of both types — see vlib/extract_ratfns.py.
    `Props/C04Gen.lean` proves each equal to the hand-written model function the driver executes."""
    import importlib.util, sys
    spec = importlib.util.spec_from_file_location("vlib_extract_ratfns",
                                                  os.path.join(os.path.dirname(os.path.abspath(__file__)), "extract_ratfns.py"))
    mod = importlib.util.module_from_spec(spec)
    spec.loader.exec_module(mod)
    return mod.generate(sys.modules[__name__])


FILES["RatFns.lean"] = gen_rat_fns                # C04: Repr-level function bodies of dashu-ratio (additive)

def gen_macro_gen():
    """C20 (Tie A): decision logic of the code generators of the literal macros (macros/src/parse/{common,int,float,ratio}.rs):
    `quote_words`' common array length and `DataSelector` table, `define_array_converter!` instantiations and `INT_SIZE`, the
    const-path guards of `parse_integer` / `parse_binary_float` / `parse_decimal_float` / `parse_ratio`, the
    `match (signed, static_)` generator table, the `debug_assert!`s of `quote_ubig` / `quote_ibig`, the precision handed to each
    float constructor — see vlib/extract_macro.py.  `Props/C20Gen.lean` proves the hand model equal to them; the model CALLS
    `quote_words_max_len`."""
    import importlib.util, sys
    spec = importlib.util.spec_from_file_location("vlib_extract_macro",
                                                  os.path.join(os.path.dirname(os.path.abspath(__file__)), "extract_macro.py"))
    mod = importlib.util.module_from_spec(spec)
    spec.loader.exec_module(mod)
    return mod.generate(sys.modules[__name__])


FILES["MacroGen.lean"] = gen_macro_gen            # C20: code-generator decision logic of the literal macros (additive)

def gen_float_text():
    """C08 (Tie A): the scale-marker table and the hexadecimal-prefix test of `Repr::from_str_native` (float/src/parse.rs), the rows of
    `impl_fmt_with_base!` and the marker choice of `LowerExp`/`UpperExp` (float/src/fmt.rs) — see vlib/extract_floattext.py.
    `Props/C08.lean` proves the hand model (`isScaleMarker`, `hasHexPrefix`, `fmtSci`, `fmtRadixTrait`) equal to them."""
    import importlib.util, sys
    spec = importlib.util.spec_from_file_location("vlib_extract_floattext",
                                                  os.path.join(os.path.dirname(os.path.abspath(__file__)), "extract_floattext.py"))
    mod = importlib.util.module_from_spec(spec)
    spec.loader.exec_module(mod)
    return mod.generate(sys.modules[__name__])


FILES["FloatText.lean"] = gen_float_text          # C08: scale markers of the literal parser + marker table of the fmt traits (additive)


def gen_text_digit():
    """C07 (Tie A): `digit_from_ascii_byte`, `is_radix_valid`, `MIN_RADIX`, `MAX_RADIX` of integer/src/radix.rs — see
    vlib/extract_textdigit.py.  `Props/C07.lean` (`digit_table_regenerated`) proves `digitOf` / `validRadix` equal to them."""
    import importlib.util, sys
    spec = importlib.util.spec_from_file_location("vlib_extract_textdigit",
                                                  os.path.join(os.path.dirname(os.path.abspath(__file__)), "extract_textdigit.py"))
    mod = importlib.util.module_from_spec(spec)
    spec.loader.exec_module(mod)
    return mod.generate(sys.modules[__name__])


FILES["TextDigit.lean"] = gen_text_digit          # C07: digit table of the parsers + radix range (additive)


def gen_text_chunks():
    """C07 (Tie A, round 6): chunk-buffer arithmetic of `TypedReprRef::to_chunks` (RefLarge arm: word_per_chunk, allocate, push_zeros)
    and of the word-aligned shortcut of `words_to_chunks` (integer/src/convert.rs) — see vlib/extract_textchunks.py.
    `Props/C07.lean` (`chunk_buffer_formulas_regenerated`) proves the hand model of Model/Text/ChunksBuf.lean equal to them."""
    import importlib.util, sys
    spec = importlib.util.spec_from_file_location("vlib_extract_textchunks",
                                                  os.path.join(os.path.dirname(os.path.abspath(__file__)), "extract_textchunks.py"))
    mod = importlib.util.module_from_spec(spec)
    spec.loader.exec_module(mod)
    return mod.generate(sys.modules[__name__])


FILES["TextChunks.lean"] = gen_text_chunks        # C07 round 6: chunk-buffer arithmetic of to_chunks / words_to_chunks (additive)


def gen_arch_add():
    """C19 (Tie A): integer/src/arch/** — `add_with_carry` / `sub_with_borrow` bodies (generic + x86 intrinsics), module
    tables, `Word` types and the cfg_if selection chain — see vlib/extract_archadd.py.  `Props/C19Arch.lean` proves them."""
    import importlib.util, sys
    spec = importlib.util.spec_from_file_location("vlib_extract_archadd",
                                                  os.path.join(os.path.dirname(os.path.abspath(__file__)), "extract_archadd.py"))
    mod = importlib.util.module_from_spec(spec)
    spec.loader.exec_module(mod)
    return mod.generate(sys.modules[__name__])


FILES["ArchAdd.lean"] = gen_arch_add              # C19: architecture layer add/sub + selection tables (additive)

def gen_size_guards():
    """C16 (Tie A): size arithmetic in front of `Buffer::allocate` / bare assertions — `Repr::from_chunks` (convert.rs),
    `max_exp_in_word` (math.rs), rational `Repr::to_float` — see vlib/extract_sizeguards.py.  `Props/C16Gen.lean` proves the
    hand-mirrored definitions of `Model/Panic/Guards5.lean` equal to them."""
    import importlib.util, sys
    spec = importlib.util.spec_from_file_location("vlib_extract_sizeguards",
                                                  os.path.join(os.path.dirname(os.path.abspath(__file__)), "extract_sizeguards.py"))
    mod = importlib.util.module_from_spec(spec)
    spec.loader.exec_module(mod)
    return mod.generate(sys.modules[__name__])


FILES["SizeGuards.lean"] = gen_size_guards        # C16: reservation arithmetic of from_chunks / max_exp_in_word / to_float (additive)


def gen_root_tables():
    """C12 (Tie A): `RSQRT_TAB` / `RCBRT_TAB` (base/src/ring/root.rs), `LOG2_TAB` (base/src/math/log.rs) and the
    under-estimate margins / index offsets / KBITS of the primitive table+Newton roots — see vlib/extract_roottabs.py.
    `Props/C12.lean` (`root_tables_regenerated`) proves the hand model's tables and literals equal to them."""
    import importlib.util, sys
    spec = importlib.util.spec_from_file_location("vlib_extract_roottabs",
                                                  os.path.join(os.path.dirname(os.path.abspath(__file__)), "extract_roottabs.py"))
    mod = importlib.util.module_from_spec(spec)
    spec.loader.exec_module(mod)
    return mod.generate(sys.modules[__name__])


FILES["RootTables.lean"] = gen_root_tables        # C12: lookup tables + margins of the primitive roots (additive)

# the v2 areas (typed translator) are listed by build_areas(); one Gen file each
V2_FILES = [a.name + ".lean" for a in build_areas()]


def generate_all():
    """{file name: (text | None, error | None)}, info — nothing is written"""
    res, info = {}, {}
    for fname, fn in FILES.items():
        try:
            text, inf = fn()
            res[fname] = (text, None)
            info.update(inf)
        except ExtractError as e:
            res[fname] = (None, str(e))
        except (IndexError, KeyError, ValueError) as e:      # malformed source text: still fail closed
            res[fname] = (None, "translator cannot read the source: %r" % (e,))
    try:
        r2, i2 = regenerate_v2(None)
    except (IndexError, KeyError, ValueError) as e:
        r2, i2 = {f: (None, "translator cannot read the source: %r" % (e,)) for f in V2_FILES}, {}
    res.update(r2)
    info.update(i2)
    return res, info


def gen_files_needed(modules):
    """Gen files in the import closure of the given Lean modules (None = all)"""
    if modules is None:
        return None
    seen, todo = set(), list(modules)
    lean_root = os.path.join(ROOT, "lean")
    while todo:
        m = todo.pop()
        if m in seen:
            continue
        seen.add(m)
        path = os.path.join(lean_root, *m.split(".")) + ".lean"
        if not os.path.exists(path):
            continue
        for line in open(path):
            mm = re.match(r"\s*(?:public\s+)?import\s+((?:Dashu|Mains)\.[A-Za-z0-9_.]+)", line)
            if mm:
                todo.append(mm.group(1))
    return sorted(m.split(".")[-1] + ".lean" for m in seen if m.startswith("Dashu.Gen."))


def _caller_modules():
    """`check` imports exactly one property module (`vlib.props.cNN`) before it calls regenerate():
    the Lean modules that run is going to build (theorem modules, audits, the group's driver)"""
    import sys
    mods = [m for n, m in sys.modules.items() if re.fullmatch(r"vlib\.props\.c\d\d", n) and m is not None]
    if len(mods) != 1:
        return None
    P = mods[0]
    out = [getattr(P, "LEAN_PROPS", None), getattr(P, "LEAN_AUDIT", None)]
    out += list(getattr(P, "GEN_PROPS", [])) + list(getattr(P, "GEN_AUDIT", []))
    if getattr(P, "GROUP", None):
        try:
            txt = open(os.path.join(ROOT, "lean", "lakefile.toml")).read()
            m = re.search(r'name\s*=\s*"drive_%s"\s*\n\s*root\s*=\s*"([^"]+)"' % re.escape(P.GROUP), txt)
            out.append(m.group(1) if m else "Mains." + P.GROUP.capitalize())
        except OSError:
            return None
    return [m for m in out if m]


def regenerate(only=None, out_dir=None, for_modules=None):
    """rewrite lean/Dashu/Gen/*.lean (only when content changed, so lake does not rebuild);
    returns (ok, info).  `for_modules`: Lean modules the caller is going to build — a failure to
    regenerate a file outside their import closure is reported in info["other_errors"] but does not
    make the result not-ok (a file that could not be regenerated keeps its previous text)."""
    gen_dir = out_dir or GEN_DIR
    os.makedirs(gen_dir, exist_ok=True)
    res, info = generate_all()
    if for_modules is None and out_dir is None:
        for_modules = _caller_modules()
    needed = gen_files_needed(for_modules)
    if needed is not None:
        info["_needed"] = needed
    ok, errors, other = True, [], []
    for fname in sorted(res):
        if only and fname not in only:
            continue
        text, err = res[fname]
        if err is not None:
            msg = "%s: %s" % (fname, err)
            if needed is None or fname in needed:
                ok = False
                errors.append(msg)
            else:
                other.append(msg)
            continue
        path = os.path.join(gen_dir, fname)
        old = open(path).read() if os.path.exists(path) else None
        if old != text:
            with open(path + ".tmp", "w") as f:
                f.write(text)
            os.replace(path + ".tmp", path)
            info.setdefault("_changed", []).append(fname)
    if errors:
        info["error"] = "; ".join(errors)
    if other:
        info["other_errors"] = "; ".join(other)
    return ok, info


# ------------------------------------------------------------------ self test

MUTATIONS = [
    # (id, file, old text (regex), new text, what it is)
    ("M1", "float/src/cmp.rs", r"\(Sign::Positive, Sign::Negative\) => return Ordering::Greater,\n(\s*)\(Sign::Negative, Sign::Positive\) => return Ordering::Less,",
     "(Sign::Positive, Sign::Negative) => return Ordering::Less,\n\\1(Sign::Negative, Sign::Positive) => return Ordering::Greater,",
     "swap the results of two match arms of the sign table in repr_cmp_same_base"),
    ("M2", "float/src/cmp.rs", r"if lhs_exp > rhs_exp \+ rhs_digits as isize \{", "if lhs_exp >= rhs_exp + rhs_digits as isize {",
     "flip `>` to `>=` in the exponent/digit-count shortcut of repr_cmp_same_base"),
    ("M3", "float/src/add.rs", r"&& rdigits_est \+ 1 < ediff", "&& rdigits_est < ediff",
     "drop the `+ 1` guard digit of the far-apart test in repr_add_large_small"),
    ("M4", "float/src/add.rs", r"\(rnd_precision - ldigits\) \+ 2", "(rnd_precision - ldigits) + 1",
     "change the stand-in precision constant 2 -> 1 in repr_add_large_small"),
    ("M5", "float/src/round_ops.rs", r"Sign::Positive => FBig::new\(Repr::one\(\), context\),", "Sign::Positive => FBig::new(Repr::zero(), context),",
     "ceil of a small positive number returns 0 instead of 1"),
    ("M6", "rational/src/cmp.rs", r"n1d2_bits\.abs_diff\(n2d1_bits\) > 1", "n1d2_bits.abs_diff(n2d1_bits) > 0",
     "tighten the bit-length filter of rational repr_eq (1 -> 0)"),
    ("M7", "float/src/repr.rs", r"self\.exponent \+ \(self\.digits_ub\(\) as isize\) < -1", "self.exponent + (self.digits_ub() as isize) < 0",
     "smaller_than_one threshold -1 -> 0"),
    ("M8", "integer/src/mul/mod.rs", r"const THRESHOLD_KARATSUBA: usize = 192;", "const THRESHOLD_KARATSUBA: usize = 193;",
     "change the Karatsuba/Toom-3 dispatch threshold", "model-calls-it"),
    ("M9", "float/src/round.rs", r"(impl Round for mode::HalfAway \{.*?Ordering::Equal => \{.*?)Rounding::AddOne", "\\1Rounding::SubOne",
     "HalfAway tie with a positive low part rounds down instead of up"),
    ("M10", "float/src/cmp.rs", r"if lhs_lo > rhs_hi \{\n(\s*)return Ordering::Greater;", "if !(lhs_lo <= rhs_hi) {\n\\1return Ordering::Greater;",
     "harmless rewrite `a > b` -> `!(a <= b)` on f32 estimates (operator outside the whitelist)"),
    ("M11", "rational/src/cmp.rs", r"(fn repr_eq<const ABS: bool>\(a: &Repr, b: &Repr\) -> bool \{)", "\\1\n    for _ in 0..1 {}",
     "insert a loop into repr_eq (construct outside the decision-logic subset)"),
    ("M12", "float/src/add.rs", r"Ordering::Greater => self\.repr_add_large_small\(lhs\.clone\(\), rhs, Positive\),\n(\s*)Ordering::Less => self\.repr_add_small_large\(lhs\.clone\(\), rhs, Positive\),",
     "Ordering::Greater => self.repr_add_small_large(lhs.clone(), rhs, Positive),\n\\1Ordering::Less => self.repr_add_large_small(lhs.clone(), rhs, Positive),",
     "Context::add calls the two alignment routines the wrong way round"),
    ("M13", "float/src/root.rs", r"assert_finite\(x\);\n(\s*)assert_limited_precision\(self\.precision\);\n(\s*)if x\.sign\(\) == Sign::Negative \{",
     "assert_limited_precision(self.precision);\n\\1assert_finite(x);\n\\2if x.sign() == Sign::Negative {",
     "Context::sqrt checks the precision before the infinity (another panic kind for an infinite operand at precision 0)"),
    ("M14", "integer/src/root_ops.rs", r"if sign == Sign::Negative && n % 2 == 0 \{", "if sign == Sign::Negative && n % 2 == 1 {",
     "IBig::nth_root refuses odd roots of negative numbers instead of even ones"),
    ("M15", "integer/src/radix.rs", r"pub const MAX_RADIX: Digit = 36;", "pub const MAX_RADIX: Digit = 37;",
     "MAX_RADIX 36 -> 37 (in_radix accepts an undocumented radix)"),
    ("M16", "integer/src/shift_ops.rs", r"-IBig\(mag >> rhs\) - IBig::from\(b\)", "-IBig(mag >> rhs)",
     "`IBig >> n` of a negative number truncates toward zero instead of rounding toward -inf (first form only)"),
    ("M17", "integer/src/cmp.rs", r"\(Negative, Negative\) => rhs_mag\.cmp\(&lhs_mag\),", "(Negative, Negative) => lhs_mag.cmp(&rhs_mag),",
     "`Ord for IBig` compares two negative numbers by magnitude the wrong way round"),
    ("M18", "float/src/shift.rs", r"(fn shr_assign\(&mut self, rhs: isize\) \{.*?)self\.repr\.exponent -= rhs;", "\\1self.repr.exponent -= rhs;\n            self.repr.exponent -= rhs;",
     "float `>>=` shifts twice (the historical call-form defect; Props/C15Forms.f_shift_forms)"),
    ("M20", "float/src/add.rs", r"Ordering::Greater => context\.repr_add_small_large\(rhs\.repr, &lhs\.repr, Positive\),\n(\s*)Ordering::Less => context\.repr_add_large_small\(rhs\.repr, &lhs\.repr, Positive\),",
     "Ordering::Greater => context.repr_add_large_small(rhs.repr, &lhs.repr, Positive),\n\\1Ordering::Less => context.repr_add_small_large(rhs.repr, &lhs.repr, Positive),",
     "add_ref_val (`&a + b`, the consuming form with exchanged operands) calls the two alignment routines the wrong way round (Props/C15FloatAdd)"),
    ("M19", "rational/src/helper_macros.rs", r"let \(ra, rb, rc, rd\) = \(&a, &b, c, d\);", "let (ra, rb, rc, rd) = (&a, &b, d, c);",
     "ratio `a op &b` form hands the core the rhs parts exchanged (Props/C15Forms.q_binop_with_macro_forms)"),
    ("M21", "integer/src/math.rs", r"pub fn ceil_div<T: PrimitiveUnsigned>\(a: T, b: T\) -> T \{\n\s*if a == T::from\(0u8\) \{\n\s*T::from\(0u8\)\n\s*\} else \{\n\s*\(a - T::from\(1u8\)\) / b \+ T::from\(1u8\)\n\s*\}",
     "pub fn ceil_div<T: PrimitiveUnsigned>(a: T, b: T) -> T {\n    (a + (b - T::from(1u8))) / b",
     "ceil_div written as the textbook `(a + (b - 1)) / b`: equal on unbounded integers, overflows within b-1 of the type maximum (Props/GenMath.gen_ceil_div)"),
    ("M22", "integer/src/math.rs", r"pub const fn ones_word\(n: u32\) -> Word \{\n\s*if n == 0 \{\n\s*0\n\s*\} else \{\n\s*Word::MAX >> \(Word::BIT_SIZE - n\)\n\s*\}",
     "pub const fn ones_word(n: u32) -> Word {\n    Word::MAX >> (Word::BIT_SIZE - n)",
     "ones_word without the `n == 0` arm: the shift amount reaches the width (Props/GenMath.gen_ones_word)"),
    ("M23", "integer/src/math.rs", r"let \(c, r\) = split_dword\(double_word\(0, w\) >> shift\);\n(\s*)\(r, c\)", "let (c, r) = split_dword(double_word(0, w) >> shift);\n\\1(c, r)",
     "shr_word returns (shifted-out bits, result) in the wrong order (Props/GenMath.gen_shr_word)"),
    ("M24", "integer/src/shift_ops.rs", r"if rhs < DWORD_BITS_USIZE \{\n\s*Repr::from_dword\(dword >> rhs\)\n\s*\} else \{\n\s*Repr::zero\(\)\n\s*\}",
     "Repr::from_dword(dword.checked_shr(rhs as u32).unwrap_or(0))",
     "shr_dword through `checked_shr(rhs as u32)`: the count is truncated to 32 bits before the range test (outside the subset: fails closed)"),
    ("M25", "integer/src/bits.rs", r"(pub fn clear_high_bits\(self, n: usize\) -> Repr \{\n\s*match self \{\n\s*Small\(dword\) => \{\n\s*)if n < DWORD_BITS_USIZE \{",
     "\\1if (n as u32) < DWORD_BITS {",
     "clear_high_bits (inline arm) tests the bit count after narrowing it to u32 (Props/GenBitsSmall.gen_clear_high_bits_small)"),
    ("M26", "integer/src/bits.rs", r"let n = n\.min\(DWORD_BITS_USIZE\) as u32;", "let n = (n as u32).min(DWORD_BITS);",
     "are_dword_low_bits_nonzero clamps the count after narrowing it to u32 (Props/GenBitsSmall.gen_are_dword_low_bits_nonzero)"),
    ("M27", "integer/src/bits.rs", r"RefSmall\(dword\) => n < DWORD_BITS_USIZE && dword & 1 << n != 0,", "RefSmall(dword) => dword & 1 << n != 0,",
     "TypedReprRef::bit (inline arm) without the range guard: the shift overflows for n >= 128 (Props/GenBitsSmall.gen_bit_small)"),
    ("M28", "integer/src/shift_ops.rs", r"(pub\(crate\) fn shr_large_ref\(words: &\[Word\], rhs: usize\) -> Repr \{\n\s*)let shift_words = rhs / WORD_BITS_USIZE;",
     "\\1let shift_words = (rhs as u32 as usize) / WORD_BITS_USIZE;",
     "shr_large_ref computes the word shift from the count narrowed to u32 (Props/GenBitsSmall.gen_heap_indices)"),
    ("M29", "integer/src/repr.rs", r"\} else if n <= DWORD_BITS_USIZE \{\n(\s*)Self::from_dword\(ones_dword\(n as _\)\)", "} else if n < DWORD_BITS_USIZE {\n\\1Self::from_dword(ones_dword(n as _))",
     "Repr::ones builds n = DWORD_BITS on the heap again (the historical non-canonical `ones(128)`; Props/GenBitsSmall.gen_ones_inline)"),
    ("M30", "integer/src/shift.rs", r"for word in words\.iter_mut\(\)\.rev\(\) \{", "for word in words.iter_mut() {",
     "shr_in_place_with_carry walks the words low word first: the carry travels the wrong way (Props/GenShift.gen_shr_in_place_with_carry)"),
    ("M31", "integer/src/shift.rs", r"split_dword\(extend_word\(\*word\) << shift\)", "split_dword(extend_word(*word << shift))",
     "shl_in_place shifts inside the single word: the bits that should become the carry are lost (Props/GenShift.gen_shl_step)"),
    ("M32", "integer/src/shift.rs", r"(let \(new_word, new_carry\) = shr_word\(\*word, shift\);\n\s*\*word = new_word \| carry;\n\s*)carry = new_carry;", "\\1carry = new_word;",
     "shr_in_place_with_carry hands the wrong half of shr_word's result on as carry (Props/GenShift.gen_shr_step)"),
    ("M33", "integer/src/shift.rs", r"ptr\.add\(words\.len\(\) - 1\)\.write\(0\);", "ptr.add(words.len() - 1).write(rem);",
     "shr_in_place_one_word writes the shifted-out word into the top word (raw-pointer text is recognised verbatim: fails closed)"),
    ("M34", "integer/src/shift.rs", r"if shift == WORD_BITS \{\n(\s*)shr_in_place_one_word\(words\)", "if shift == 0 {\n\\1shr_in_place_one_word(words)",
     "shr_in_place takes the whole-word arm for shift 0 instead of WORD_BITS (Props/GenShift.gen_shr_in_place)"),
    ("M35", "integer/src/helper_macros.rs", r"(impl \$trait<\$t> for \$target \{\n\s*type Output = \$omethod;\n\s*#\[inline\]\n\s*fn \$method\(self, rhs: \$t\) -> \$omethod \{\n\s*)<\$t>::from\(self\)\.\$method\(rhs\)\.try_into\(\)\.unwrap\(\)",
     "\\1rhs.$method(<$t>::from(self)).try_into().unwrap()",
     "primitive-first form `uN op big` hands the operands to the operator in the other order (Props/GenBitsPrim: the hand model's `swap` order is read from the source)"),
    ("M36", "integer/src/helper_macros.rs", r"(fn \$method\(&mut self, rhs: \$target\) \{\n\s*)self\.\$method\(<\$t>::from\(rhs\)\)", "\\1self.$method(<$t>::from(rhs)); self.$method(<$t>::from(rhs))",
     "`big op= primitive` applies the operator twice (Props/GenBitsPrim.gen_ubig_op_prim; visible for ^=)"),
    ("M37", "integer/src/bits.rs", r"let mut one_words = 0;", "let mut one_words = 1;",
     "trailing_ones_large starts its scan at word 1 (half of the historical defect 754b193; Props/GenScans.gen_trailing_ones_large)"),
    ("M38", "integer/src/bits.rs", r"if one_words == words\.len\(\) \{\n\s*return one_words \* WORD_BITS_USIZE;\n\s*\}\n", "",
     "trailing_ones_large without the all-ones exit: indexes past the end (the other half of 754b193; Props/GenScans.gen_trailing_ones_large)"),
    ("M39", "integer/src/bits.rs", r"\(zero_words - 1\) \* WORD_BITS_USIZE \+ zero_bits \+ zero_begin - 1", "(zero_words - 1) * WORD_BITS_USIZE + zero_bits + zero_begin",
     "trailing_zeros_large_shifted_by_one off by one (Props/GenScans.gen_trailing_zeros_large_shifted_by_one)"),
    ("M40", "integer/src/shift_ops.rs", r"buffer\.push_zeros\(shift_words\);\n(\s*)buffer\.push_slice\(words\);", "buffer.push_slice(words);\n\\1buffer.push_zeros(shift_words);",
     "shl_large_ref pushes the words before the zero words (Props/GenShiftHeap.gen_shl_large_ref)"),
    ("M41", "integer/src/shift_ops.rs", r"buffer\.push\(1 << \(rhs % WORD_BITS_USIZE\)\);", "buffer.push(1 << (rhs / WORD_BITS_USIZE));",
     "shl_one_spilled takes the bit position from the word index (Props/GenShiftHeap.gen_shl_one_spilled)"),
    ("M42", "integer/src/shift_ops.rs", r"buffer\.erase_front\(shift_words\);", "buffer.erase_front(shift_words + 1);",
     "shr_large drops one word too many (Props/GenShiftHeap.gen_shr_large)"),
    ("M43", "integer/src/shift_ops.rs", r"(let carry = shift::shl_in_place\(&mut buffer, shift_bits\);\n\s*)buffer\.push\(carry\);\n", "\\1",
     "shl_large loses the carry word (Props/GenShiftHeap.gen_shl_large)"),
    ("M44", "integer/src/bits.rs", r"buffer\.push_zeros\(idx - 2\);", "buffer.push_zeros(idx - 1);",
     "with_bit_dword_spilled pushes one zero word too many (Props/GenBitsHeap.gen_with_bit_dword_spilled)"),
    ("M45", "integer/src/bits.rs", r"buffer\.push_zeros\(idx - buffer\.len\(\)\);", "buffer.push_zeros(idx + 1 - buffer.len());",
     "with_bit_large pushes one zero word too many (Props/GenBitsHeap.gen_with_bit_large)"),
    ("M46", "integer/src/bits.rs", r"if n_words > buffer\.len\(\) \{", "if n_words >= buffer.len() {",
     "clear_high_bits_large skips the cut inside the top word (Props/GenBitsHeap.gen_clear_high_bits_large)"),
    ("M47", "integer/src/bits.rs", r"\*last &= ones_word\(\(n % WORD_BITS_USIZE\) as u32\);", "*last &= ones_word((n % WORD_BITS_USIZE) as u32 + 1);",
     "clear_high_bits_large masks one bit too wide (Props/GenBitsHeap.gen_clear_high_bits_large)"),
    ("M148", "integer/src/bits.rs", r"(fn bitand_large\(mut buffer: Buffer, rhs: &\[Word\]\) -> Repr \{\n)\s*if buffer\.len\(\) > rhs\.len\(\) \{\n\s*buffer\.truncate\(rhs\.len\(\)\);\n\s*\}\n", "\\1",
     "bitand_large without the truncation to the shorter operand: high words of the longer buffer survive (Props/GenBitOpsHeap.gen_bitand_large)"),
    ("M149", "integer/src/bits.rs", r"(fn bitor_large\(.*?)\*x \|= \*y;", "\\1*x ^= *y;",
     "bitor_large xors the common prefix (Props/GenBitOpsHeap.gen_bitor_large)"),
    ("M150", "integer/src/bits.rs", r"(fn bitxor_large\(.*?)buffer\.push_slice\(&rhs\[buffer\.len\(\)\.\.\]\);", "\\1",
     "bitxor_large drops the rest of a longer rhs (Props/GenBitOpsHeap.gen_bitxor_large)"),
    ("M151", "integer/src/bits.rs", r"\*x &= !\*y;", "*x &= *y;",
     "and_not_large without the complement (Props/GenBitOpsHeap.gen_and_not_large)"),
    ("M152", "integer/src/bits.rs", r"words\[\.\.n_words\]\.iter\(\)\.any\(\|x\| \*x != 0\) \|\| ", "",
     "are_slice_low_bits_nonzero ignores the whole words below the cut: `IBig >> n` no longer floors (Props/GenScans.gen_are_slice_low_bits_nonzero)"),
    ("M153", "integer/src/bits.rs", r"if n_words >= words\.len\(\) \{\n(\s*)true", "if n_words > words.len() {\n\\1true",
     "are_slice_low_bits_nonzero leaves one word late: `words[len]` is indexed (Props/GenScans.gen_are_slice_low_bits_nonzero)"),
    ("M154", "integer/src/shift_ops.rs", r"&\[lo, hi\] => Repr::from_dword\(double_word\(lo, hi\) >> shift_bits\),", "&[lo, hi] => Repr::from_dword(double_word(hi, lo) >> shift_bits),",
     "shr_large_ref two-word shortcut builds the double word with the halves exchanged (Props/GenShiftHeap.gen_shr_large_ref; round-3 mutant m11's site)"),
    ("M155", "integer/src/bits.rs", r"buffer\[idx\] &= !\(1 << \(n % WORD_BITS_USIZE\)\);", "buffer[idx] &= 1 << (n % WORD_BITS_USIZE);",
     "clear_bit (heap arm) keeps only the bit instead of clearing it (Props/GenBitsHeap.gen_clear_bit_large)"),
    ("M156", "integer/src/bits.rs", r"let hi = shift_ops::repr::shr_large_ref\(&buffer, n\);\n(\s*)let lo = clear_high_bits_large\(buffer, n\);\n(\s*)\(lo, hi\)", "let hi = shift_ops::repr::shr_large_ref(&buffer, n);\n\\1let lo = clear_high_bits_large(buffer, n);\n\\2(hi, lo)",
     "split_bits (heap arm) returns (high, low) (Props/GenBitsHeap.gen_split_bits_large)"),
    ("M157", "integer/src/bits.rs", r"(RefLarge\(buffer\) => \{\n\s*)let idx = n / WORD_BITS_USIZE;(\n\s*idx < buffer\.len\(\))", "\\1let idx = (n as u32 as usize) / WORD_BITS_USIZE;\\2",
     "TypedReprRef::bit (heap arm) computes the word index from the position narrowed to u32 (round-4 mutant m16; Props/GenScans.gen_bit_large)"),
    ("M158", "integer/src/bits.rs", r"words\.len\(\) \* WORD_BITS_USIZE - words\.last\(\)\.unwrap\(\)\.leading_zeros\(\) as usize", "words.len() * WORD_BITS_USIZE - words.last().unwrap().leading_zeros() as usize + 1",
     "TypedReprRef::bit_len (heap arm) off by one (Props/GenScans.gen_bit_len_large)"),
    ("M159", "integer/src/bits.rs", r"words\[\.\.words\.len\(\) - 1\]\.iter\(\)\.all\(\|x\| \*x == 0\)\n\s*&& words\.last\(\)\.unwrap\(\)\.is_power_of_two\(\)", "words.last().unwrap().is_power_of_two()",
     "is_power_of_two (heap arm) does not look at the low words (round-3 mutant m08's class; Props/GenScans.gen_is_power_of_two_large)"),
    ("M160", "integer/src/bits.rs", r"RefLarge\(words\) => words\.iter\(\)\.map\(\|w\| w\.count_ones\(\) as usize\)\.sum\(\),", "RefLarge(words) => words.iter().map(|w| w.count_zeros() as usize).sum(),",
     "count_ones (heap arm) counts zero bits (Props/GenScans.gen_count_ones_large)"),
    ("M161", "integer/src/repr.rs", r"if hi_bits > 0 \{\n(\s*)buffer\.push\(ones_word\(hi_bits as _\)\);", "if hi_bits > 1 {\n\\1buffer.push(ones_word(hi_bits as _));",
     "Repr::ones (heap arm) drops the top word when n = 1 mod WORD_BITS (Props/GenReprOnes.gen_repr_ones)"),
    ("M162", "integer/src/repr.rs", r"buffer\.push_repeat::<\{ Word::MAX \}>\(lo_words\);", "buffer.push_repeat::<{ Word::MAX }>(lo_words - 1);",
     "Repr::ones (heap arm) pushes one all-ones word too few (Props/GenReprOnes.gen_repr_ones)"),
    ("M163", "integer/src/repr.rs", r"unsafe \{ mem::transmute\(buffer\) \}\n(\s*)\}\n(\s*)\}\n\n(\s*)/// Flip the sign bit", "unsafe { mem::transmute::<Buffer, Repr>(buffer) }\n\\1}\n\\2}\n\n\\3/// Flip the sign bit",
     "Repr::ones: the transmute is written in another form (outside the recognised text: fails closed)"),
    # C09 operator dispatch of bits.rs (Gen/BitDispatch.lean, vlib/extract_bitdispatch.py)
    ("M164", "integer/src/bits.rs", r"\(Small\(dword0\), Large\(buffer1\)\) => bitor_large_dword\(buffer1, dword0\),", "(Small(dword0), Large(buffer1)) => bitxor_large_dword(buffer1, dword0),",
     "`|` (val_val) inline/heap arm calls the xor kernel (Props/GenBitDispatch.gen_bitor_dispatch)"),
    ("M165", "integer/src/bits.rs", r"\(Large\(buffer0\), RefLarge\(buffer1\)\) => and_not_large\(buffer0, buffer1\),", "(Large(buffer0), RefLarge(buffer1)) => and_not_large(buffer1.into(), &buffer0),",
     "and_not (val_ref) heap/heap arm with the operands exchanged: y & !x (Props/GenBitDispatch.gen_and_not_dispatch)"),
    ("M166", "integer/src/bits.rs", r"Repr::from_dword\(buffer0\.lowest_dword\(\) & dword1\)", "Repr::from_dword(buffer0.lowest_dword() | dword1)",
     "`&` heap/inline shortcut uses `|` (Props/GenBitDispatch.gen_bitand_dispatch)"),
    ("M167", "integer/src/bits.rs", r"\(Small\(dword0\), Small\(dword1\)\) => Repr::from_dword\(dword0 & !dword1\),", "(Small(dword0), Small(dword1)) => Repr::from_dword(dword0 & dword1),",
     "and_not (val_val) inline/inline arm drops the complement (Props/GenBitDispatch.gen_and_not_dispatch)"),
    ("M168", "integer/src/bits.rs", r"\(RefSmall\(dword0\), Large\(buffer1\)\) => \{\n\s*Repr::from_dword\(dword0 & !buffer1\.lowest_dword\(\)\)\n\s*\}", "(RefSmall(dword0), Large(buffer1)) => and_not_large_dword(buffer1, dword0),",
     "and_not (ref_val) inline/heap arm computes y & !x on the heap (Props/GenBitDispatch.gen_and_not_dispatch)"),
    ("M169", "integer/src/bits.rs", r"rhs\.bitand\(self\)", "rhs.bitor(self)",
     "`&` (ref_val) forwards to `|` (outside the subset: the forwarding must name the impl's own method — fails closed)"),
    # C09 next_power_of_two (Gen/NextPow2.lean, vlib/extract_nextpow2.py)
    ("M170", "integer/src/bits.rs", r"let mut iter = buffer\[\.\.n - 1\]\.iter_mut\(\)", "let mut iter = buffer[..n - 2].iter_mut()",
     "next_power_of_two_large does not look at the word below the top word (Props/GenNextPow2.gen_next_power_of_two_large)"),
    ("M171", "integer/src/bits.rs", r"None => 0,\n(\s*)Some\(x\) => \{\n(\s*)\*x = 0;", "None => 1,\n\\1Some(x) => {\n\\2*x = 0;",
     "next_power_of_two_large carries although all low words are zero: an exact power of two is doubled (Props/GenNextPow2.gen_next_power_of_two_large)"),
    ("M172", "integer/src/bits.rs", r"for x in iter \{\n(\s*)\*x = 0;\n(\s*)\}\n(\s*)1\n", "for x in iter {\n\\1*x = 0;\n\\2}\n\\3 0\n",
     "next_power_of_two_large loses the carry of non-zero low words (Props/GenNextPow2.gen_next_power_of_two_large)"),
    ("M173", "integer/src/bits.rs", r"\*last = 0;\n(\s*)buffer\.push_resizing\(1\);", "*last = 1;\n\\1buffer.push_resizing(1);",
     "next_power_of_two_large leaves a bit in the old top word on overflow (Props/GenNextPow2.gen_next_power_of_two_large)"),
    ("M174", "integer/src/bits.rs", r"let mut buffer = Buffer::allocate\(3\);\n(\s*)buffer\.push_zeros\(2\);\n(\s*)buffer\.push\(1\);", "let mut buffer = Buffer::allocate(3);\n\\1buffer.push_zeros(1);\n\\2buffer.push(1);",
     "TypedRepr::next_power_of_two: the spilled inline arm builds 2^W instead of 2^(2W) (Props/GenNextPow2.gen_next_power_of_two)"),
    ("M175", "integer/src/bits.rs", r"\.skip_while\(\|x\| \*\*x == 0\);", ".skip_while(|x| **x != 0);",
     "next_power_of_two_large skips the NON-zero words (outside the recognised statement sequence: fails closed)"),
    ("M176", "integer/src/bits.rs", r"if words\[0\] & 1 == 0 \{\n(\s*)Some\(0\)", "if words[0] & 1 == 1 {\n\\1Some(0)",
     "trailing_ones_neg (heap arm) with the parity test inverted (Props/GenScans.gen_trailing_ones_neg_large)"),
    ("M177", "integer/src/bits.rs", r"Some\(trailing_zeros_large_shifted_by_one\(words\) \+ 1\)", "Some(trailing_zeros_large_shifted_by_one(words))",
     "trailing_ones_neg (heap arm) forgets the lowest one bit (Props/GenScans.gen_trailing_ones_neg_large)"),
    # C09 sign-level bit functions of IBig (Gen/IntBits.lean, typed translator)
    ("M178", "integer/src/bits.rs", r"Ordering::Greater => !repr\.bit\(n\),", "Ordering::Greater => repr.bit(n),",
     "IBig::bit of a negative value: bits above the lowest set bit not complemented (Props/GenIntBits.gen_ibig_bit)"),
    ("M179", "integer/src/bits.rs", r"Ordering::Equal => true,\n(\s*)Ordering::Greater => !repr\.bit\(n\),\n(\s*)Ordering::Less => false,", "Ordering::Equal => false,\n\\1Ordering::Greater => !repr.bit(n),\n\\2Ordering::Less => true,",
     "IBig::bit of a negative value: the lowest set bit and the zeros below it exchanged (Props/GenIntBits.gen_ibig_bit)"),
    ("M180", "integer/src/bits.rs", r"Positive => IBig\(mag\.add_one\(\)\.with_sign\(Negative\)\),", "Positive => IBig(mag.add_one().with_sign(Positive)),",
     "!IBig (by value) of a non-negative value keeps the sign: x + 1 instead of -x - 1 (Props/GenIntBits.gen_ibig_not)"),
    ("M181", "integer/src/bits.rs", r"Positive => Some\(repr\.trailing_ones\(\)\),\n(\s*)Negative => repr\.trailing_ones_neg\(\),", "Positive => repr.trailing_ones_neg(),\n\\1Negative => Some(repr.trailing_ones()),",
     "IBig::trailing_ones with the sign arms exchanged (Props/GenIntBits.gen_ibig_trailing_ones)"),
    # C09 shl_dword (Gen/ShiftHeap.lean, appended in round 6)
    ("M182", "integer/src/shift_ops.rs", r"if rhs <= dword\.leading_zeros\(\) as usize \{", "if rhs <= dword.leading_zeros() as usize + 1 {",
     "shl_dword shifts inline one bit too far: the top bit is lost (Props/GenShiftHeap.gen_shl_dword_repr)"),
    ("M183", "integer/src/shift_ops.rs", r"\} else if dword == 1 \{\n(\s*)shl_one_spilled\(rhs\)", "} else if dword == 2 {\n\\1shl_one_spilled(rhs)",
     "shl_dword sends 2 (not 1) to shl_one_spilled (Props/GenShiftHeap.gen_shl_dword_repr)"),
    # C09 << / >> dispatch of shift_ops.rs (Gen/ShiftDispatch.lean)
    ("M184", "integer/src/shift_ops.rs", r"RefLarge\(words\) => shr_large_ref\(words, rhs\),", "RefLarge(words) => shl_large_ref(words, rhs),",
     "`>>` of a borrowed heap value shifts left (Props/GenShiftDispatch.gen_shr_dispatch)"),
    ("M185", "integer/src/shift_ops.rs", r"Small\(0\) => Repr::zero\(\),\n(\s*)Small\(dword\) => shl_dword\(dword, rhs\),", "Small(dword) => shl_dword(dword, rhs),",
     "`<<` (owned) without the zero arm: shl_dword is entered with 0 (its debug_assert; 0 << n spills) (Props/GenShiftDispatch.gen_shl_dispatch)"),
    ("M186", "integer/src/shift_ops.rs", r"Large\(buffer\) => shl_large\(buffer, rhs\),", "Large(buffer) => shl_large(buffer, rhs + 1),",
     "`<<` (owned heap) with another count (outside the subset: arguments must be the pattern variable and rhs — fails closed)"),
    # C09 TypedRepr::set_bit (Gen/BitsHeap.lean, appended in round 6)
    ("M187", "integer/src/bits.rs", r"(pub fn set_bit\(self, n: usize\) -> Repr \{\n\s*match self \{\n\s*Small\(dword\) => \{\n\s*)if n < DWORD_BITS_USIZE \{", "\\1if n <= DWORD_BITS_USIZE {",
     "set_bit (inline arm) shifts 1 by DWORD_BITS: overflow (Props/GenBitsHeap.gen_set_bit_small)"),
    ("M188", "integer/src/bits.rs", r"Repr::from_dword\(dword \| 1 << n\)", "Repr::from_dword(dword ^ 1 << n)",
     "set_bit (inline arm) toggles the bit (Props/GenBitsHeap.gen_set_bit_small)"),
    # C01 operator dispatch (Gen/IntDispatch.lean, vlib/extract_intdispatch.py)
    ("M48", "integer/src/add_ops.rs", r"\(RefLarge\(words0\), Large\(buffer1\)\) => sub_large\(buffer1, words0\)\.neg\(\),", "(RefLarge(words0), Large(buffer1)) => sub_large(buffer1, words0),",
     "drop the `.neg()` of the large/large arm of `SubSigned<TypedRepr> for TypedReprRef`"),
    ("M49", "integer/src/mul_ops.rs", r"\(RefLarge\(buffer0\), Small\(dword1\)\) => mul_large_dword\(buffer0\.into\(\), dword1\),\n(\s*)\(RefLarge\(buffer0\), Large\(buffer1\)\) => mul_large\(buffer0, &buffer1\),",
     "(RefLarge(buffer0), Small(dword1)) => mul_large_dword(buffer0.into(), dword1 + 1),\n\\1(RefLarge(buffer0), Large(buffer1)) => mul_large(buffer0, &buffer1),",
     "an expression instead of a pattern variable as kernel argument in `Mul<TypedRepr> for TypedReprRef` (outside the subset)"),
    ("M50", "integer/src/pow.rs", r"let sign = if sign == Negative && exp % 2 == 1 \{", "let sign = if sign == Negative && exp % 4 == 1 {",
     "parity test of the sign rule of IBig::pow: `exp % 2` -> `exp % 4`"),
]


# behaviour-preserving rewrites: the regenerated text is either identical (the translator writes a canonical
# text) or the theorems over it must still check
BENIGN = [
    ("R1", "float/src/cmp.rs", r"return if ABS \{\n\s*Ordering::Equal\n\s*\} else \{\n\s*lhs\.exponent\.cmp\(&rhs\.exponent\)\n\s*\}",
     "return if !ABS { lhs.exponent.cmp(&rhs.exponent) } else { Ordering::Equal }",
     "negated condition with the two arms swapped (repr_cmp_same_base)"),
    ("R2", "float/src/cmp.rs", r"(\(Sign::Positive, Sign::Positive\) => Sign::Positive,\n)(\s*\(Sign::Positive, Sign::Negative\) => return Ordering::Greater,\n)(\s*\(Sign::Negative, Sign::Positive\) => return Ordering::Less,\n)(\s*\(Sign::Negative, Sign::Negative\) => Sign::Negative,\n)",
     "\\4\\3\\2\\1", "match arms of the sign table in reverse order (repr_cmp_same_base)"),
    ("R3", "float/src/cmp.rs", r"if lhs_exp > rhs_exp \+ rhs_digits as isize \{", "if lhs_exp > rhs_digits as isize + rhs_exp {",
     "commuted operands of `+` in a condition (repr_cmp_same_base)"),
    ("R4", "float/src/add.rs", r"&& rdigits_est \+ 1 < ediff", "&& 1 + rdigits_est < ediff",
     "commuted operands of `+` in a condition (repr_add_large_small)"),
    ("R5", "float/src/round_ops.rs", r"if self\.repr\.exponent >= 0 \{", "if !(self.repr.exponent < 0) {",
     "`a >= b` written `!(a < b)` (FBig::trunc)"),
    ("R6", "float/src/cmp.rs", r"return match ABS \|\| rhs\.exponent >= 0 \{\n\s*true => Ordering::Less,\n\s*false => Ordering::Greater,\n\s*\}",
     "return if ABS || rhs.exponent >= 0 { Ordering::Less } else { Ordering::Greater }",
     "`match` on a boolean written as `if` (repr_cmp_same_base)"),
    ("R7", "rational/src/cmp.rs", r"if lhs_bits > rhs_bits \+ 1 \{", "if rhs_bits + 1 < lhs_bits {",
     "`a > b` written `b < a` (rational repr_cmp)"),
    ("R8", "rational/src/cmp.rs", r"if a\.numerator\.is_zero\(\) \{\n\s*return b\.numerator\.is_zero\(\);\n\s*\}",
     "if !a.numerator.is_zero() {\n    } else {\n        return b.numerator.is_zero();\n    }",
     "negated condition with an empty first arm (rational repr_eq)"),
    ("R9", "integer/src/div_ops.rs", r"if r\.is_zero\(\) \{\n(\s*)r\n(\s*)\} else \{\n(\s*)\$mag1 - r\.into_typed\(\)\n(\s*)\}",
     "if !r.is_zero() {\n\\1$mag1 - r.into_typed()\n\\2} else {\n\\3r\n\\4}",
     "negated condition with the two arms swapped (impl_ibig_rem_euclid)"),
    ("R10", "integer/src/add_ops.rs", r"(\s*\(Positive, Positive\) => IBig\()\$mag0\.add\(\$mag1\)(\),\n)(\s*\(Positive, Negative\) => IBig\(\$mag0\.sub_signed\(\$mag1\)\),\n)(\s*\(Negative, Positive\) => IBig\(\$mag1\.sub_signed\(\$mag0\)\),\n)(\s*\(Negative, Negative\) => IBig\(\$mag0\.add\(\$mag1\)\.with_sign\(Negative\)\),\n)",
     "\\5\\4\\3\\1$mag1.add($mag0)\\2",
     "match arms reordered and `add` operands commuted (impl_ibig_add; /verif/benign/B5)"),
    ("R11", "integer/src/bits.rs", r"(\s*\(Positive, Positive\) => IBig\(\$mag0\.bitand\(\$mag1\)\),\n)(\s*\(Positive, Negative\) => IBig\(\$mag0\.and_not\(\$mag1\.sub_one\(\)\.into_typed\(\)\)\),\n)",
     "\\2\\1", "two match arms exchanged (impl_ibig_bitand)"),
    ("R12", "float/src/round.rs", r"(impl Round for mode::Up \{.*?)if low_sign == Sign::Positive \{\n(\s*)Rounding::AddOne\n(\s*)\} else \{\n(\s*)Rounding::NoOp\n(\s*)\}",
     "\\1if low_sign != Sign::Positive {\n\\2Rounding::NoOp\n\\3} else {\n\\4Rounding::AddOne\n\\5}",
     "`==` test written `!=` with the arms swapped (mode::Up::round_low_part)"),
    ("R13", "integer/src/bits.rs", r"\(Positive, Positive\) => IBig\(\$mag0\.bitand\(\$mag1\)\),", "(Positive, Positive) => IBig($mag1.bitand($mag0)),",
     "commuted operands of `bitand` (impl_ibig_bitand)"),
    ("R14", "float/src/round.rs", r"(impl Round for mode::HalfEven \{.*?match low_half_test\(\) \{\n)(\s*// \|rem\| < 1/2\n\s*Ordering::Less => Rounding::NoOp,\n)(.*?)(\s*// \|rem\| > 1/2\n\s*Ordering::Greater => \{.*?\n            \}\n)",
     "\\1\\4\\3\\2", "match arms Less / Greater exchanged (mode::HalfEven::round_low_part)"),
    ("R15", "float/src/helper_macros.rs", r"self\.\$method\(FBig::<R, B>::from\(rhs\)\)", "self.$method(FBig::<R, B>::from(rhs.clone()))",
     "an extra `.clone()` in one primitive-operand form (erased by the ownership-form translator)"),
    ("R20", "integer/src/math.rs", r"\(a - T::from\(1u8\)\) / b \+ T::from\(1u8\)", "T::from(1u8) + (a - T::from(1u8)) / b",
     "commuted `+` in ceil_div (Props/GenMath.gen_ceil_div discharges every overflow side condition by omega)"),
    ("R21", "integer/src/shift_ops.rs", r"if buffer\.capacity\(\) < buffer\.len\(\) \+ shift_words \+ 1 \{", "if buffer.capacity() < buffer.len() + shift_words {",
     "shl_large: capacity test one word short — the VALUE is the same through either branch (Props/GenShiftHeap.gen_shl_large holds for every capacity; the capacity itself is C17's)"),
    ("R22", "integer/src/bits.rs", r"buffer\[idx\] \|= 1 << \(n % WORD_BITS_USIZE\);", "buffer[idx] |= 1 << (n % WORD_BITS_USIZE); buffer.ensure_capacity(idx);",
     "with_bit_large: an extra ensure_capacity in the in-range arm (capacities are not part of the value; Props/GenBitsHeap.gen_with_bit_large survives)"),
    ("R23", "integer/src/add_ops.rs", r"\(RefSmall\(dword0\), RefLarge\(buffer1\)\) => \{\n\s*sub_large_dword\(buffer1\.into\(\), dword0\)\.neg\(\)\n\s*\}",
     "(RefSmall(dword0), RefLarge(buffer1)) => sub_large_dword(buffer1.into(), dword0).neg(),",
     "an arm of the operator dispatch written without the block braces (SubSigned ref/ref, C01)"),
    ("R24", "integer/src/bits.rs", r"if buffer0\.len\(\) <= buffer1\.len\(\) \{\n(\s*)bitand_large\(buffer0, &buffer1\)", "if buffer0.len() >= buffer1.len() {\n\\1bitand_large(buffer0, &buffer1)",
     "`&` (val_val) heap/heap: the LONGER buffer is reused — the value is the same (bitand_large truncates); Props/GenBitDispatch.gen_bitand_dispatch survives"),
]


def _theorem_modules_over(gen_file):
    """theorem modules (lean/Dashu/Props/*.lean) whose import closure contains the given Gen file"""
    pdir = os.path.join(ROOT, "lean", "Dashu", "Props")
    out = []
    for f in sorted(os.listdir(pdir)):
        if f.endswith(".lean") and (f.startswith("Gen") or f in ("C17.lean", "C18.lean", "C15Forms.lean", "C15FloatAdd.lean")):
            m = "Dashu.Props." + f[:-5]
            if gen_file in gen_files_needed([m]):
                out.append(m)
    return out


def selftest(prove=False):
    """(a) regenerate into a scratch directory and compare with lean/Dashu/Gen; (b) apply built-in
    mutations to a scratch copy of the sources and show that each one changes the generated text or
    fails closed; with --prove additionally (c) rebuild, in a scratch copy of the Lean project, the
    theorem modules over each changed file and show that they no longer check.
    Nothing is written under /repo or /verif; the scratch directory is removed."""
    import tempfile, shutil, sys, subprocess
    global REPO
    bad = 0
    base, _ = generate_all()
    print("(a) regeneration from %s vs %s" % (REPO, GEN_DIR))
    for fname in sorted(base):
        text, err = base[fname]
        path = os.path.join(GEN_DIR, fname)
        cur = open(path).read() if os.path.exists(path) else None
        if err is not None:
            print("    %-20s FAILS CLOSED: %s" % (fname, err)); bad += 1
        elif cur is None:
            print("    %-20s not present in the tree" % fname); bad += 1
        elif cur != text:
            print("    %-20s DIFFERS from the tree" % fname); bad += 1
        else:
            print("    %-20s identical (%d lines)" % (fname, text.count("\n")))
    scratch = tempfile.mkdtemp(prefix="extract-selftest-")
    real_repo = REPO
    try:
        for crate in ("base", "integer", "float", "rational"):
            shutil.copytree(os.path.join(real_repo, crate, "src"), os.path.join(scratch, crate, "src"))
        REPO = scratch
        clean, _ = generate_all()
        if any(clean[f] != base[f] for f in base):
            print("    scratch copy regenerates differently from %s" % real_repo); bad += 1
        lean_scratch = None
        if prove:
            lean_scratch = os.path.join(scratch, "lean")
            shutil.copytree(os.path.join(ROOT, "lean"), lean_scratch, symlinks=True)
        print("(b) mutations of the Rust text (scratch copy %s)" % scratch)
        print("    %-4s %-26s %-34s %s" % ("id", "file", "effect", "mutation"))
        for mut in MUTATIONS:
            mid, rel, pat, rep, what = mut[:5]
            expect = mut[5] if len(mut) > 5 else "breaks"
            path = os.path.join(scratch, rel)
            orig = open(path).read()
            new, n = re.subn(pat, rep, orig, count=1, flags=re.S)
            if n != 1 or new == orig:
                print("    %-4s %-26s %-34s %s" % (mid, rel, "PATTERN NOT FOUND (source moved on)", what)); bad += 1
                continue
            with open(path, "w") as f:
                f.write(new)
            try:
                res, _ = generate_all()
            finally:
                with open(path, "w") as f:
                    f.write(orig)
            changed = [f for f in sorted(res) if res[f][0] is not None and res[f][0] != base[f][0]]
            failed = [f for f in sorted(res) if res[f][1] is not None]
            if failed:
                eff = "fails closed: " + ", ".join(failed)
                detail = res[failed[0]][1]
            elif changed:
                eff = "changes " + ", ".join(changed)
                detail = None
            else:
                eff = "NO EFFECT"
                detail = None
                bad += 1
            print("    %-4s %-26s %-34s %s" % (mid, rel, eff, what))
            if detail:
                print("         message: %s" % detail[:200])
            if prove and changed and not failed:
                gdir = os.path.join(lean_scratch, "Dashu", "Gen")
                for f in changed:
                    with open(os.path.join(gdir, f), "w") as fh:
                        fh.write(res[f][0])
                mods = sorted(set(m for f in changed for m in _theorem_modules_over(f)))
                t0 = __import__("time").time()
                r = subprocess.run(["lake", "build"] + mods, cwd=lean_scratch, stdout=subprocess.PIPE,
                                   stderr=subprocess.STDOUT, text=True)
                errs = [l for l in r.stdout.splitlines() if l.startswith("error:") and ".lean:" in l]
                broken = sorted(set(l.split(":")[1].strip() for l in errs))
                for f in changed:
                    with open(os.path.join(gdir, f), "w") as fh:
                        fh.write(base[f][0])
                if r.returncode == 0 and expect == "model-calls-it":
                    print("         no theorem is about this value: the hand model CALLS the regenerated definition "
                          "(the driver runs with the new value; the correspondence check decides)")
                elif r.returncode == 0:
                    print("         theorems over the changed text STILL CHECK (%s)" % ", ".join(mods)); bad += 1
                else:
                    print("         theorem modules no longer check (%.0f s): %s" % (__import__("time").time() - t0, ", ".join(broken)[:300]))
        print("(c) behaviour-preserving rewrites of the Rust text: the theorems must survive")
        print("    %-4s %-26s %-34s %s" % ("id", "file", "effect", "rewrite"))
        for mid, rel, pat, rep, what in BENIGN:
            path = os.path.join(scratch, rel)
            orig = open(path).read()
            new, n = re.subn(pat, rep, orig, count=1, flags=re.S)
            if n != 1 or new == orig:
                print("    %-4s %-26s %-34s %s" % (mid, rel, "PATTERN NOT FOUND (source moved on)", what)); bad += 1
                continue
            with open(path, "w") as f:
                f.write(new)
            try:
                res, _ = generate_all()
            finally:
                with open(path, "w") as f:
                    f.write(orig)
            changed = [f for f in sorted(res) if res[f][0] is not None and res[f][0] != base[f][0]]
            failed = [f for f in sorted(res) if res[f][1] is not None]
            if failed:
                print("    %-4s %-26s %-34s %s" % (mid, rel, "fails closed: " + ", ".join(failed), what))
                print("         message: %s" % res[failed[0]][1][:200])
                print("         (a harmless rewrite the translator cannot read: reported as no-failing-input-found)")
                continue
            strip = lambda t: re.sub(r"/--.*?-/", "", t, flags=re.S)
            if not changed or all(strip(res[f][0]) == strip(base[f][0]) for f in changed):
                print("    %-4s %-26s %-34s %s" % (mid, rel, "same definitions (canonical text)", what))
                continue
            print("    %-4s %-26s %-34s %s" % (mid, rel, "changes " + ", ".join(changed), what))
            if prove:
                gdir = os.path.join(lean_scratch, "Dashu", "Gen")
                for f in changed:
                    with open(os.path.join(gdir, f), "w") as fh:
                        fh.write(res[f][0])
                mods = sorted(set(m for f in changed for m in _theorem_modules_over(f)))
                t0 = __import__("time").time()
                r = subprocess.run(["lake", "build"] + mods, cwd=lean_scratch, stdout=subprocess.PIPE,
                                   stderr=subprocess.STDOUT, text=True)
                errs = [l for l in r.stdout.splitlines() if l.startswith("error:") and ".lean:" in l]
                broken = sorted(set(l.split(":")[1].strip() + ":" + l.split(":")[2] for l in errs))
                for f in changed:
                    with open(os.path.join(gdir, f), "w") as fh:
                        fh.write(base[f][0])
                if r.returncode == 0:
                    print("         theorems over the rewritten text still check (%.0f s): %s" % (__import__("time").time() - t0, ", ".join(mods)))
                else:
                    print("         THEOREMS BROKEN BY A HARMLESS REWRITE: %s" % ", ".join(broken)[:400]); bad += 1
            else:
                print("         (run with --prove to rebuild the theorem modules over the rewritten text)")
    finally:
        REPO = real_repo
        shutil.rmtree(scratch, ignore_errors=True)
    print("self-test %s" % ("FAILED (%d problems)" % bad if bad else "passed: the tree's Gen files are what the sources say; every mutation changes the generated text or fails closed"))
    return 1 if bad else 0


if __name__ == "__main__":
    import sys
    if "--selftest" in sys.argv:
        raise SystemExit(selftest(prove="--prove" in sys.argv))
    out = None
    if "--out" in sys.argv:
        out = sys.argv[sys.argv.index("--out") + 1]
    ok, info = regenerate(out_dir=out)
    print(json.dumps(info, indent=1))
    raise SystemExit(0 if ok else 1)
