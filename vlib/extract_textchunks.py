"""C07 (Tie A, round 6): the chunk-buffer arithmetic of integer/src/convert.rs regenerated as Lean text
(lean/Dashu/Gen/TextChunks.lean):

  * `TypedReprRef::to_chunks`, `RefLarge` arm: `let word_per_chunk = …;` (since fix 80bcfde
    `math::ceil_div(chunk_bits, WORD_BITS_USIZE).min(words.len())`), the argument of `Buffer::allocate(…)` and of
    `buf.push_zeros(…)`;
  * `words_to_chunks`: the shortcut test `chunk_bits % WORD_BITS_USIZE == 0`, `words_per_chunk`, `start_pos`, `end_pos` of
    the word-aligned shortcut (with the clamp of fix 49f0136);
  * `math::ceil_div` (body shape checked).

`Props/C07.lean` (`chunk_buffer_formulas_regenerated`) proves the hand model of Model/Text/ChunksBuf.lean (`wordPerChunk`, the
buffer length of `toChunksB`, `alignedChunkB`) equal to these texts, so dropping the `+ 1`, the clamp `.min(words.len())`, or
changing an index expression breaks that theorem; a change of shape makes the extraction fail closed.
Expressions: `+ - * / %`, parentheses, decimal literals, known names, `x.len()`, postfix `.min(e)` / `.max(e)`,
`math::ceil_div(a, b)`.  Loaded by vlib/extract.py (`gen_text_chunks`)."""
import hashlib
import re


def generate(ex):
    rel = "integer/src/convert.rs"
    ExtractError = ex.ExtractError
    src = re.sub(r"//[^\n]*", "", ex.read(rel))
    info = {}

    TOK = re.compile(r"\s*(?:(\d[\d_]*)|([A-Za-z_][A-Za-z0-9_]*(?:::[A-Za-z_][A-Za-z0-9_]*)*)|(.))")

    class P:
        def __init__(self, text, what, names):
            self.toks = []
            for m in TOK.finditer(text):
                if not m.group(0).strip():
                    continue
                self.toks.append(("num", m.group(1)) if m.group(1) else ("id", m.group(2)) if m.group(2) else ("p", m.group(3)))
            self.i, self.what, self.names, self.used = 0, what, names, []

        def fail(self, msg):
            raise ExtractError("%s (%s): %s" % (self.what, rel, msg))

        def peek(self):
            return self.toks[self.i] if self.i < len(self.toks) else ("eof", "")

        def take(self, v=None):
            t = self.peek()
            if v is not None and t[1] != v:
                self.fail("expected %r, found %r" % (v, t[1]))
            self.i += 1
            return t

        def name(self, v):
            if v not in self.names:
                self.fail("unknown name %s" % v)
            n = self.names[v]
            if n not in self.used:
                self.used.append(n)
            return n

        def atom(self):
            k, v = self.take()
            if k == "num":
                e = v.replace("_", "")
            elif k == "p" and v == "(":
                e = "(" + self.expr() + ")"
                self.take(")")
            elif k == "id" and v in ("math::ceil_div", "ceil_div"):
                self.take("("); a = self.expr(); self.take(","); b = self.expr(); self.take(")")
                e = "(ceil_div (%s) (%s))" % (a, b)
            elif k == "id":
                if self.peek()[1] == "." and self.i + 1 < len(self.toks) and self.toks[self.i + 1][1] == "len":
                    self.take("."); self.take("len"); self.take("("); self.take(")")
                    e = self.name(v + ".len()")
                else:
                    e = self.name(v)
            else:
                self.fail("unexpected token %r" % v)
            while self.peek()[1] == ".":
                self.take(".")
                m = self.take()[1]
                if m not in ("min", "max"):
                    self.fail("unknown method .%s()" % m)
                self.take("("); a = self.expr(); self.take(")")
                e = "(%s (%s) (%s))" % (m, e, a)
            return e

        def term(self):
            e = self.atom()
            while self.peek()[1] in ("*", "/", "%"):
                op = self.take()[1]
                e = "(%s %s %s)" % (e, op, self.atom())
            return e

        def expr(self):
            e = self.term()
            while self.peek()[1] in ("+", "-"):
                op = self.take()[1]
                e = "(%s %s %s)" % (e, op, self.term())
            return e

        def whole(self):
            e = self.expr()
            if self.peek()[0] != "eof":
                self.fail("trailing text %r" % (self.peek()[1],))
            return e

    NAMES = {"chunk_bits": "chunk_bits", "WORD_BITS_USIZE": "W", "words.len()": "words_len", "word_per_chunk": "word_per_chunk",
             "words_per_chunk": "words_per_chunk", "start_pos": "start_pos", "i": "i"}
    ORDER = ["W", "chunk_bits", "words_len", "word_per_chunk", "i", "words_per_chunk", "start_pos"]

    def lean_def(name, doc, rust, what):
        p = P(rust, what, NAMES)
        e = p.whole()
        params = [n for n in ORDER if n in p.used]
        sig = " (%s : Nat)" % " ".join(params) if params else ""
        return "/-- %s: `%s` -/\ndef %s%s : Nat :=\n  %s\n" % (doc, re.sub(r"\s+", " ", rust).strip(), name, sig, e)

    def one(pattern, text, what):
        ms = re.findall(pattern, text)
        if len(ms) != 1:
            raise ExtractError("%s (%s): expected exactly one match of /%s/, found %d" % (what, rel, pattern, len(ms)))
        return ms[0]

    # ---- math::ceil_div
    msrc = re.sub(r"//[^\n]*", "", ex.read("integer/src/math.rs"))
    _, cbody = ex.fn_body(msrc, "ceil_div")
    cflat = re.sub(r"\s+", " ", cbody).strip()
    if cflat != "{ if a == T::from(0u8) { T::from(0u8) } else { (a - T::from(1u8)) / b + T::from(1u8) } }":
        raise ExtractError("math::ceil_div (integer/src/math.rs): body is not `if a == 0 { 0 } else { (a - 1) / b + 1 }`: %s" % cflat[:120])

    # ---- to_chunks, RefLarge arm
    _, tbody = ex.fn_body(src, "to_chunks")
    k = tbody.find("RefLarge(words) =>")
    if k < 0:
        raise ExtractError("to_chunks (%s): no `RefLarge(words) =>` arm" % rel)
    arm = tbody[k:]
    wpc = one(r"let\s+word_per_chunk\s*=\s*([^;]+);", arm, "to_chunks word_per_chunk")
    alloc = one(r"Buffer::allocate\(([^;]+)\)\s*;", arm, "to_chunks Buffer::allocate")
    pz = one(r"buf\.push_zeros\(([^;]+)\)\s*;", arm, "to_chunks push_zeros")

    # ---- words_to_chunks, aligned shortcut
    _, wbody = ex.fn_body(src, "words_to_chunks")
    wflat = re.sub(r"\s+", " ", wbody)
    m = re.search(r"if (.+?) == 0 \{ let words_per_chunk = ([^;]+); for \(i, chunk_out\) in chunks_out\.iter_mut\(\)\.enumerate\(\) \{ "
                  r"let start_pos = ([^;]+); let end_pos = ([^;]+); "
                  r"chunk_out\[\.\.end_pos - start_pos\]\.copy_from_slice\(&words\[start_pos\.\.end_pos\]\); \} \} else \{", wflat)
    if not m:
        raise ExtractError("words_to_chunks (%s): the word-aligned shortcut is not `if E == 0 { let words_per_chunk = …; for (i, chunk_out) … "
                           "{ let start_pos = …; let end_pos = …; chunk_out[..end_pos - start_pos].copy_from_slice(&words[start_pos..end_pos]); } } else {`" % rel)
    test, wpc2, sp, ep = m.groups()

    out = ["/-! GENERATED by vlib/extract.py (vlib/extract_textchunks.py) from /repo — do not edit.  C07: chunk-buffer arithmetic of",
           "    `TypedReprRef::to_chunks` (RefLarge arm) and of the word-aligned shortcut of `words_to_chunks`, integer/src/convert.rs. -/",
           "namespace Dashu.Gen.TextChunks", "",
           "/-- `math::ceil_div` (integer/src/math.rs): `if a == 0 { 0 } else { (a - 1) / b + 1 }` -/",
           "def ceil_div (a b : Nat) : Nat := if a = 0 then 0 else (a - 1) / b + 1", "",
           lean_def("to_chunks_word_per_chunk", "`to_chunks`, RefLarge arm, `let word_per_chunk = …;`", wpc, "to_chunks word_per_chunk"),
           lean_def("to_chunks_allocate", "`to_chunks`, RefLarge arm, argument of `Buffer::allocate`", alloc, "to_chunks Buffer::allocate"),
           lean_def("to_chunks_push_zeros", "`to_chunks`, RefLarge arm, argument of `buf.push_zeros`", pz, "to_chunks push_zeros"),
           lean_def("aligned_test", "`words_to_chunks`: the shortcut is taken iff this is `0`", test, "words_to_chunks shortcut test"),
           lean_def("aligned_words_per_chunk", "`words_to_chunks` shortcut, `let words_per_chunk = …;`", wpc2, "words_to_chunks words_per_chunk"),
           lean_def("aligned_start_pos", "`words_to_chunks` shortcut, `let start_pos = …;`", sp, "words_to_chunks start_pos"),
           lean_def("aligned_end_pos", "`words_to_chunks` shortcut, `let end_pos = …;`", ep, "words_to_chunks end_pos"),
           "end Dashu.Gen.TextChunks"]
    info["to_chunks_buffers"] = hashlib.sha1(re.sub(r"\s+", " ", "|".join([wpc, alloc, pz, test, wpc2, sp, ep])).encode()).hexdigest()[:12]
    return "\n".join(out) + "\n", info
