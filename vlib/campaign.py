#!/usr/bin/env python3
"""python3 vlib/campaign.py [--only C01,C02] [--retrial]
Seeded-change campaign: for every /tmp/seed{,2}/<ID>/out/<n>/ not yet processed: confirm it independently
(vlib/confirm_seed.py), keep confirmed ones under /verif/seeded/<ID>-<n>/ (patch.diff, demo.rs,
meta.json), run the checks of the target property (and related ones) against it in isolation
(vlib/trial.py) and store the verdicts in /verif/seeded/<ID>-<n>/result.json.
`--retrial` re-runs the trials of already kept seeds (after checks were strengthened)."""
import glob, json, os, re, shutil, subprocess, sys, time

ROOT = "/verif"
RELATED = {"C01": ["C01", "C15"], "C02": ["C02", "C15"], "C09": ["C09", "C05", "C15"], "C15": ["C15", "C01", "C05"],
           "C05": ["C05", "C09", "C15"], "C17": ["C17", "C05"], "C03": ["C03", "C10"], "C10": ["C10", "C03"],
           "C04": ["C04"], "C06": ["C06"], "C07": ["C07"], "C08": ["C08", "C10"], "C11": ["C11"], "C12": ["C12"],
           "C13": ["C13"], "C14": ["C14"], "C16": ["C16", "C15"], "C18": ["C18"], "C19": ["C19"], "C20": ["C20"]}

def sh(cmd, **kw):
    return subprocess.run(cmd, stdout=subprocess.PIPE, stderr=subprocess.STDOUT, text=True, **kw)

def ready(p):
    f = os.path.join(ROOT, "vlib", "props", p.lower() + ".py")
    return os.path.exists(f)

def trial(dst, props):
    props = [p for p in props if ready(p)]
    r = sh(["python3", os.path.join(ROOT, "vlib", "trial.py"), os.path.join(dst, "patch.diff")] + props)
    res = {}
    cur = None
    for l in r.stdout.splitlines():
        m = re.match(r"=== (C\d+): exit (\d+) in (\d+)s", l)
        if m:
            cur = m.group(1)
            res[cur] = {"exit": int(m.group(2)), "seconds": int(m.group(3)), "lines": []}
        elif cur and l.strip():
            res[cur]["lines"].append(l.strip()[:400])
    return res, r.stdout

def main():
    only = None
    if "--only" in sys.argv:
        only = sys.argv[sys.argv.index("--only") + 1].split(",")
    retrial = "--retrial" in sys.argv
    os.makedirs(os.path.join(ROOT, "seeded"), exist_ok=True)
    seeds = sorted(glob.glob("/tmp/seed/C*/out/*/patch.diff") + glob.glob("/tmp/seed2/C*/out/*/patch.diff")
                   + glob.glob("/tmp/seed3/C*/out/*/patch.diff") + glob.glob("/tmp/seed4/C*/out/*/patch.diff"))
    todo = [(os.path.dirname(pf), os.path.dirname(pf).split("/")[3], os.path.dirname(pf).split("/")[5]) for pf in seeds]
    if retrial:   # kept seeds are re-tried from /verif/seeded itself (the scratch seed directories may be gone)
        have = set((pid, n) for _, pid, n in todo)
        for kd in sorted(glob.glob(os.path.join(ROOT, "seeded", "C*-*", "patch.diff"))):
            pid, n = os.path.basename(os.path.dirname(kd)).split("-")
            if (pid, n) not in have:
                todo.append((os.path.dirname(kd), pid, n))
    names = None
    if "--seeds" in sys.argv:
        names = sys.argv[sys.argv.index("--seeds") + 1].split(",")
    for d, pid, n in todo:
        if names and ("%s-%s" % (pid, n)) not in names:
            continue
        if only and pid not in only:
            continue
        dst = os.path.join(ROOT, "seeded", "%s-%s" % (pid, n))
        if os.path.exists(os.path.join(dst, "result.json")) and not retrial:
            continue
        if os.path.isdir(dst + ".rejected") and retrial:
            shutil.rmtree(dst + ".rejected")
        if not os.path.exists(os.path.join(dst, "patch.diff")):
            r = sh(["python3", os.path.join(ROOT, "vlib", "confirm_seed.py"), d])
            line = [l for l in r.stdout.splitlines() if l.startswith("CONFIRMED") or l.startswith("REJECTED")]
            print(line[0][:300] if line else "confirm produced no verdict for %s: %s" % (d, r.stdout[-300:]), flush=True)
            if not line or not line[0].startswith("CONFIRMED"):
                os.makedirs(dst + ".rejected", exist_ok=True)
                open(dst + ".rejected/confirm.txt", "w").write(r.stdout[-3000:])
                continue
            os.makedirs(dst, exist_ok=True)
            for f in ("patch.diff", "demo.rs"):
                shutil.copy(os.path.join(d, f), os.path.join(dst, f))
            meta = json.load(open(os.path.join(d, "meta.json")))
            meta["confirmed_by_orchestrator"] = line[0][10:]
            json.dump(meta, open(os.path.join(dst, "meta.json"), "w"), indent=1)
        res, raw = trial(dst, RELATED.get(pid, [pid]))
        caught = [p for p, v in res.items() if v["exit"] == 1 and any(l.startswith("VIOLATION") for l in v["lines"])]
        out = {"property": pid, "checks_run": {p: {"exit": v["exit"], "seconds": v["seconds"],
               "violation": [l for l in v["lines"] if l.startswith("VIOLATION")][:2],
               "witness": [l for l in v["lines"] if not l.startswith("VIOLATION") and not l.startswith("KNOWN-FINDING")][:4]} for p, v in res.items()},
               "caught_by": caught, "when": time.strftime("%Y-%m-%d %H:%M:%S")}
        rp = os.path.join(dst, "result.json")
        if os.path.exists(rp):
            old = json.load(open(rp))
            first = old.get("first_trial") or {k: old.get(k) for k in ("caught_by", "when", "checks_run")}
            out["first_trial"] = first
            first_caught = first.get("caught_by") or [k for k, v in (first.get("checks_run") or {}).items() if v.get("exit") == 1]
            out["status"] = "caught at first trial" if first_caught and caught else ("caught after strengthening" if caught else "NOT caught")
        json.dump(out, open(rp, "w"), indent=1)
        print("TRIAL %s-%s: caught_by=%s  (%s)" % (pid, n, caught, {p: v["exit"] for p, v in res.items()}), flush=True)

main()
