"""C19 (Tie A): the architecture layer of dashu-int — integer/src/arch/mod.rs (the cfg_if chain that selects one
`arch_impl` module), every `arch/<module>/mod.rs` (which file provides `add` / `digits` / `word`), `arch/<module>/word.rs`
(the `Word` type) and the bodies of `add_with_carry` / `sub_with_borrow` of arch/generic/add.rs (plain integer code) and of
arch/x86/add.rs, arch/x86_64/add.rs (one intrinsic each) — regenerated as Lean text (lean/Dashu/Gen/ArchAdd.lean).
`Props/C19Arch.lean` proves every regenerated add / sub routine equal to the carry arithmetic of the word-level models
(`(s % 2^W, s / 2^W)`), the intrinsic variants equal to the generic ones at their word size, two W-bit steps equal to one
2W-bit step, and the selection tables consistent (every selectable module has the same `digits`, an `add` that was
proved, and the word size its name says).  A change of an operand, of `c0 | c1`, of an intrinsic or its argument order, of
a `#[path]`, of a `Word` type or of the force_bits arms regenerates different text and breaks a theorem; a change of
shape makes the extraction fail closed.  Loaded by vlib/extract.py (`gen_arch_add`)."""
import re, hashlib

ID = r"[A-Za-z_][A-Za-z0-9_]*"


def _strip(src):
    return re.sub(r"//[^\n]*", "", src)


def _flat(s):
    return re.sub(r"\s+", " ", s).strip()


def _operand(ex, s, what):
    s = s.strip()
    if re.fullmatch(ID, s):
        return s
    m = re.fullmatch(r"Word::from\((%s)\)" % ID, s)
    if m:
        return "(word_from_bool %s)" % m.group(1)
    m = re.fullmatch(r"(%s)\.into\(\)" % ID, s)
    if m:
        return "(word_from_bool %s)" % m.group(1)
    raise ex.ExtractError("%s: operand not an identifier / Word::from(bool) / bool.into(): %s" % (what, s))


def _generic_fn(ex, src, rel, fn, lean_name):
    """`let (x, y) = a.overflowing_add(b);`* then a tuple `(x, c0 | c1)`"""
    names, body = ex.fn_body(src, fn)
    flat = _flat(body).strip("{} ")
    if len(names) != 3 or names[:2] != ["a", "b"]:
        raise ex.ExtractError("%s (%s): parameters are not (a, b, flag): %s" % (fn, rel, names))
    parts = [p.strip() for p in flat.split(";")]
    tail = parts[-1]
    lines = []
    for st in parts[:-1]:
        m = re.fullmatch(r"let \((%s), (%s)\) ?= ?(%s)\.(overflowing_add|overflowing_sub)\((.*)\)" % (ID, ID, ID), st)
        if not m:
            raise ex.ExtractError("%s (%s): statement not `let (x, y) = u.overflowing_add|sub(v)`: %s" % (fn, rel, st))
        lines.append("  let (%s, %s) := %s W %s %s" % (m.group(1), m.group(2), m.group(4), m.group(3),
                                                   _operand(ex, m.group(5), fn)))
    m = re.fullmatch(r"\((%s), (%s) (\||&|\^) (%s)\)" % (ID, ID, ID), tail)
    if not m:
        raise ex.ExtractError("%s (%s): result not `(x, c0 | c1)`: %s" % (fn, rel, tail))
    op = {"|": "||", "&": "&&", "^": "!="}[m.group(3)]
    lines.append("  (%s, (%s %s %s))" % (m.group(1), m.group(2), op, m.group(4)))
    head = ["/-- `%s` of %s: %s -/" % (fn, rel, flat),
            "def %s (W a b : Nat) (%s : Bool) : Nat × Bool :=" % (lean_name, names[2])]
    return "\n".join(head + lines) + "\n", hashlib.sha1(flat.encode()).hexdigest()[:12]


def _intrinsic_fn(ex, src, rel, fn, lean_name, arch):
    """`let mut out = 0; let f = unsafe { core::arch::<arch>::_addcarry_uN(flag.into(), a, b, &mut out) }; (out, f != 0)`"""
    names, body = ex.fn_body(src, fn)
    flat = _flat(body).strip("{} ")
    if len(names) != 3 or names[:2] != ["a", "b"]:
        raise ex.ExtractError("%s (%s): parameters are not (a, b, flag): %s" % (fn, rel, names))
    m = re.fullmatch(r"let mut (%s) ?= ?0 ?; let (%s) ?= ?unsafe \{ ?core::arch::(%s)::_(addcarry|subborrow)_u(\d+)\((.*?), ?(%s), ?(%s), ?&mut (%s)\) ?\} ?; "
                     r"\((%s), (%s) (!=|==) 0\)" % (ID, ID, ID, ID, ID, ID, ID, ID), flat)
    if not m:
        raise ex.ExtractError("%s (%s): not `let mut out = 0; let f = unsafe { core::arch::…::_addcarry_uN(flag.into(), a, b, &mut out) }; "
                              "(out, f != 0)`: %s" % (fn, rel, flat))
    out, f, ar, kind, bits, cin, x, y, outp, r0, r1, cmp_ = m.groups()
    if ar != arch:
        raise ex.ExtractError("%s (%s): intrinsic of core::arch::%s in the %s module" % (fn, rel, ar, arch))
    if outp != out or r0 != out or r1 != f:
        raise ex.ExtractError("%s (%s): the result is not (the intrinsic's output, its flag)" % (fn, rel))
    lean = ["/-- `%s` of %s: %s -/" % (fn, rel, flat),
            "def %s (a b : Nat) (%s : Bool) : Nat × Bool :=" % (lean_name, names[2]),
            "  let (%s, %s) := intrinsic_%s %s %s %s %s" % (f, out, kind, bits, _operand(ex, cin, fn), x, y),
            "  (%s, %s %s 0)" % (out, f, "!=" if cmp_ == "!=" else "==")]
    return "\n".join(lean) + "\n", int(bits), hashlib.sha1(flat.encode()).hexdigest()[:12]


def _mod_table(ex, mod):
    """arch/<mod>/mod.rs: for `add`, `digits`, `word`: the file that provides it (relative to arch/)"""
    rel = "integer/src/arch/%s/mod.rs" % mod
    src = _strip(ex.read(rel))
    items = re.findall(r'(?:#\[path ?= ?"([^"]+)"\]\s*)?pub\(crate\) mod (%s) ?;' % ID, src)
    rest = re.sub(r'(?:#\[path ?= ?"[^"]+"\]\s*)?pub\(crate\) mod %s ?;' % ID, "", src).strip()
    if rest:
        raise ex.ExtractError("%s: unexpected item: %s" % (rel, rest[:60]))
    got = {}
    for path, name in items:
        if path:
            if not path.startswith("../"):
                raise ex.ExtractError("%s: #[path] not of the form ../<dir>/<file>: %s" % (rel, path))
            got[name] = path[3:]
        else:
            got[name] = "%s/%s.rs" % (mod, name)
    for need in ("add", "digits", "word", "ntt"):
        if need not in got:
            raise ex.ExtractError("%s: no `mod %s`" % (rel, need))
    return got


def _word_bits(ex, wordfile):
    rel = "integer/src/arch/" + wordfile
    src = _strip(ex.read(rel))
    tys = dict(re.findall(r"pub type (\w+) ?= ?([iu]\d+) ?;", src))
    if sorted(tys) != ["DoubleWord", "SignedDoubleWord", "SignedWord", "Word"]:
        raise ex.ExtractError("%s: expected the four type aliases Word / SignedWord / DoubleWord / SignedDoubleWord" % rel)
    w = int(tys["Word"][1:])
    if tys["Word"] != "u%d" % w or tys["SignedWord"] != "i%d" % w or tys["DoubleWord"] != "u%d" % (2 * w) or \
            tys["SignedDoubleWord"] != "i%d" % (2 * w):
        raise ex.ExtractError("%s: the aliases are not u/i W and u/i 2W: %s" % (rel, tys))
    return w


def _selection(ex):
    """the cfg_if chain of arch/mod.rs in order: [(condition kind, value, module)] with kinds force_bits / target_arch /
    target_pointer_width / else"""
    rel = "integer/src/arch/mod.rs"
    src = _strip(ex.read(rel))
    m = re.search(r"cfg_if! ?\{", src)
    if not m:
        raise ex.ExtractError("%s: no cfg_if! block" % rel)
    end = ex.balanced(src, m.end() - 1)
    body = src[m.end():end - 1]
    flat = _flat(body)
    arm = re.compile(r'(?:else )?(?:if #\[cfg\((.*?)\)\] )?\{ #\[path ?= ?"(\w+)/mod\.rs"\] mod arch_impl ?; \} ?')
    pos, sel = 0, []
    while pos < len(flat):
        am = arm.match(flat, pos)
        if not am:
            raise ex.ExtractError("%s: arm of the cfg_if chain not of the form `if #[cfg(…)] { #[path = \"<m>/mod.rs\"] mod arch_impl; }`: %s"
                                  % (rel, flat[pos:pos + 80]))
        cond, mod = am.group(1), am.group(2)
        if cond is None:
            sel.append(("else", "", mod))
        else:
            c = cond.strip()
            inner = re.fullmatch(r"any\((.*)\)", c)
            conds = [x.strip() for x in inner.group(1).split(",")] if inner else [c]
            for one in conds:
                if not one:
                    continue
                cm = re.fullmatch(r'(force_bits|target_arch|target_pointer_width) ?= ?"(\w+)"', one)
                if not cm:
                    raise ex.ExtractError("%s: condition not force_bits / target_arch / target_pointer_width = \"…\": %s" % (rel, one))
                sel.append((cm.group(1), cm.group(2), mod))
        pos = am.end()
    if not sel or sel[-1][0] != "else":
        raise ex.ExtractError("%s: the cfg_if chain has no final else arm" % rel)
    uses = sorted(re.findall(r"pub\(crate\) use arch_impl::(\w+) ?;", src))
    if uses != ["add", "digits", "ntt", "word"]:
        raise ex.ExtractError("%s: re-exports are not add, digits, ntt, word: %s" % (rel, uses))
    return sel


def generate(ex):
    info = {}
    out = ["import Dashu.Model.Arch.Prelude",
           "/-! GENERATED by vlib/extract.py (vlib/extract_archadd.py) from /repo — do not edit.  C19: the architecture layer",
           "    of dashu-int: `add_with_carry` / `sub_with_borrow` of integer/src/arch/{generic,x86,x86_64}/add.rs, the module",
           "    tables of arch/*/mod.rs, the `Word` types of arch/*/word.rs and the selection chain of arch/mod.rs. -/",
           "namespace Dashu.Gen.ArchAdd", "open Dashu.Model.Arch", ""]
    rel = "integer/src/arch/generic/add.rs"
    src = _strip(ex.read(rel))
    for fn, lean in (("add_with_carry", "generic_add_with_carry"), ("sub_with_borrow", "generic_sub_with_borrow")):
        text, h = _generic_fn(ex, src, rel, fn, lean)
        out.append(text)
        info["arch_" + lean] = h
    intr_bits = {}
    for arch in ("x86", "x86_64"):
        rel = "integer/src/arch/%s/add.rs" % arch
        src = _strip(ex.read(rel))
        for fn in ("add_with_carry", "sub_with_borrow"):
            lean = "%s_%s" % (arch, fn)
            text, bits, h = _intrinsic_fn(ex, src, rel, fn, lean, arch)
            out.append(text)
            info["arch_" + lean] = h
            intr_bits.setdefault(arch, set()).add(bits)
    for arch, bs in intr_bits.items():
        if len(bs) != 1:
            raise ex.ExtractError("arch/%s/add.rs: intrinsics of different widths: %s" % (arch, sorted(bs)))
    sel = _selection(ex)
    mods = []
    for m in sel:
        if m[2] not in mods:
            mods.append(m[2])
    rows = []
    for mod in sorted(mods):
        t = _mod_table(ex, mod)
        w = _word_bits(ex, t["word"])
        rows.append((mod, w, t["add"], t["digits"], t["word"], t["ntt"]))
        if t["add"] in ("x86/add.rs", "x86_64/add.rs"):
            a = t["add"].split("/")[0]
            if intr_bits[a] != {w}:
                raise ex.ExtractError("arch/%s: %d-bit intrinsics with a %d-bit Word" % (mod, sorted(intr_bits[a])[0], w))
    out.append("/-- arch/<module>/mod.rs + word.rs: (module, bits of `Word`, file of `add`, file of `digits`, file of `word`, file of `ntt`) -/")
    out.append("def arch_modules : List (String × Nat × String × String × String × String) :=\n  [" +
               ",\n   ".join('("%s", %d, "%s", "%s", "%s", "%s")' % r for r in rows) + "]\n")
    out.append("/-- the cfg_if chain of integer/src/arch/mod.rs, in order: (kind of condition, value, selected module); the first arm\n"
               "    whose condition holds is taken -/")
    out.append("def arch_selection : List (String × String × String) :=\n  [" +
               ",\n   ".join('("%s", "%s", "%s")' % s for s in sel) + "]\n")
    out.append("end Dashu.Gen.ArchAdd")
    info["arch_modules"] = hashlib.sha1(repr(rows).encode()).hexdigest()[:12]
    info["arch_selection"] = hashlib.sha1(repr(sel).encode()).hexdigest()[:12]
    return "\n".join(out) + "\n", info
