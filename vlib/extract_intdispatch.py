"""Tie A (C01): the TypedRepr-level operator dispatch of dashu-int's ring arithmetic, regenerated from /repo into
lean/Dashu/Gen/IntDispatch.lean.

Loaded by `vlib/extract.py::gen_int_dispatch` (which passes its own module object, so nothing is imported circularly).

What is translated (FAIL CLOSED outside the subset — any other construct raises ExtractError with file:line):
  * every `impl … Add|Sub|Mul|SubSigned<TypedRepr|TypedReprRef> for TypedRepr|TypedReprRef` of
    `integer/src/add_ops.rs` (`mod repr`, `mod repr_signed`) and `integer/src/mul_ops.rs` (`mod repr`): the body is either
    `match (self, rhs) { four arms over Small/Large (RefSmall/RefLarge) }` or the commutative forwarding
    `rhs.<method>(self)`.  An arm is a call `f(args)` of a function of the same module (arguments: a pattern variable,
    optionally `&x` / `x.into()` — both erased: a borrowed slice and an owned buffer are the same word list in the model),
    optionally followed by `.neg()`, or `{ if x.len() <cmp> y.len() { arm } else { arm } }`.
    One Lean definition per impl (`Add_ref_val`, …; `ref`/`val` = TypedReprRef / TypedRepr on the left_right), over a record of
    the callees (`AddK`, `SubK`, `MulK`, `SubSignedK`) whose field types are inferred from the pattern variables
    (Small ⇒ `Nat` double word, Large ⇒ `List Nat` words).
  * the public squaring / cubing methods `UBig::sqr`, `UBig::cubic`, `IBig::sqr`, `IBig::cubic` (mul_ops.rs): the body's
    token sequence must be one of the known shapes; what is emitted says which repr-level operation and which
    ownership form of `Mul` the body reaches.
  * `mul_ops.rs repr::mul_dword`'s one-word test, the `match rhs { 0 => …, 1 => …, dw => … }` skeleton of `mul_large_dword`
    and the equal-operands shortcut of `mul_large`, as guards (shape checked, constants emitted).
"""
import re, hashlib


def generate(X):
    ExtractError = X.ExtractError

    def sha(text):
        t = re.sub(r"/\*.*?\*/", "", text, flags=re.S)
        t = re.sub(r"//[^\n]*", "", t)
        return hashlib.sha1(re.sub(r"\s+", " ", t).strip().encode()).hexdigest()[:12]

    KIND = {"Small": "small", "RefSmall": "small", "Large": "large", "RefLarge": "large"}
    CMP = {">=": "≥", "<=": "≤", ">": ">", "<": "<"}
    LEAN_TY = {"small": "Nat", "large": "List Nat"}

    def module_text(src, rel, header_re):
        m = re.search(header_re, src)
        if not m:
            raise ExtractError("%s: module header %r not found" % (rel, header_re))
        b0 = src.index("{", m.end() - 1)
        b1 = X.balanced(src, b0)
        return b0 + 1, src[b0 + 1:b1 - 1]

    class Toks:
        def __init__(self, toks, what):
            self.t, self.i, self.what = toks, 0, what

        def peek(self, k=0):
            return self.t[self.i + k][1] if self.i + k < len(self.t) else "<eof>"

        def next(self):
            v = self.peek()
            self.i += 1
            return v

        def expect(self, v):
            g = self.next()
            if g != v:
                raise ExtractError("%s: expected `%s`, found `%s`" % (self.what, v, g))

        def ident(self):
            if self.i >= len(self.t) or self.t[self.i][0] != "id":
                raise ExtractError("%s: identifier expected, found `%s`" % (self.what, self.peek()))
            return self.next()

        def done(self):
            return self.i >= len(self.t)

    class Impl:
        pass

    def parse_arm_expr(tk, env, sigs):
        """returns a Lean term (string); env: variable -> kind; sigs: callee -> tuple of kinds (filled / checked)"""
        if tk.peek() == "{" and tk.peek(1) != "if":
            # a block around a single expression (rustfmt line wrapping)
            tk.next()
            e = parse_arm_expr(tk, env, sigs)
            tk.expect("}")
            return e
        if tk.peek() == "{":
            tk.next()
            tk.expect("if")
            a = tk.ident(); tk.expect("."); tk.expect("len"); tk.expect("("); tk.expect(")")
            op = tk.next()
            if op not in CMP:
                raise ExtractError("%s: comparison `%s` outside the subset" % (tk.what, op))
            b = tk.ident(); tk.expect("."); tk.expect("len"); tk.expect("("); tk.expect(")")
            for v in (a, b):
                if env.get(v) != "large":
                    raise ExtractError("%s: `%s.len()` of something that is not a Large pattern variable" % (tk.what, v))
            tk.expect("{")
            e1 = parse_arm_expr(tk, env, sigs)
            tk.expect("}")
            tk.expect("else")
            tk.expect("{")
            e2 = parse_arm_expr(tk, env, sigs)
            tk.expect("}")
            tk.expect("}")
            return "if %s.length %s %s.length then %s else %s" % (a, CMP[op], b, e1, e2)
        f = tk.ident()
        if f == "super":            # `super::repr::f(…)` is not used in arms; wrappers are followed by name
            raise ExtractError("%s: qualified callee in an arm" % tk.what)
        tk.expect("(")
        args, kinds = [], []
        while tk.peek() != ")":
            if tk.peek() == "&":
                tk.next()
            v = tk.ident()
            if v not in env:
                raise ExtractError("%s: argument `%s` of `%s` is not a pattern variable" % (tk.what, v, f))
            if tk.peek() == ".":
                tk.next(); tk.expect("into"); tk.expect("("); tk.expect(")")
            args.append(v); kinds.append(env[v])
            if tk.peek() == ",":
                tk.next()
        tk.expect(")")
        kinds = tuple(kinds)
        if sigs.setdefault(f, kinds) != kinds:
            raise ExtractError("%s: `%s` called with operand kinds %s and %s" % (tk.what, f, sigs[f], kinds))
        term = "k.%s%s" % (f, "".join(" " + a for a in args))
        while tk.peek() == ".":
            tk.next()
            m = tk.ident()
            if m != "neg":
                raise ExtractError("%s: method `.%s()` on an arm result outside the subset" % (tk.what, m))
            tk.expect("("); tk.expect(")")
            sigs.setdefault(".neg", ())
            term = "k.neg (%s)" % term
        return term

    def parse_impls(rel, src, base, text, traits):
        """all operator impls on TypedRepr / TypedReprRef in a module text"""
        out = []
        pos = 0
        hdr = re.compile(r"impl\s*(?:<[^>]*>)?\s*(\w+)\s*<\s*(TypedReprRef|TypedRepr)\s*(?:<[^>]*>)?\s*>\s*for\s*"
                         r"(TypedReprRef|TypedRepr)\s*(?:<[^>]*>)?\s*\{")
        while True:
            m = hdr.search(text, pos)
            if not m:
                break
            b0 = m.end() - 1
            b1 = X.balanced(text, b0)
            pos = b1
            trait, rhs_ty, lhs_ty = m.group(1), m.group(2), m.group(3)
            if trait not in traits:
                raise ExtractError("%s:%d: impl of `%s` on TypedRepr — trait outside the subset" %
                                   (rel, X.line_of(src, base + m.start()), trait))
            it = Impl()
            it.trait, it.lhs, it.rhs = trait, lhs_ty, rhs_ty
            it.form = ("ref" if lhs_ty == "TypedReprRef" else "val") + "_" + ("ref" if rhs_ty == "TypedReprRef" else "val")
            it.lines = (X.line_of(src, base + m.start()), X.line_of(src, base + b1 - 1))
            it.header = re.sub(r"\s+", " ", text[m.start():b0]).strip()
            it.text = text[m.start():b1]
            it.where = "%s:%d" % (rel, it.lines[0])
            body = text[b0:b1]
            fm = re.search(r"\bfn\s+(\w+)\s*\(\s*self\s*,\s*rhs\s*:\s*[^)]*\)\s*->\s*[\w:]+\s*\{", body)
            if not fm:
                raise ExtractError("%s: `fn m(self, rhs: _) -> _` not found" % it.where)
            it.method = fm.group(1)
            f0 = fm.end() - 1
            f1 = X.balanced(body, f0)
            it.fn_body = body[f0 + 1:f1 - 1]
            rest = re.sub(r"type\s+Output\s*=\s*\w+\s*;|#\[inline\]", "", body[1:fm.start()] + body[f1:-1]).strip()
            if rest:
                raise ExtractError("%s: unexpected items in the impl: %r" % (it.where, rest[:60]))
            out.append(it)
        return out

    def translate_impl(it, sigs):
        tk = Toks(X.tokenize(it.fn_body), it.where)
        if tk.peek() == "rhs":
            # commutative forwarding `rhs.<method>(self)`
            tk.next(); tk.expect("."); m = tk.ident(); tk.expect("("); tk.expect("self"); tk.expect(")")
            if not tk.done() or m != it.method:
                raise ExtractError("%s: forwarding body is not `rhs.%s(self)`" % (it.where, it.method))
            swapped = it.form.split("_")[1] + "_" + it.form.split("_")[0]
            it.forward = swapped
            return "%s_%s k rhs self" % (it.trait, swapped)
        it.forward = None
        tk.expect("match"); tk.expect("("); tk.expect("self"); tk.expect(","); tk.expect("rhs"); tk.expect(")"); tk.expect("{")
        arms = {}
        while tk.peek() != "}":
            tk.expect("(")
            pats, env = [], {}
            for side in (0, 1):
                c = tk.ident()
                if c not in KIND:
                    raise ExtractError("%s: pattern constructor `%s` outside the subset" % (it.where, c))
                expect_ref = (it.lhs if side == 0 else it.rhs) == "TypedReprRef"
                if c.startswith("Ref") != expect_ref:
                    raise ExtractError("%s: pattern `%s` does not fit the operand type" % (it.where, c))
                tk.expect("(")
                v = tk.ident()
                tk.expect(")")
                if v != "_":
                    if v in env:
                        raise ExtractError("%s: pattern variable `%s` bound twice" % (it.where, v))
                    env[v] = KIND[c]
                pats.append((KIND[c], v))
                if side == 0:
                    tk.expect(",")
            tk.expect(")")
            tk.expect("=>")
            term = parse_arm_expr(tk, env, sigs)
            if tk.peek() == ",":
                tk.next()
            key = (pats[0][0], pats[1][0])
            if key in arms:
                raise ExtractError("%s: two arms for (%s, %s)" % (it.where, key[0], key[1]))
            arms[key] = (pats, term)
        tk.expect("}")
        if not tk.done():
            raise ExtractError("%s: statements after the match" % it.where)
        lines = ["match self, rhs with"]
        for key in (("small", "small"), ("small", "large"), ("large", "small"), ("large", "large")):
            if key not in arms:
                raise ExtractError("%s: no arm for (%s, %s)" % (it.where, key[0], key[1]))
            pats, term = arms[key]
            lines.append("    | .%s %s, .%s %s => %s" % (pats[0][0], pats[0][1], pats[1][0], pats[1][1], term))
        return "\n".join(lines)

    out = ["import Dashu.Model.Int.Repr",
           "/-! GENERATED by vlib/extract.py (vlib/extract_intdispatch.py) from /repo — do not edit.  The TypedRepr-level",
           "    dispatch of `+`, `-`, `*`, `sub_signed` (integer/src/add_ops.rs `mod repr` / `mod repr_signed`,",
           "    integer/src/mul_ops.rs `mod repr`): one definition per ownership form (`ref` = TypedReprRef, `val` = TypedRepr,",
           "    left_right), over a record of the callees; the public `sqr` / `cubic` methods; small guards of mul_ops.rs. -/",
           "namespace Dashu.Gen.IntDispatch", "open Dashu.Model", "set_option linter.unusedVariables false", ""]
    info = {}

    FAMILIES = [
        # (file, module header regex, traits, prefix used in Lean names)
        ("integer/src/add_ops.rs", r"\bpub\s+mod\s+repr\s*\{", ("Add", "Sub"), ""),
        ("integer/src/add_ops.rs", r"\bmod\s+repr_signed\s*\{", ("SubSigned",), ""),
        ("integer/src/mul_ops.rs", r"\bpub\s*\(\s*crate\s*\)\s*mod\s+repr\s*\{", ("Mul",), ""),
    ]
    for rel, hre, traits, _ in FAMILIES:
        src = X.read(rel)
        base, text = module_text(src, rel, hre)
        impls = parse_impls(rel, src, base, text, traits)
        for trait in traits:
            mine = [it for it in impls if it.trait == trait]
            forms = sorted(it.form for it in mine)
            if forms != ["ref_ref", "ref_val", "val_ref", "val_val"]:
                raise ExtractError("%s: `%s` on TypedRepr/TypedReprRef: expected the four ownership forms, found %s" %
                                   (rel, trait, forms))
            sigs, bodies = {}, {}
            for it in mine:
                bodies[it.form] = translate_impl(it, sigs)
            # the callee record
            fields = []
            for f in sorted(k for k in sigs if k != ".neg"):
                tys = [LEAN_TY[k] for k in sigs[f]] + ["R"]
                fields.append("  %s : %s" % (f, " → ".join(tys)))
            if ".neg" in sigs:
                fields.append("  neg : R → R")
            out.append("/-- the functions the `%s` impls of %s call (operand kinds inferred from the match patterns:"
                       " Small ⇒ `Nat`, Large ⇒ `List Nat`) -/" % (trait, rel))
            out.append("structure %sK (R : Type) where\n%s\n" % (trait, "\n".join(fields)))
            info["IntDispatch.%sK" % trait] = ",".join("%s/%d" % (f, len(sigs[f])) for f in sorted(sigs))
            # definitions: forwarding ones after their targets
            order = sorted(mine, key=lambda it: (it.forward is not None, it.form))
            for it in order:
                name = "%s_%s" % (trait, it.form)
                out.append("/-- `%s` — %s:%d-%d, sha1 %s -/" % (it.header, rel, it.lines[0], it.lines[1], sha(it.text)))
                out.append("def %s {R : Type} (k : %sK R) (self rhs : TRepr) : R :=\n    %s\n" % (name, trait, bodies[it.form]))
                info["IntDispatch." + name] = sha(it.text)

    # ---------------------------------------------------------------- public sqr / cubic
    rel = "integer/src/mul_ops.rs"
    src = X.read(rel)
    SHAPES = {
        # token sequence of the body -> (Lean body over the callee parameters, doc)
        "UBig ( self . repr ( ) . sqr ( ) )": ("repr_sqr self", "the magnitude's `TypedReprRef::sqr`"),
        "UBig ( self . as_sign_repr ( ) . 1 . sqr ( ) )": ("repr_sqr (magnitude self)", "`TypedReprRef::sqr` of the magnitude; the sign is dropped"),
        "self * self . sqr ( )": ("mul_ref_val self (sqr self)", "`&Self * (self.sqr())`: the `ref_val` form of `Mul`, right operand the square"),
    }
    PUB = [("UBig", "sqr", r"\nimpl UBig \{"), ("UBig", "cubic", r"\nimpl UBig \{"),
           ("IBig", "sqr", r"\nimpl IBig \{"), ("IBig", "cubic", r"\nimpl IBig \{")]
    for ty, fn, anchor in PUB:
        it = X.fn_item(src, fn, after=anchor, rel=rel)
        if [p for p, _ in it["params"]] != ["self"] or not re.search(r"fn\s+%s\s*\(\s*&\s*self\s*\)" % fn, it["text"]):
            raise ExtractError("%s: `%s::%s` is not `fn %s(&self)`" % (rel, ty, fn, fn))
        toks = " ".join(v for _, v in X.tokenize(it["body"][1:-1]))
        if toks not in SHAPES:
            raise ExtractError("%s:%d: body of `%s::%s` has an unknown shape: `%s`" % (rel, it["lines"][0], ty, fn, toks))
        body, doc = SHAPES[toks]
        ret = (it["ret"] or "").strip()
        if fn == "sqr":
            if ret != "UBig":
                raise ExtractError("%s: `%s::sqr` returns `%s`, expected UBig" % (rel, ty, ret))
            params = "(repr_sqr : M → M)" + (" (magnitude : V → M)" if "magnitude" in body else "") + " (self : %s)" % ("V" if "magnitude" in body else "M")
            out.append("/-- `%s::sqr` — %s:%d-%d, sha1 %s: %s -/" % (ty, rel, it["lines"][0], it["lines"][1], sha(it["text"]), doc))
            out.append("def %s_sqr {%sM : Type} %s : M :=\n    %s\n" % (ty, "V " if "magnitude" in body else "", params, body))
        else:
            if ret != ty:
                raise ExtractError("%s: `%s::cubic` returns `%s`, expected %s" % (rel, ty, ret, ty))
            out.append("/-- `%s::cubic` — %s:%d-%d, sha1 %s: %s -/" % (ty, rel, it["lines"][0], it["lines"][1], sha(it["text"]), doc))
            out.append("def %s_cubic {V S O : Type} (sqr : V → S) (mul_ref_val : V → S → O) (self : V) : O :=\n    %s\n" % (ty, body))
        info["IntDispatch.%s_%s" % (ty, fn)] = sha(it["text"])

    # ---------------------------------------------------------------- guards of mul_ops.rs `mod repr`
    base, text = module_text(src, rel, r"\bpub\s*\(\s*crate\s*\)\s*mod\s+repr\s*\{")
    it = X.fn_item(text, "mul_dword", rel=rel)
    toks = " ".join(v for _, v in X.tokenize(it["body"][1:-1]))
    want = ("if a <= Word :: MAX as DoubleWord && b <= Word :: MAX as DoubleWord { Repr :: from_dword ( a * b ) } "
            "else { mul_dword_spilled ( a , b ) }")
    if toks != want or [p for p, _ in it["params"]] != ["a", "b"]:
        raise ExtractError("%s `mul_dword`: body is not `%s`" % (rel, want))
    out.append("/-- `mul_dword` — %s, sha1 %s: `Repr::from_dword(a * b)` iff both operands fit a word (`WORD_MAX = Word::MAX`),"
               " otherwise `mul_dword_spilled(a, b)` -/" % (rel, sha(it["text"])))
    out.append("def mul_dword {R : Type} (from_dword : Nat → R) (mul_dword_spilled : Nat → Nat → R) (WORD_MAX a b : Nat) : R :=\n"
               "    if a ≤ WORD_MAX ∧ b ≤ WORD_MAX then from_dword (a * b) else mul_dword_spilled a b\n")
    info["IntDispatch.mul_dword"] = sha(it["text"])

    it = X.fn_item(text, "mul_large", rel=rel)
    body = re.sub(r"//[^\n]*", "", it["body"])
    flat = " ".join(v for _, v in X.tokenize(body[1:-1]))
    want_prefix = ("debug_assert ! ( lhs . len ( ) >= 2 && rhs . len ( ) >= 2 ) ; "
                   "if cmp_in_place ( lhs , rhs ) . is_eq ( ) { return square_large ( lhs ) ; } "
                   "let res_len = lhs . len ( ) + rhs . len ( ) ; let mut buffer = Buffer :: allocate ( res_len ) ; "
                   "buffer . push_zeros ( res_len ) ; "
                   "let mut allocation = MemoryAllocation :: new ( mul :: memory_requirement_exact ( res_len , lhs . len ( ) . min ( rhs . len ( ) ) ) ) ; "
                   "mul :: multiply ( & mut buffer , lhs , rhs , & mut allocation . memory ( ) ) ; Repr :: from_buffer ( buffer )")
    if flat != want_prefix:
        raise ExtractError("%s `mul_large`: body changed shape: `%s`" % (rel, flat[:200]))
    out.append("/-- `mul_large` — %s, sha1 %s: equal operands (`cmp_in_place(lhs, rhs).is_eq()`) go to `square_large(lhs)`; otherwise\n"
               "    `mul::multiply` into a zero-filled buffer of `lhs.len() + rhs.len()` words with scratch\n"
               "    `mul::memory_requirement_exact(res_len, min(lhs.len(), rhs.len()))`, then `Repr::from_buffer` -/" % (rel, sha(it["text"])))
    out.append("def mul_large {R : Type} (cmp_is_eq : List Nat → List Nat → Bool) (square_large : List Nat → R)\n"
               "    (multiply_from_buffer : (res_len scratch_total scratch_n : Nat) → List Nat → List Nat → R) (lhs rhs : List Nat) : R :=\n"
               "    if cmp_is_eq lhs rhs then square_large lhs\n"
               "    else multiply_from_buffer (lhs.length + rhs.length) (lhs.length + rhs.length) (min lhs.length rhs.length) lhs rhs\n")
    info["IntDispatch.mul_large"] = sha(it["text"])

    # ---------------------------------------------------------------- mul_large_dword, TypedReprRef::sqr, *_spilled
    it = X.fn_item(text, "mul_large_dword", rel=rel)
    want = ("match rhs { 0 => Repr :: zero ( ) , 1 => Repr :: from_buffer ( buffer ) , dw => { if let Some ( word ) = shrink_dword ( dw ) "
            "{ let carry = if dw . is_power_of_two ( ) { shift :: shl_in_place ( & mut buffer , dw . trailing_zeros ( ) ) } else "
            "{ mul :: mul_word_in_place ( & mut buffer , word ) } ; buffer . push_resizing ( carry ) ; Repr :: from_buffer ( buffer ) } "
            "else { let carry = mul :: mul_dword_in_place ( & mut buffer , dw ) ; if carry != 0 { let ( lo , hi ) = split_dword ( carry ) ; "
            "buffer . ensure_capacity ( buffer . len ( ) + 2 ) ; buffer . push ( lo ) ; buffer . push ( hi ) ; } Repr :: from_buffer ( buffer ) } } }")
    flat = " ".join(v for _, v in X.tokenize(it["body"][1:-1]))
    if flat != want or [p for p, _ in it["params"]] != ["buffer", "rhs"]:
        raise ExtractError("%s `mul_large_dword`: body changed shape: `%s`" % (rel, flat[:300]))
    out.append("/-- `mul_large_dword(buffer, rhs)` — %s, sha1 %s: `0 => zero`, `1 => from_buffer(buffer)`; a multiplier that fits a word\n"
               "    (`shrink_dword`, `WORD_MAX = Word::MAX`): `shl_in_place(buffer, dw.trailing_zeros())` when it is a power of two, else\n"
               "    `mul_word_in_place`, the carry word pushed; otherwise `mul_dword_in_place` and, only if the double-word carry is\n"
               "    non-zero, its two words pushed (`split_dword`).  In-place kernels return (new words, carry). -/" % (rel, sha(it["text"])))
    out.append("def mul_large_dword {R : Type} (zero : R) (from_buffer : List Nat → R) (is_power_of_two : Nat → Bool) (trailing_zeros : Nat → Nat)\n"
               "    (shl_in_place mul_word_in_place mul_dword_in_place : List Nat → Nat → List Nat × Nat) (split_dword : Nat → Nat × Nat)\n"
               "    (WORD_MAX : Nat) (buffer : List Nat) (rhs : Nat) : R :=\n"
               "    match rhs with\n    | 0 => zero\n    | 1 => from_buffer buffer\n    | dw =>\n"
               "      if dw ≤ WORD_MAX then\n"
               "        let r := if is_power_of_two dw then shl_in_place buffer (trailing_zeros dw) else mul_word_in_place buffer dw\n"
               "        from_buffer (r.1 ++ [r.2])\n"
               "      else\n"
               "        let r := mul_dword_in_place buffer dw\n"
               "        if r.2 ≠ 0 then from_buffer (r.1 ++ [(split_dword r.2).1, (split_dword r.2).2]) else from_buffer r.1\n")
    info["IntDispatch.mul_large_dword"] = sha(it["text"])

    it = X.fn_item(text, "sqr", rel=rel)
    want = ("match self { TypedReprRef :: RefSmall ( dword ) => { if let Some ( word ) = shrink_dword ( * dword ) { Repr :: from_dword ( "
            "extend_word ( word ) * extend_word ( word ) ) } else { square_dword_spilled ( * dword ) } } "
            "TypedReprRef :: RefLarge ( words ) => square_large ( words ) , }")
    flat = " ".join(v for _, v in X.tokenize(it["body"][1:-1]))
    if flat != want:
        raise ExtractError("%s `TypedReprRef::sqr`: body changed shape: `%s`" % (rel, flat[:300]))
    out.append("/-- `TypedReprRef::sqr` — %s, sha1 %s: a double word that fits a word: `from_dword(word * word)`; else\n"
               "    `square_dword_spilled`; heap: `square_large` -/" % (rel, sha(it["text"])))
    out.append("def repr_sqr {R : Type} (from_dword : Nat → R) (square_dword_spilled : Nat → R) (square_large : List Nat → R)\n"
               "    (WORD_MAX : Nat) (self : TRepr) : R :=\n"
               "    match self with\n"
               "    | .small dword => if dword ≤ WORD_MAX then from_dword (dword * dword) else square_dword_spilled dword\n"
               "    | .large words => square_large words\n")
    info["IntDispatch.repr_sqr"] = sha(it["text"])

    SPILL = ("let ( lo , hi ) = math :: mul_add_carry_dword ( %s , %s , 0 ) ; let mut buffer = Buffer :: allocate ( 4 ) ; "
             "let ( n0 , n1 ) = split_dword ( lo ) ; buffer . push ( n0 ) ; buffer . push ( n1 ) ; let ( n2 , n3 ) = split_dword ( hi ) ; "
             "buffer . push ( n2 ) ; buffer . push ( n3 ) ; Repr :: from_buffer ( buffer )")
    for fn, a, b in (("mul_dword_spilled", "lhs", "rhs"), ("square_dword_spilled", "dw", "dw")):
        it = X.fn_item(text, fn, rel=rel)
        flat = " ".join(v for _, v in X.tokenize(it["body"][1:-1]))
        if flat != SPILL % (a, b):
            raise ExtractError("%s `%s`: body changed shape: `%s`" % (rel, fn, flat[:300]))
        info["IntDispatch." + fn] = sha(it["text"])
    out.append("/-- `mul_dword_spilled(lhs, rhs)` / `square_dword_spilled(dw)` (= the same with `lhs = rhs = dw`) — %s: `(lo, hi) =\n"
               "    math::mul_add_carry_dword(lhs, rhs, 0)`, the four words `split_dword(lo)`, `split_dword(hi)` pushed into a 4-word\n"
               "    buffer, `from_buffer` -/" % rel)
    out.append("def dword_spilled {R : Type} (mul_add_carry_dword : Nat → Nat → Nat → Nat × Nat) (split_dword : Nat → Nat × Nat)\n"
               "    (from_buffer : List Nat → R) (lhs rhs : Nat) : R :=\n"
               "    let p := mul_add_carry_dword lhs rhs 0\n"
               "    from_buffer [(split_dword p.1).1, (split_dword p.1).2, (split_dword p.2).1, (split_dword p.2).2]\n")

    # ---------------------------------------------------------------- pow.rs: UBig::pow / IBig::pow / TypedReprRef::pow
    rel = "integer/src/pow.rs"
    src = X.read(rel)

    def toks_of(body):
        return " ".join(v for _, v in X.tokenize(body[1:-1]))

    RESULT = ("let shift = %(m)s . trailing_zeros ( ) . unwrap_or ( 0 ) ; let result = if shift != 0 { %(r)s . shr ( shift ) . as_typed ( ) "
              ". pow ( exp ) . into_typed ( ) . shl ( exp . checked_mul ( shift ) . unwrap_or_else ( || crate :: error :: "
              "panic_allocate_too_much ( ) ) , ) } else { %(r)s . pow ( exp ) } ;")
    itu = X.fn_item(src, "pow", after=r"\nimpl UBig \{", rel=rel)
    iti = X.fn_item(src, "pow", after=r"\nimpl IBig \{", rel=rel)
    for it, ty in ((itu, "UBig"), (iti, "IBig")):
        if not re.search(r"fn\s+pow\s*\(\s*&\s*self\s*,\s*exp\s*:\s*usize\s*\)\s*->\s*%s\b" % ty, it["text"]):
            raise ExtractError("%s: `%s::pow` is not `fn pow(&self, exp: usize) -> %s`" % (rel, ty, ty))
    tu, ti = toks_of(itu["body"]), toks_of(iti["body"])
    want_u = RESULT % {"m": "self", "r": "self . repr ( )"} + " UBig ( result )"
    if tu != want_u:
        raise ExtractError("%s:%d `UBig::pow`: body changed shape: `%s`" % (rel, itu["lines"][0], tu[:300]))
    mi = re.fullmatch(r"let \( sign , mag \) = self \. as_sign_repr \( \) ; let sign = if (.+?) \{ Negative \} else \{ Positive \} ; (.*) "
                      r"IBig \( result \. with_sign \( sign \) \)", ti)
    if not mi or mi.group(2) != RESULT % {"m": "mag", "r": "mag"}:
        raise ExtractError("%s:%d `IBig::pow`: body changed shape: `%s`" % (rel, iti["lines"][0], ti[:300]))
    cond = mi.group(1)
    if sorted(set(re.findall(r"\b[A-Za-z_]\w*\b", cond)) - {"Negative", "Positive"}) != ["exp", "sign"]:
        raise ExtractError("%s `IBig::pow`: unexpected operands in the sign test: %s" % (rel, cond))
    lean_cond, _ = X.translate_body("{ " + cond + " }")
    out[0] = "import Dashu.Model.Int.Repr\nimport Dashu.Model.GluePrelude"
    out.append("/-- sign of `IBig::pow` — %s:%d-%d, sha1 %s: `if %s { Negative } else { Positive }` (`exp : usize`, no reduction\n"
               "    of the exponent before the parity test) -/" % (rel, iti["lines"][0], iti["lines"][1], sha(iti["text"]), cond))
    out.append("def IBig_pow_sign (sign : Dashu.Sign) (exp : Int) : Dashu.Sign :=\n    open Dashu in if %s then Sign.Negative else Sign.Positive\n" % lean_cond)
    info["IntDispatch.IBig_pow_sign"] = sha(cond)
    out.append("/-- the magnitude of `UBig::pow` (%s:%d-%d, sha1 %s) and `IBig::pow` (same text on `mag`):\n"
               "    `shift = trailing_zeros().unwrap_or(0)`; `if shift != 0 { shr(shift).pow(exp).shl(exp.checked_mul(shift)\n"
               "    .unwrap_or_else(panic_allocate_too_much)) } else { pow(exp) }` — the receiver `…pow(exp)` is evaluated before the\n"
               "    checked product (`shl_checked_mul r exp shift`) -/" % (rel, itu["lines"][0], itu["lines"][1], sha(itu["text"])))
    out.append("def pow_magnitude {M R : Type} (shr : M → Nat → M) (pow : M → Nat → R) (shl_checked_mul : R → Nat → Nat → R)\n"
               "    (mag : M) (trailing_zeros : Option Nat) (exp : Nat) : R :=\n"
               "    let shift := trailing_zeros.getD 0\n"
               "    if shift ≠ 0 then shl_checked_mul (pow (shr mag shift) exp) exp shift else pow mag exp\n")
    info["IntDispatch.pow_magnitude"] = sha(itu["text"]) + "/" + sha(iti["text"])

    base, text = module_text(src, rel, r"\bpub\s*\(\s*crate\s*\)\s*mod\s+repr\s*\{")
    it = X.fn_item(text, "pow", rel=rel)
    want = ("match exp { 0 => return Repr :: one ( ) , 1 => return Repr :: from_ref ( self ) , 2 => return self . sqr ( ) , _ => { } } ; "
            "match self { RefSmall ( dword ) => { if let Some ( word ) = shrink_dword ( dword ) { pow_word_base ( word , exp ) } "
            "else { pow_dword_base ( dword , exp ) } } RefLarge ( words ) => pow_large_base ( words , exp ) , }")
    if toks_of(it["body"]) != want:
        raise ExtractError("%s `TypedReprRef::pow`: body changed shape: `%s`" % (rel, toks_of(it["body"])[:300]))
    out.append("/-- `TypedReprRef::pow` — %s, sha1 %s: shortcuts `exp = 0, 1, 2` (`Repr::one()`, `from_ref(self)`, `self.sqr()`), then\n"
               "    `pow_word_base` when the double word fits a word (`shrink_dword`, `WORD_MAX = Word::MAX`), `pow_dword_base`,\n"
               "    `pow_large_base` -/" % (rel, sha(it["text"])))
    out.append("def repr_pow {R : Type} (one : R) (from_ref : TRepr → R) (sqr : TRepr → R) (pow_word_base pow_dword_base : Nat → Nat → R)\n"
               "    (pow_large_base : List Nat → Nat → R) (WORD_MAX : Nat) (self : TRepr) (exp : Nat) : R :=\n"
               "    match exp with\n    | 0 => one\n    | 1 => from_ref self\n    | 2 => sqr self\n    | _ =>\n"
               "      match self with\n      | .small dword => if dword ≤ WORD_MAX then pow_word_base dword exp else pow_dword_base dword exp\n"
               "      | .large words => pow_large_base words exp\n")
    info["IntDispatch.repr_pow"] = sha(it["text"])

    it = X.fn_item(text, "pow_word_base", rel=rel)
    tw = toks_of(it["body"])
    want_pre = ("debug_assert ! ( exp > 1 ) ; match base { 0 => return Repr :: zero ( ) , 1 => return Repr :: one ( ) , "
                "2 => return Repr :: zero ( ) . into_typed ( ) . set_bit ( exp ) , b if b . is_power_of_two ( ) => { return Repr :: zero ( ) "
                ". into_typed ( ) . set_bit ( exp * base . trailing_zeros ( ) as usize ) } _ => { } } "
                "let ( wexp , wbase ) = max_exp_in_word ( base ) ; if exp < wexp { return Repr :: from_word ( base . pow ( exp as u32 ) ) ; } "
                "else if exp < 2 * wexp { let pow = base . pow ( ( exp - wexp ) as u32 ) ; return Repr :: from_dword ( extend_word ( wbase ) "
                "* extend_word ( pow ) ) ; } let ( exp , exp_rem ) = exp . div_rem ( wexp ) ; "
                "let mut res = Buffer :: allocate ( exp . checked_add ( 1 ) . unwrap_or_else ( || panic_allocate_too_much ( ) ) ) ;")
    if not tw.startswith(want_pre):
        raise ExtractError("%s `pow_word_base`: prologue changed shape: `%s`" % (rel, tw[:300]))
    out.append("/-- the shortcut returns of `pow_word_base` before its buffer loop — %s, sha1 %s: bases 0, 1, 2 (`set_bit(exp)`), powers of\n"
               "    two (`set_bit(exp * trailing_zeros)`), `exp < wexp` (`base.pow(exp)`), `exp < 2*wexp` (`wbase * base.pow(exp - wexp)`);\n"
               "    `none`: the buffer path, whose first statement is `Buffer::allocate((exp / wexp).checked_add(1)…)` -/" % (rel, sha(want_pre)))
    out.append("def pow_word_base_shortcut (is_power_of_two : Nat → Bool) (trailing_zeros : Nat → Nat) (wexp wbase base exp : Nat) : Option Nat :=\n"
               "    match base with\n    | 0 => some 0\n    | 1 => some 1\n    | 2 => some (2 ^ exp)\n    | b =>\n"
               "      if is_power_of_two b then some (2 ^ (exp * trailing_zeros base))\n"
               "      else if exp < wexp then some (base ^ exp)\n"
               "      else if exp < 2 * wexp then some (wbase * base ^ (exp - wexp))\n"
               "      else none\n")
    out.append("/-- number of words `pow_word_base` asks `Buffer::allocate` for on the buffer path: `(exp / wexp) + 1`\n"
               "    (`checked_add`: an overflow is the allocation panic as well) -/")
    out.append("def pow_word_base_allocate (wexp exp : Nat) : Nat :=\n    exp / wexp + 1\n")
    info["IntDispatch.pow_word_base_shortcut"] = sha(want_pre)

    it = X.fn_item(text, "pow_dword_base", rel=rel)
    td = toks_of(it["body"])
    want_d = ("debug_assert ! ( exp > 1 ) ; debug_assert ! ( base > Word :: MAX as DoubleWord ) ; "
              "let mut res = Buffer :: allocate ( exp . checked_mul ( 2 ) . unwrap_or_else ( || panic_allocate_too_much ( ) ) ) ;")
    if not td.startswith(want_d):
        raise ExtractError("%s `pow_dword_base`: prologue changed shape: `%s`" % (rel, td[:300]))
    out.append("/-- number of words `pow_dword_base` asks `Buffer::allocate` for: `exp * 2` (`checked_mul`) — %s, sha1 %s -/" % (rel, sha(want_d)))
    out.append("def pow_dword_base_allocate (exp : Nat) : Nat :=\n    exp * 2\n")
    info["IntDispatch.pow_dword_base_allocate"] = sha(want_d)

    out.append("end Dashu.Gen.IntDispatch")
    return "\n".join(out) + "\n", info
