"""Tie A (C04): the `Repr`-level function bodies of dashu-ratio that are not macro bodies, regenerated from /repo into
lean/Dashu/Gen/RatFns.lean (the macro bodies are `vlib/extract_ratops.py` -> Gen/RatOps.lean).

Loaded by `vlib/extract.py::gen_rat_fns`.  FAIL CLOSED outside the subset (ExtractError naming file:line and the construct).

Targets: rational/src/repr.rs `reduce`, `reduce_with_hint`, `reduce2`; rational/src/round.rs `split_at_point`, `ceil`, `floor`,
`trunc`, `fract`, `round` (of `impl Repr`); rational/src/div.rs `<Repr as Inverse>::inv`; rational/src/sign.rs `Repr::neg`, `Repr::abs`,
`<Repr as Mul<Sign>>::mul`; rational/src/mul.rs `Repr::sqr`, `cubic`, `pow`; rational/src/rbig.rs `from_parts`, `from_parts_signed` of
`RBig` and of `Relaxed`.

Translation: a body is a sequence of `let`, early `if c { return e; }` / `if c { panic_divide_by_0() }`, the mutation idioms
`if c { x op= e; }`, `x = e;`, `match e.sign() { Sign::Positive => x op= e, Sign::Negative => x op= e }` (re-bindings of `x`), and a tail
expression; expressions over the vocabulary of `lean/Dashu/Model/Ratio/GenPrelude.lean` (`G.*`).  `self.numerator` / `self.denominator`
are the variables `num` / `den` (assignments to them re-bind).  The integer `/`, `%`, `div_rem` here are applied to a user-supplied
denominator: they are the PANICKING kernels `G.div_p`, `G.rem_p`, `G.div_rem` (zero divisor -> DivideByZero).  `.unwrap()` becomes
`G.unwrap "<file>"` (the file of the panic site; the line is deliberately not part of the value).
"""
import re, hashlib

METHODS = {
    "gcd": (1, "G.gcd", True),
    "is_zero": (0, "G.is_zero", False),
    "is_one": (0, "G.is_one", False),
    "sign": (0, "G.sign", False),
    "unsigned_abs": (0, "G.unsigned_abs", False),
    "into_parts": (0, "G.into_parts", False),
    "into": (0, "G.into", False),
    "clone": (0, "G.into", False),
    "trailing_zeros": (0, "G.trailing_zeros", False),
    "unwrap_or_default": (0, "G.unwrap_or_default", False),
    "min": (1, "G.min", False),
    "div_rem": (1, "G.div_rem", True),
    "sqr": (0, "G.sqr", False),
    "cubic": (0, "G.cubic", False),
    "pow": (1, "G.pow", False),
    "reduce": (0, "G.reduce", True),
    "reduce2": (0, "G.reduce2", True),
}
FUNCS = {
    "IBig::from_parts": (2, "G.ibig_from_parts", False),
    "Repr::zero": (0, "Q.zero", False),
}
CONSTS = {"IBig::ZERO": "(0 : Int)", "IBig::ONE": "(1 : Int)", "Sign::Negative": "(-1 : Int)", "Sign::Positive": "(1 : Int)"}
BINOPS = {"*": ("G.mul", False), "/": ("G.div_p", True), "%": ("G.rem_p", True), "-": ("G.sub", False), "+": ("G.add", False),
          "<": ("G.lt", False), ">": ("G.gt", False), ">=": ("G.ge", False), "==": ("G.eq", False),
          ">>": ("G.shr", False), "<<": ("G.shl", False)}
ASSIGN = {"+=": "+", "-=": "-", "*=": "*", "/=": "/"}

# (file, anchor regex, fn name, Lean name, receiver: None | "self" (a Repr), parameters {name: Lean type}, result, Self-constructor)
# a 9th field `{"prim": True, "measure": var}` marks a body over machine integers (DoubleWord): `/`, `%` are the primitive ones (the body
# guards its divisors), `.trailing_zeros()` is the primitive count, and a `while` loop is emitted through `G.while_dec` with the named
# variable as its decreasing measure
TARGETS = [
    ("rational/src/repr.rs", r"\nimpl Repr \{", "reduce", "Repr_reduce", "self", {}, "Q", None),
    ("rational/src/repr.rs", r"\nimpl Repr \{", "reduce_with_hint", "Repr_reduce_with_hint", "self", {"hint": "Int"}, "Q", None),
    ("rational/src/repr.rs", r"\nimpl Repr \{", "reduce2", "Repr_reduce2", "self", {}, "Q", None),
    ("rational/src/round.rs", r"\nimpl Repr \{", "split_at_point", "Repr_split_at_point", "self", {}, "Int × Q", None),
    ("rational/src/round.rs", r"\nimpl Repr \{", "ceil", "Repr_ceil", "self", {}, "Int", None),
    ("rational/src/round.rs", r"\nimpl Repr \{", "floor", "Repr_floor", "self", {}, "Int", None),
    ("rational/src/round.rs", r"\nimpl Repr \{", "trunc", "Repr_trunc", "self", {}, "Int", None),
    ("rational/src/round.rs", r"\nimpl Repr \{", "fract", "Repr_fract", "self", {}, "Q", None),
    ("rational/src/round.rs", r"\nimpl Repr \{", "round", "Repr_round", "self", {}, "Int", None),
    ("rational/src/div.rs", r"\nimpl Inverse for Repr \{", "inv", "Repr_inv", "self", {}, "Q", None),
    ("rational/src/sign.rs", r"\nimpl Repr \{", "neg", "Repr_neg", "self", {}, "Q", None),
    ("rational/src/sign.rs", r"\nimpl Repr \{", "abs", "Repr_abs", "self", {}, "Q", None),
    ("rational/src/sign.rs", r"\nimpl Mul<Sign> for Repr \{", "mul", "Repr_mul_sign", "self", {"rhs": "Int"}, "Q", None),
    ("rational/src/mul.rs", r"\nimpl Repr \{", "sqr", "Repr_sqr", "self", {}, "Q", None),
    ("rational/src/mul.rs", r"\nimpl Repr \{", "cubic", "Repr_cubic", "self", {}, "Q", None),
    ("rational/src/mul.rs", r"\nimpl Repr \{", "pow", "Repr_pow", "self", {"n": "Int"}, "Q", None),
    ("rational/src/rbig.rs", r"\nimpl RBig \{", "from_parts", "RBig_from_parts", None, {"numerator": "Int", "denominator": "Int"}, "Q", "RBig"),
    ("rational/src/rbig.rs", r"\nimpl RBig \{", "from_parts_signed", "RBig_from_parts_signed", None, {"numerator": "Int", "denominator": "Int"}, "Q", "RBig"),
    ("rational/src/rbig.rs", r"\nimpl Relaxed \{", "from_parts", "Relaxed_from_parts", None, {"numerator": "Int", "denominator": "Int"}, "Q", "Relaxed"),
    ("rational/src/rbig.rs", r"\nimpl Relaxed \{", "from_parts_signed", "Relaxed_from_parts_signed", None, {"numerator": "Int", "denominator": "Int"}, "Q", "Relaxed"),
    ("rational/src/rbig.rs", r"\nimpl RBig \{", "from_parts_const", "RBig_from_parts_const", None,
     {"sign": "Int", "numerator": "Int", "denominator": "Int"}, "Q", "RBig", {"prim": True, "measure": "r"}),
    ("rational/src/rbig.rs", r"\nimpl Relaxed \{", "from_parts_const", "Relaxed_from_parts_const", None,
     {"sign": "Int", "numerator": "Int", "denominator": "Int"}, "Q", "Relaxed", {"prim": True}),
]
PRIM_BINOPS = {"/": ("G.div_u", False), "%": ("G.rem_u", False), "<=": ("G.le", False), "&&": ("G.and", False)}
PRIM_METHODS = {"trailing_zeros": (0, "G.tz_prim", False)}
PRIM_FUNCS = {"IBig::from_parts_const": (2, "G.ibig_from_parts", False), "UBig::from_dword": (1, "G.into", False)}
PRIM_CONSTS = {"Self::ZERO": "Q.zero"}


def generate(X):
    ExtractError = X.ExtractError

    def sha(text):
        t = re.sub(r"/\*.*?\*/", "", text, flags=re.S)
        t = re.sub(r"//[^\n]*", "", t)
        return hashlib.sha1(re.sub(r"\s+", " ", t).strip().encode()).hexdigest()[:12]

    class Parser:
        def __init__(self, toks, what):
            self.t, self.i, self.what = toks, 0, what

        def err(self, msg):
            ctx = " ".join(x[1] for x in self.t[max(0, self.i - 6):self.i + 4])
            raise ExtractError("%s: %s (near `%s`)" % (self.what, msg, ctx))

        def peek(self, k=0):
            return self.t[self.i + k] if self.i + k < len(self.t) else ("eof", "<eof>")

        def next(self):
            tok = self.peek()
            self.i += 1
            return tok

        def accept(self, v):
            if self.peek()[1] == v:
                self.i += 1
                return True
            return False

        def expect(self, v):
            if not self.accept(v):
                self.err("expected `%s`, found `%s`" % (v, self.peek()[1]))

        def block(self):
            """`{ stmt* tail? }` -> (stmts, tail | None)"""
            self.expect("{")
            stmts, tail = [], None
            while not self.accept("}"):
                if tail is not None:
                    self.err("expression in the middle of a block")
                v = self.peek()[1]
                if v == "let":
                    self.next()
                    pat = self.pattern()
                    self.expect("=")
                    e = self.expr()
                    self.expect(";")
                    stmts.append(("let", pat, e))
                elif v == "return":
                    self.next()
                    e = self.expr()
                    self.expect(";")
                    stmts.append(("return", e))
                elif v == "if":
                    e = self.if_expr()
                    if e[3] is None:
                        stmts.append(("ifstmt", e[1], e[2]))
                        self.accept(";")
                    elif len(e) == 5 and self.diverges(e[2]) and e[3][1] is None and len(e[3][0]) == 1 \
                            and e[3][0][0][0] == "ifstmt" and self.diverges(e[3][0][0][2]):
                        # `if c1 { diverge } else if c2 { diverge }` = two statements in a row
                        stmts.append(("ifstmt", e[1], e[2]))
                        stmts.append(e[3][0][0])
                        self.accept(";")
                    else:
                        tail = e
                        if self.accept(";"):
                            self.err("an `if … else` statement whose value is dropped")
                elif v == "while":
                    self.next()
                    c = self.expr(no_struct=True)
                    body = self.block()
                    stmts.append(("while", c, body))
                elif v == "match":
                    m = self.match_expr()
                    self.accept(";")
                    stmts.append(("matchstmt", m[1], m[2]))
                else:
                    e = self.expr()
                    op = self.peek()[1]
                    if op == "=" or op in ASSIGN:
                        self.next()
                        rhs = self.expr()
                        if not self.accept(";") and self.peek()[1] != "}":
                            self.err("`;` expected after an assignment")
                        stmts.append(("assign", e, op, rhs))
                    elif self.accept(";"):
                        stmts.append(("expr", e))
                    else:
                        tail = e
            return stmts, tail

        @staticmethod
        def diverges(blk):
            bs, bt = blk
            if not bs and bt == ("call", "panic_divide_by_0", []):
                return True
            if bt is None and len(bs) == 1 and (bs[0][0] == "return" or bs[0] == ("expr", ("call", "panic_divide_by_0", []))):
                return True
            return False

        def pattern(self):
            k, v = self.next()
            if v == "mut":
                k, v = self.next()
            if v == "(":
                items = []
                while not self.accept(")"):
                    items.append(self.pattern())
                    self.accept(",")
                return ("ptuple", items)
            if k == "id" and not v.startswith("$"):
                return ("pvar", v)
            self.err("unsupported pattern `%s`" % v)

        def if_expr(self):
            self.expect("if")
            c = self.expr(no_struct=True)
            th = self.block()
            el = None
            if self.accept("else"):
                if self.peek()[1] == "if":
                    nested = self.if_expr()
                    el = ([("ifstmt", nested[1], nested[2])], None) if nested[3] is None else ([], nested)
                    return ("if", c, th, el, "elseif")
                el = self.block()
            return ("if", c, th, el)

        def match_expr(self):
            self.expect("match")
            scrut = self.expr(no_struct=True)
            self.expect("{")
            arms = []
            while not self.accept("}"):
                path = [self.next()[1]]
                while self.accept("::"):
                    path.append(self.next()[1])
                self.expect("=>")
                e = self.expr()
                op = self.peek()[1]
                if op == "=" or op in ASSIGN:
                    self.next()
                    rhs = self.expr()
                    arms.append(("::".join(path), ("assign", e, op, rhs)))
                else:
                    self.err("a match arm that is not an assignment")
                self.accept(",")
            return ("match", scrut, arms)

        def expr(self, no_struct=False):
            e = self.cmp(no_struct)
            while self.peek()[1] == "&&":
                self.next()
                e = ("bin", "&&", e, self.cmp(no_struct))
            return e

        def cmp(self, no_struct=False):
            lhs = self.shift(no_struct)
            if self.peek()[1] in ("<", ">", ">=", "==", "<="):
                op = self.next()[1]
                rhs = self.shift(no_struct)
                return ("bin", op, lhs, rhs)
            return lhs

        def shift(self, ns):
            e = self.additive(ns)
            while self.peek()[1] in ("<<", ">>"):
                op = self.next()[1]
                e = ("bin", op, e, self.additive(ns))
            return e

        def additive(self, ns):
            e = self.term(ns)
            while self.peek()[1] in ("+", "-"):
                op = self.next()[1]
                e = ("bin", op, e, self.term(ns))
            return e

        def term(self, ns):
            e = self.unary(ns)
            while self.peek()[1] in ("*", "/", "%"):
                op = self.next()[1]
                e = ("bin", op, e, self.unary(ns))
            return e

        def unary(self, ns):
            if self.accept("&"):
                return self.unary(ns)
            if self.accept("-"):
                return ("neg", self.unary(ns))
            return self.postfix(ns)

        def args(self):
            self.expect("(")
            out = []
            while not self.accept(")"):
                out.append(self.expr())
                if not self.accept(","):
                    self.expect(")")
                    break
            return out

        def postfix(self, ns):
            e = self.primary(ns)
            while self.peek()[1] == ".":
                self.next()
                k, name = self.next()
                if k == "num" and name == "0":
                    self.err("tuple-struct field `.0`")
                if k != "id":
                    self.err("method or field name expected")
                if self.peek()[1] == "(":
                    e = ("mcall", e, name, self.args())
                else:
                    e = ("field", e, name)
            return e

        def primary(self, ns):
            k, v = self.peek()
            if v == "(":
                self.next()
                items = [self.expr()]
                is_tuple = False
                while self.accept(","):
                    is_tuple = True
                    if self.peek()[1] == ")":
                        break
                    items.append(self.expr())
                self.expect(")")
                return ("tuple", items) if is_tuple else items[0]
            if v == "if":
                e = self.if_expr()
                if e[3] is None:
                    self.err("`if` without `else` used as a value")
                return e
            if k == "num":
                self.next()
                if not re.fullmatch(r"\d+", v):
                    self.err("literal `%s`" % v)
                return ("lit", v)
            if k == "id":
                self.next()
                path = [v]
                while self.peek()[1] == "::":
                    self.next()
                    kk, vv = self.next()
                    if kk != "id":
                        self.err("path segment expected")
                    path.append(vv)
                name = "::".join(path)
                if self.peek()[1] == "(":
                    return ("call", name, self.args())
                if self.peek()[1] == "{" and not ns:
                    self.next()
                    fields = []
                    while not self.accept("}"):
                        fk, fname = self.next()
                        if fk != "id":
                            self.err("field name expected")
                        if self.accept(":"):
                            fields.append((fname, self.expr()))
                        else:
                            fields.append((fname, ("var", fname)))      # field init shorthand
                        if not self.accept(","):
                            self.expect("}")
                            break
                    return ("struct", name, fields)
                if len(path) != 1:
                    return ("const", name)
                return ("var", v)
            self.err("unsupported token `%s`" % v)

    class Emitter:
        def __init__(self, what, recv, selfctor, unwrap_loc, opts=None):
            self.what, self.n, self.recv, self.selfctor, self.unwrap_loc = what, 0, recv, selfctor, unwrap_loc
            self.opts = opts or {}
            self.binops = dict(BINOPS)
            self.methods = dict(METHODS)
            self.funcs = dict(FUNCS)
            self.consts = dict(CONSTS)
            if self.opts.get("prim"):
                self.binops.update(PRIM_BINOPS)
                self.methods.update(PRIM_METHODS)
                self.funcs.update(PRIM_FUNCS)
                self.consts.update(PRIM_CONSTS)

        def err(self, msg):
            raise ExtractError("%s: %s" % (self.what, msg))

        def fresh(self):
            self.n += 1
            return "t_%d" % self.n

        def atom(self, e, lines, ind):
            term, mon = self.expr(e, lines, ind)
            if mon:
                t = self.fresh()
                lines.append("%slet %s ← %s" % (ind, t, term))
                return t
            return term

        def place(self, e):
            """an assignable place -> the Lean variable that stands for it"""
            if e[0] == "var" and e[1] != "self":
                return e[1]
            if e[0] == "field" and e[1] == ("var", "self") and self.recv and e[2] in ("numerator", "denominator"):
                return "num" if e[2] == "numerator" else "den"
            self.err("assignment to something that is neither a local variable nor `self.numerator` / `self.denominator`")

        def expr(self, e, lines, ind):
            k = e[0]
            if k == "var":
                if e[1] == "self":
                    if not self.recv:
                        self.err("`self` in an associated function")
                    return "(G.repr num den)", False
                return e[1], False
            if k == "lit":
                return "(%s : Int)" % e[1], False
            if k == "const":
                if e[1] not in self.consts:
                    self.err("constant `%s` is outside the vocabulary" % e[1])
                return self.consts[e[1]], False
            if k == "field":
                if e[1] == ("var", "self") and self.recv and e[2] in ("numerator", "denominator"):
                    return ("num" if e[2] == "numerator" else "den"), False
                self.err("field access `.%s` on something other than `self`" % e[2])
            if k == "neg":
                return "(G.neg %s)" % self.atom(e[1], lines, ind), False
            if k == "bin":
                a = self.atom(e[2], lines, ind)
                b = self.atom(e[3], lines, ind)
                if e[1] not in self.binops:
                    self.err("operator `%s` is outside the vocabulary" % e[1])
                fn, mon = self.binops[e[1]]
                return "(%s %s %s)" % (fn, a, b), mon
            if k == "tuple":
                return "(%s)" % ", ".join(self.atom(x, lines, ind) for x in e[1]), False
            if k == "struct":
                if not (e[1] == "Repr" or (e[1] == "Self" and self.recv)) or [f for f, _ in e[2]] != ["numerator", "denominator"]:
                    self.err("struct literal `%s { %s }` is not `Repr { numerator, denominator }`" % (e[1], ", ".join(f for f, _ in e[2])))
                n = self.atom(e[2][0][1], lines, ind)
                d = self.atom(e[2][1][1], lines, ind)
                return "(G.repr %s %s)" % (n, d), False
            if k == "call":
                name = e[1]
                if name == "Self" and self.selfctor:
                    if len(e[2]) != 1:
                        self.err("`Self(…)` with %d arguments" % len(e[2]))
                    return self.expr(e[2][0], lines, ind)
                if name == "Self::from_parts" and self.selfctor:
                    fn = "G.rbig_from_parts" if self.selfctor == "RBig" else "G.relaxed_from_parts"
                    if len(e[2]) != 2:
                        self.err("`Self::from_parts` with %d arguments" % len(e[2]))
                    return "(%s %s)" % (fn, " ".join(self.atom(x, lines, ind) for x in e[2])), True
                if name not in self.funcs:
                    self.err("call of `%s` is outside the vocabulary" % name)
                ar, fn, mon = self.funcs[name]
                if len(e[2]) != ar:
                    self.err("`%s` called with %d arguments" % (name, len(e[2])))
                if ar == 0:
                    return fn, mon
                return "(%s %s)" % (fn, " ".join(self.atom(x, lines, ind) for x in e[2])), mon
            if k == "mcall":
                recv, name, args = e[1], e[2], e[3]
                if name == "unwrap":
                    if args or self.unwrap_loc is None:
                        self.err("`.unwrap()` whose source line is not unique in this function")
                    r = self.atom(recv, lines, ind)
                    return "(G.unwrap \"%s\" %s)" % (self.unwrap_loc, r), True
                if name not in self.methods:
                    self.err("method `.%s()` is outside the vocabulary" % name)
                ar, fn, mon = self.methods[name]
                if len(args) != ar:
                    self.err("`.%s` called with %d arguments" % (name, len(args)))
                r = self.atom(recv, lines, ind)
                aa = [self.atom(x, lines, ind) for x in args]
                return "(%s %s)" % (fn, " ".join([r] + aa)), mon
            if k == "if":
                c = self.atom(e[1], lines, ind)
                th = self.block(e[2], ind + "    ")
                el = self.block(e[3], ind + "    ")
                return "(if %s then (do\n%s)\n%s  else (do\n%s))" % (c, th, ind, el), True
            self.err("unsupported expression %r" % (k,))

        def pat(self, p):
            if p[0] == "pvar":
                return p[1]
            return "(%s)" % ", ".join(self.pat(x) for x in p[1])

        def assign_value(self, st, lines, ind):
            """`x = e` / `x op= e` -> (Lean variable, Lean term of the new value) ; only pure right-hand sides"""
            _, lhs, op, rhs = st
            var = self.place(lhs)
            r, mon = self.expr(rhs, lines, ind)
            if mon:
                self.err("an assignment whose right-hand side can panic")
            if op == "=":
                return var, r
            fn, mon2 = self.binops[ASSIGN[op]]
            if mon2:
                self.err("a compound assignment whose operator can panic")
            return var, "(%s %s %s)" % (fn, var, r)

        def effect(self, blk, lines, ind):
            """a block that only re-assigns ONE variable -> (variable, new value)"""
            stmts, tail = blk
            if tail is not None or len(stmts) != 1:
                self.err("an `if` without `else` whose body is not a single assignment / match / return / panic")
            st = stmts[0]
            if st[0] == "assign":
                return self.assign_value(st, lines, ind)
            if st[0] == "matchstmt":
                return self.match_effect(st, lines, ind)
            self.err("an `if` without `else` whose body is not a single assignment / match / return / panic")

        def assigned(self, blk, declared=None):
            """variables a statement block assigns that it does not declare itself (in order of first assignment)"""
            declared = set(declared or ())
            out = []

            def pvars(p):
                return [p[1]] if p[0] == "pvar" else [v for x in p[1] for v in pvars(x)]
            stmts, tail = blk
            for st in stmts:
                if st[0] == "let":
                    declared |= set(pvars(st[1]))
                elif st[0] == "assign":
                    v = self.place(st[1])
                    if v not in declared and v not in out:
                        out.append(v)
                elif st[0] in ("ifstmt", "while"):
                    for v in self.assigned(st[2], declared):
                        if v not in declared and v not in out:
                            out.append(v)
                elif st[0] == "matchstmt":
                    for _, a in st[2]:
                        v = self.place(a[1])
                        if v not in declared and v not in out:
                            out.append(v)
            return out

        def tup(self, vs):
            return vs[0] if len(vs) == 1 else "(%s)" % ", ".join(vs)

        def pure_block(self, blk, outvars, ind):
            """a block without value, without panicking callee: Lean term `let …; (outvars)`"""
            stmts, tail = blk
            if tail is not None:
                self.err("a value at the end of a block that is executed for its assignments")
            lines = []
            for st in stmts:
                if st[0] == "let":
                    tmp = []
                    term, mon = self.expr(st[2], tmp, ind)
                    if mon or tmp:
                        self.err("a panicking callee inside a block that is executed for its assignments")
                    lines.append("%slet %s := %s" % (ind, self.pat(st[1]), term))
                elif st[0] == "assign":
                    tmp = []
                    var, val = self.assign_value(st, tmp, ind)
                    if tmp:
                        self.err("a panicking callee inside a block that is executed for its assignments")
                    lines.append("%slet %s := %s" % (ind, var, val))
                elif st[0] == "while":
                    lines.append(self.while_stmt(st, ind))
                elif st[0] == "ifstmt":
                    lines.append(self.if_effect(st, ind))
                else:
                    self.err("statement `%s` inside a block that is executed for its assignments" % st[0])
            lines.append("%s%s" % (ind, self.tup(outvars)))
            return "\n".join(lines)

        def if_effect(self, st, ind):
            vs = self.assigned(st[2])
            if not vs:
                self.err("an `if` without `else` that assigns nothing")
            tmp = []
            c = self.atom(st[1], tmp, ind)
            if tmp:
                self.err("a panicking callee in the condition of an `if` that is executed for its assignments")
            body = self.pure_block(st[2], vs, ind + "    ")
            return "%slet %s := (if %s then (\n%s)\n%s  else %s)" % (ind, self.tup(vs), c, body, ind, self.tup(vs))

        def while_stmt(self, st, ind):
            measure = self.opts.get("measure")
            vs = self.assigned(st[2])
            if not measure or measure not in vs:
                self.err("a `while` loop without a configured decreasing variable among the variables it assigns")
            tmp = []
            c = self.atom(st[1], tmp, ind + "    ")
            if tmp:
                self.err("a panicking callee in a loop condition")
            body = self.pure_block(st[2], vs, ind + "      ")
            t = self.tup(vs)
            return ("%slet %s := G.while_dec (fun %s => (%s).toNat)\n%s    (fun %s => %s)\n%s    (fun %s => (\n%s))\n%s    %s" %
                    (ind, t, t, measure, ind, t, c, ind, t, body, ind, t))

        def match_effect(self, st, lines, ind):
            scrut, arms = st[1], st[2]
            if not (scrut[0] == "mcall" and scrut[2] == "sign" and not scrut[3]):
                self.err("`match` on something other than `<expr>.sign()`")
            if [a for a, _ in arms] != ["Sign::Positive", "Sign::Negative"]:
                self.err("`match` arms are not `Sign::Positive`, `Sign::Negative` in this order")
            s = self.atom(scrut, lines, ind)
            v1, t1 = self.assign_value(arms[0][1], lines, ind)
            v2, t2 = self.assign_value(arms[1][1], lines, ind)
            if v1 != v2:
                self.err("`match` arms assign different variables")
            return v1, "(if (G.eq %s (1 : Int)) then %s else %s)" % (s, t1, t2)

        def block(self, blk, ind):
            stmts, tail = blk
            lines = []
            for idx, st in enumerate(stmts):
                if st[0] == "let":
                    p, e = st[1], st[2]
                    term, mon = self.expr(e, lines, ind)
                    lines.append("%slet %s %s %s" % (ind, self.pat(p), "←" if mon else ":=", term))
                elif st[0] == "ifstmt":
                    c = self.atom(st[1], lines, ind)
                    bs, bt = st[2]
                    if (not bs and bt == ("call", "panic_divide_by_0", [])) or \
                            (bt is None and bs == [("expr", ("call", "panic_divide_by_0", []))]):
                        lines.append("%sif %s then throw PanicKind.divideByZero" % (ind, c))
                    elif len(bs) == 1 and bt is None and bs[0][0] == "return":
                        # early return: the rest of the block is the else branch
                        rl = []
                        rv, mon = self.expr(bs[0][1], rl, ind + "    ")
                        rest = self.block((stmts[idx + 1:], tail), ind + "    ")
                        lines.append("%s(if %s then (do\n%s%s    %s)\n%s  else (do\n%s))" % (
                            ind, c, "".join(x + "\n" for x in rl), ind, rv if mon else "pure %s" % rv, ind, rest))
                        return "\n".join(lines)
                    elif len(bs) == 1 and bt is None and bs[0][0] in ("assign", "matchstmt"):
                        var, val = self.effect(st[2], lines, ind)
                        lines.append("%slet %s := (if %s then %s else %s)" % (ind, var, c, val, var))
                    else:
                        lines.append(self.if_effect(st, ind))
                elif st[0] == "assign":
                    var, val = self.assign_value(st, lines, ind)
                    lines.append("%slet %s := %s" % (ind, var, val))
                elif st[0] == "matchstmt":
                    var, val = self.match_effect(st, lines, ind)
                    lines.append("%slet %s := %s" % (ind, var, val))
                else:
                    self.err("statement `%s`" % st[0])
            if tail is None:
                self.err("block without a value")
            term, mon = self.expr(tail, lines, ind)
            lines.append("%s%s" % (ind, term if mon else "pure %s" % term))
            return "\n".join(lines)

    out = ["import Dashu.Model.Ratio.GenPrelude",
           "/-! GENERATED by vlib/extract.py (vlib/extract_ratfns.py) from /repo — do not edit.",
           "    `Repr`-level function bodies of rational/src/{repr,round,div,sign,mul,rbig}.rs. -/",
           "namespace Dashu.Gen.RatFns", "open Dashu.Model Dashu.Model.Ratio", "set_option linter.unusedVariables false", ""]
    info = {}
    for tgt in TARGETS:
        rel, after, fn, lean, recv, params, ret, selfctor = tgt[:8]
        opts = tgt[8] if len(tgt) > 8 else None
        src = X.read(rel)
        it = X.fn_item(src, fn, after, rel)
        what = "%s:%d fn `%s`" % (rel, it["lines"][0], fn)
        names = [n for n, _ in it["params"]]
        want = (["self"] if recv else []) + list(params)
        if names != want:
            raise ExtractError("%s: parameters %s, expected %s" % (what, names, want))
        body = it["body"]
        # location of a unique `.unwrap()` (panic site string of the harness: file:line)
        unwrap_loc = None
        locs = [m.start() for m in re.finditer(r"\.unwrap\(\)", body)]
        if len(locs) == 1:
            pos = src.index(body) + locs[0]
            unwrap_loc = rel          # the file; the line is deliberately not part of the regenerated value
        ps = Parser(X.tokenize(body), what)
        blk = ps.block()
        if ps.peek()[0] != "eof":
            ps.err("trailing tokens after the body")
        em = Emitter(what, recv, selfctor, unwrap_loc, opts)
        text = em.block(blk, "    ")
        sig = []
        if recv:
            sig.append("(num den : Int)")
        for n, ty in params.items():
            sig.append("(%s : %s)" % (n, ty))
        h = sha(it["text"])
        out.append("/-- `%s` — %s:%d-%d, sha1 %s -/" % (lean.replace("_", "::", 1), rel, it["lines"][0], it["lines"][1], h))
        out.append("def %s %s : Except PanicKind (%s) := do\n%s\n" % (lean, " ".join(sig), ret, text))
        info["RatFns." + lean] = h
    out.append("end Dashu.Gen.RatFns")
    return "\n".join(out) + "\n", info
