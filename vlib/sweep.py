#!/usr/bin/env python3
"""python3 vlib/sweep.py C01 [C02 …] [--seeds 1,2,3] [--tier quick] — run checks with several seeds on the
unchanged tree; any non-zero exit is a defect of the check (or an unrecorded genuine finding)."""
import os, subprocess, sys, time
props = [a for a in sys.argv[1:] if not a.startswith("--") and a[0] == "C"]
seeds = [1, 2, 3]
tier = "quick"
if "--seeds" in sys.argv:
    seeds = [int(x) for x in sys.argv[sys.argv.index("--seeds") + 1].split(",")]
if "--tier" in sys.argv:
    tier = sys.argv[sys.argv.index("--tier") + 1]
bad = 0
for p in props:
    for s in seeds:
        t0 = time.time()
        r = subprocess.run(["/verif/check", p, "--tier", tier, "--seed", str(s)], cwd="/verif", stdout=subprocess.PIPE,
                           stderr=subprocess.STDOUT, text=True)
        last = r.stdout.strip().splitlines()[-1] if r.stdout.strip() else ""
        vio = [l[:200] for l in r.stdout.splitlines() if l.startswith("VIOLATION") or l.startswith("INTERNAL")]
        print("%s seed=%d exit=%d %.0fs | %s" % (p, s, r.returncode, time.time() - t0, last[:160]))
        for v in vio:
            print("    " + v)
        bad += r.returncode != 0
sys.exit(1 if bad else 0)
