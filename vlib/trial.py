#!/usr/bin/env python3
"""Run checks against a seeded change WITHOUT touching /repo or the live /verif build products:
   python3 vlib/trial.py <patch.diff> C01 [C02 …] [--tier quick]
Creates a scratch worktree of /repo with the patch applied and a scratch copy of /verif (so that
regenerated Lean/Rust sources and build outputs of the trial do not disturb concurrent work), runs
`./check` there with VERIF_REPO pointing at the worktree, prints each check's verdict, removes
everything.  (The sanctioned final confirmation — apply to /repo itself, run, undo — is done with
`--in-place`.)"""
import os, subprocess, sys, tempfile, shutil, time

def sh(cmd, **kw):
    return subprocess.run(cmd, stdout=subprocess.PIPE, stderr=subprocess.STDOUT, text=True, **kw)

def main():
    args = [a for a in sys.argv[1:] if not a.startswith("--")]
    tier = "quick"
    if "--tier" in sys.argv:
        tier = sys.argv[sys.argv.index("--tier") + 1]
        args = [a for a in args if a != tier]
    patch, props = os.path.abspath(args[0]), args[1:]
    inplace = "--in-place" in sys.argv
    results = {}
    if inplace:
        r = sh(["git", "-C", "/repo", "apply", patch])
        if r.returncode != 0:
            print("patch does not apply:", r.stdout); sys.exit(2)
        try:
            for p in props:
                t0 = time.time()
                r = sh(["/verif/check", p, "--tier", tier], cwd="/verif")
                results[p] = (r.returncode, [l for l in r.stdout.splitlines() if l.startswith("VIOLATION")][:4] + [l for l in r.stdout.splitlines() if l.startswith("KNOWN-FINDING")][:3], time.time() - t0, r.stdout)
        finally:
            sh(["git", "-C", "/repo", "checkout", "--", "."])
    else:
        t = tempfile.mkdtemp(prefix="trial-", dir="/tmp")
        try:
            r = sh(["git", "-C", "/repo", "worktree", "add", "-q", "--detach", t + "/repo", "HEAD"])
            if r.returncode != 0:
                print(r.stdout); sys.exit(2)
            r = sh(["git", "-C", t + "/repo", "apply", patch])
            if r.returncode != 0:
                print("patch does not apply:", r.stdout); sys.exit(2)
            sh(["rsync", "-a", "--exclude", ".git", "--exclude", "replays", "--exclude", "seeded", "--exclude", ".cache/harness-target", "--exclude", ".cache/*-alt-*", "--exclude", "mutants", "/verif/", t + "/verif/"])
            env = dict(os.environ, VERIF_REPO=t + "/repo")
            for p in props:
                t0 = time.time()
                r = sh([t + "/verif/check", p, "--tier", tier], cwd=t + "/verif", env=env)
                vio = [l for l in r.stdout.splitlines() if l.startswith("VIOLATION")][:4] + \
                      [l for l in r.stdout.splitlines() if l.startswith("KNOWN-FINDING")][:3]
                # keep the replay text (the scratch dir is removed)
                rep = ""
                for l in vio:
                    if "replay=" in l:
                        path = l.split("replay=")[1].split()[0]
                        if os.path.exists(path):
                            rep += open(path).read()[:1500]
                results[p] = (r.returncode, vio, time.time() - t0, r.stdout, rep)
        finally:
            sh(["git", "-C", "/repo", "worktree", "remove", "--force", t + "/repo"])
            shutil.rmtree(t, ignore_errors=True)
    for p, res in results.items():
        print("=== %s: exit %d in %.0fs" % (p, res[0], res[2]))
        for l in res[1]:
            print("   ", l[:300])
        if len(res) > 4 and res[4]:
            print("    replay (head):\n      " + "\n      ".join(res[4].splitlines()[:8]))
        if res[0] not in (0, 1):
            print("    --- output tail ---\n" + "\n".join(res[3].splitlines()[-25:]))

if __name__ == "__main__":
    main()
