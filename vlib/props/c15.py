"""C15 — all forms of an operator give the same answer (DESIGN §8 C15)."""
import json, os
from vlib.core import Case, ROOT
from vlib.gens import *

GROUP = "forms"
LEAN_PROPS = "Dashu.Props.C15"
LEAN_AUDIT = "Dashu.Audit.C15"
USES_GEN = True
GEN_PROPS = ["Dashu.Props.GenInt"]
GEN_AUDIT = ["Dashu.Audit.GenInt"]
REFINED = ["IBig operator bodies (impl_ibig_* sign tables, regenerated from source) = Int operation",
           "primitive-form wrapper try_into().unwrap(): fits / does-not-fit theorems per operation"]
FRONTIER = ["float and rational operator forms are exercised by the float/ratio groups (every op there runs its "
            "owned/borrowed/assign/Context forms too), not by the generated table",
            "that each Rust impl body is what the macro text says is checked by executing all 1720 generated calls, not proved"]
RULE = ("The table of call forms is GENERATED on every run from the macro-expanded dashu-int (`cargo +nightly rustc -- "
        "-Zunpretty=expanded`): every `impl Trait<Rhs> for Lhs` over UBig/IBig/primitive ints and references, for Add Sub Mul "
        "Div Rem BitAnd BitOr BitXor Shl Shr and their *Assign, DivRem(Assign), Div/Rem/DivRemEuclid, Gcd, ExtendedGcd, grouped "
        "by operation (family, lhs kind, rhs kind). One case = one operation x one operand pair; ALL impls of the group whose "
        "operand types can hold the values are called and must agree with each other and with the model. Operand pairs: sizes "
        "{0,1,2,3,4 words} x primitive boundaries (0, +-1, 2^7, 2^8-1, 2^15, ... 2^127, 2^128-1) x patterns x signs; shift "
        "amounts {0,1,63,64,65,127,128,200}. Non-trivial := at least two impls were evaluated and an operand is non-zero; "
        "distinct := distinct (op,args) lines.")
EXPLANATION = ("Proved: the regenerated IBig operator bodies equal the Int operation (so ownership/assign forms, which share one "
               "body, agree); for primitive forms the result fits the output type for UBig % uN, IBig % iN, uN / UBig, and "
               "provably does not for IBig % uN (negative dividend) and iN::MIN / IBig(-1) (counterexample theorems = findings). "
               "Explored by correspondence: every one of the generated impl calls on every case; clone/clone_from independence.")
ASSUMPTIONS = ["the macro-expanded source printed by rustc is the code that is compiled (nightly -Zunpretty=expanded)"]
LEVEL_TEXT = ("Lean theorems about the regenerated operator bodies and the primitive-form wrapper decide which forms must agree "
              "for all inputs; the correspondence executes EVERY operator impl the compiler sees (table generated from the "
              "macro-expanded crate on each run) against the model on structured operands and requires identical values or "
              "identical panic kinds.")
LEVEL_NOTE = ("Trusted: Lean kernel; rustc's macro expansion listing; regex extraction of impl headers (vlib/forms.py); the "
              "harness. Float/rational forms are covered inside their own groups. Form agreement of bodies that are not "
              "regenerated (shifts, gcd) rests on the correspondence only.")
TECHNIQUE = "Lean 4 theorems on regenerated glue + generated exhaustive call-form table executed against the model"
JOBS = 12

PRIM_EDGES = [0, 1, 2, 3, 7, 127, 128, 129, 255, 256, 32767, 32768, 65535, 65536, 2**31 - 1, 2**31, 2**32 - 1, 2**32,
              2**63 - 1, 2**63, 2**64 - 1, 2**64, 2**127 - 1, 2**127, 2**128 - 1, 2**128]


def pre_build():
    """regenerate the forms table from the macro-expanded crate before the harness is built"""
    from vlib import forms
    return forms.regenerate()


def groups():
    p = os.path.join(ROOT, "harness", "src", "gen", "forms_int.json")
    info = json.load(open(p))
    return [tuple(k.split(":")) for k in info["group_sizes"]]


def val(rng, kind, small_bias=0.6):
    r = rng.random()
    if r < small_bias:
        v = rng.choice(PRIM_EDGES) + rng.choice([0, 0, 0, 1, -1])
        v = max(v, 0)
    else:
        v = nat_pattern(rng, rng.choice([1, 2, 2, 3, 3, 4, 5]), rng.choice(PATTERNS))
    if kind == "I" and rng.random() < 0.5:
        v = -v
    return v


def nontrivial(c):
    return any(a not in ("0",) for a in c.args[3:]) if c.op == "form" else True


def generate(rng, tier):
    gs = groups()
    per = 14 if tier == "quick" else 400
    for fam, lk, rk in gs:
        for _ in range(per):
            a = val(rng, lk)
            if rk == "S":
                b = rng.choice([0, 1, 2, 7, 63, 64, 65, 127, 128, 129, 191, 192, 200, 1000])
            else:
                b = val(rng, rk)
            r = rng.random()
            if fam in ("div", "rem", "divrem", "diveuclid", "remeuclid", "divremeuclid"):
                if r < 0.04:
                    b = 0
                elif r < 0.2 and b != 0:
                    a = b * rng.choice([1, -1, 2, 255, 2**64]) + rng.choice([0, 1, -1])   # exact / near multiples
                    if lk == "U":
                        a = abs(a)
                elif r < 0.3:
                    a, b = (-128, -1) if lk == "I" and rk == "I" else (a, b)
            if fam in ("gcd", "gcdext") and r < 0.1:
                a, b = 0, (0 if r < 0.03 else b)
            if fam == "sub" and lk == "U" and rk == "U" and r < 0.7 and a < b:
                a, b = b, a
            yield Case("form", [fam, lk, rk, hx(a), hx(b)])
        # carry / borrow chains between heap operands of DIFFERENT lengths (each ownership form has its
        # own buffer-reuse path: in-place on the left buffer, on the right buffer, allocate-new)
        if rk != "S":
            for _ in range(6 if tier == "quick" else 120):
                la, lb = rng.choice([(3, 4), (4, 3), (3, 5), (5, 3), (4, 7), (7, 4), (3, 3), (6, 9), (9, 6)])
                lo = min(la, lb)
                a = nat_pattern(rng, la, rng.choice(["random", "ones", "highbit", "topone"]))
                b = nat_pattern(rng, lb, rng.choice(["random", "ones", "highbit", "topone"]))
                if rng.random() < 0.7:
                    # force a carry out of the low `lo` words: low parts sum to >= B^lo
                    mask = (1 << (64 * lo)) - 1
                    a |= mask
                    b |= rng.getrandbits(64 * lo) | 1
                if rng.random() < 0.3:
                    a |= (1 << (64 * max(la, lb))) - 1 if la >= lb else a     # carry ripples through the longer one
                if lk == "I" and rng.random() < 0.5:
                    a = -a
                if rk == "I" and rng.random() < 0.5:
                    b = -b
                if fam == "sub" and lk == "U" and rk == "U" and a < b:
                    a, b = b, a
                yield Case("form", [fam, lk, rk, hx(a), hx(b)])
    # clone_from with buffer REUSE: destination and source both on the heap with compatible sizes, every sign
    # combination (the sign lives in the capacity field and must be re-derived when the buffer is reused)
    for n in ([3, 4, 5, 8, 20] if tier == "quick" else [3, 4, 5, 6, 7, 8, 12, 20, 33, 100]):
        for dn in (0, 1, -1, 2):
            if n + dn < 3:
                continue
            for sa in (1, -1):
                for sb in (1, -1):
                    a = nat_pattern(rng, n, rng.choice(["random", "ones", "highbit"]))
                    b = nat_pattern(rng, n + dn, rng.choice(["random", "ones", "highbit"]))
                    yield Case("clone.i", [hx(sa * a), hx(sb * b)])
            a = nat_pattern(rng, n, "random"); b = nat_pattern(rng, n + dn, "random")
            yield Case("clone.u", [hx(a), hx(b)])
    m = 60 if tier == "quick" else 1500
    for _ in range(m):
        a = nat_pattern(rng, rng.choice([0, 1, 2, 3, 4, 9, 40]), rng.choice(PATTERNS))
        b = nat_pattern(rng, rng.choice([0, 1, 2, 3, 4, 9, 40]), rng.choice(PATTERNS))
        if rng.random() < 0.5:
            yield Case("clone.u", [hx(a), hx(b)])
        else:
            yield Case("clone.i", [hx(signed(rng, a)), hx(signed(rng, b))])
READY = True
