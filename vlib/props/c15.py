"""C15 — all forms of an operator give the same answer (DESIGN §8 C15)."""
import json, os, re
from vlib.core import Case, ROOT
from vlib.gens import *

GROUP = "forms"
LEAN_PROPS = "Dashu.Props.C15"
LEAN_AUDIT = "Dashu.Audit.C15"
USES_GEN = True
GEN_PROPS = ["Dashu.Props.GenInt"]
GEN_AUDIT = ["Dashu.Audit.GenInt"]
# Tie A, typed translator: the by-reference operator forms `FBig ± &FBig`, `&FBig ± &FBig` regenerated from float/src/add.rs
GEN_PROPS += ["Dashu.Props.GenFloatForms"]
GEN_AUDIT += ["Dashu.Audit.GenFloatForms"]
# Tie A, ownership-form bodies: every `fn` body stamped out by the helper macros of dashu-ratio / dashu-float / dashu-int
# (and the hand-written operator impls of float/src/{add,mul,div,shift,iter}.rs, rational/src/{div,iter}.rs,
# integer/src/iter.rs) regenerated into Gen/FormsGlue.lean; Props/C15Forms.lean: all forms of a rule = one core call
GEN_PROPS += ["Dashu.Props.C15Forms"]
GEN_AUDIT += ["Dashu.Audit.C15Forms"]
# the two CONSUMING variants of float addition (add_val_val, add_ref_val of Gen/FloatAdd.lean) = the model; four variants agree
GEN_PROPS += ["Dashu.Props.C15FloatAdd"]
GEN_AUDIT += ["Dashu.Audit.C15FloatAdd"]
REFINED = ["IBig operator bodies (impl_ibig_* sign tables, regenerated from source) = Int operation",
           "primitive-form wrapper try_into().unwrap(): fits / does-not-fit theorems per operation",
           "trait-method forms: div_rem = (/, %), div_rem_euclid = (div_euclid, rem_euclid), UBig.div_rem(IBig) = IBig forms",
           "dashu-ratio operator impl bodies (rational/src/helper_macros.rs: impl_binop_with_macro both rules, impl_binop_with_int "
           "both directions, impl_binop_assign_by_taking; Inverse): regenerated per impl, all forms of a rule = the same core "
           "call on the same numerator/denominator parts (into_parts = (numerator, denominator) proved for the regenerated accessors)",
           "dashu-float operator impl bodies (float/src/helper_macros.rs: the 8 primitive-operand forms, the assign forms; the four "
           "hand-written Mul impls; impl_div_or_rem_for_fbig; DivEuclid/RemEuclid/DivRemEuclid delegation; Inverse; Shl vs ShlAssign, "
           "Shr vs ShrAssign; the 8 Add/Sub wrappers): regenerated per impl, forms proved to be the same term",
           "the four hand-written variants of float addition (add_val_val, add_val_ref, add_ref_val, add_ref_ref, regenerated): each "
           "= the float model's opAddSub at Context::max, hence all four agree on value, precision and panic for all operands "
           "(hypothesis: Repr::digits_ub does not depend on the sign of the significand)",
           "dashu-int helper_macros.rs ownership forms (forward_*_binop_to_repr, primitive forms, assign forms) regenerated per impl: "
           "every form passes the same (sign, magnitude) operands to the regenerated sign table",
           "DivRemAssign (both helper-macro rules used only for it): quotient left in self, remainder returned = div_rem; primitive forms",
           "Sum / Product of UBig, IBig, FBig: one regenerated shape iter.fold(INIT, OP) = left fold of the operator form; driven (op fold) "
           "against the explicit folds with every operator form (rational/src/iter.rs has the same text but is not compiled into "
           "dashu-ratio: no `mod iter;` in rational/src/lib.rs — RBig/Relaxed offer no Sum/Product)"]
FRONTIER = ["dashu-ratio and dashu-float operator impls: the driver still answers `agree` for `rform`/`fform` (their common VALUE "
            "is decided in the ratio group C04 and the float group C03); the form theorems are over an abstract value domain in "
            "which the cores ($impl! macros of rational/src/{add,mul,div}.rs, repr_div/repr_rem, repr_round, add_val_val … of "
            "dashu-float) are uninterpreted, and they rest on two readings: `&x`, `x.clone()`, `mem::take(x)` denote x's value, "
            "and a callee applied to an owned or a borrowed operand denotes the same function (for the integer operators inside "
            "the cores that is the dashu-int part of this property)",
            "dashu-int: the kernels specialised by ownership (TypedRepr vs TypedReprRef impls of add/sub/mul/div/bit ops: in place on "
            "the left buffer, on the right buffer, allocate-new) are below the regenerated forms (hypotheses hrepr/hsign of the form "
            "theorems); they are compared by execution against the model on every case",
            "RemEuclid / DivRemEuclid by-value bodies of FBig and Inverse for Repr are regenerated resp. listed "
            "(forms_glue_untranslated) but only the delegation of the reference forms to them is a theorem",
            "Context::add/sub/mul/div/rem are inherent methods, not trait impls: they are added to the FBig x FBig groups by "
            "name (at Context::max of the operand precisions); other Context methods (sqr, cubic, powi, exp, ln, ...) have no "
            "operator form and are compared with their FBig methods in the float group",
            "impls whose Rhs is not a number (Mul<Sign>, Add<Rounding> for IBig) are skipped by the table",
            "that each Rust impl body is what the macro text says is checked by executing all generated calls, not proved"]
RULE = ("The tables of call forms are GENERATED on every run from the macro-expanded dashu-int, dashu-ratio and dashu-float "
        "(`cargo +nightly rustc -- -Zunpretty=expanded`): every `impl Trait<Rhs> for Lhs` over UBig/IBig/RBig/Relaxed/"
        "FBig<R,B>/primitive ints/floats and references, for Add Sub Mul "
        "Div Rem BitAnd BitOr BitXor Shl Shr and their *Assign, DivRem(Assign), Div/Rem/DivRemEuclid, Gcd, ExtendedGcd, grouped "
        "by operation (family, lhs kind, rhs kind). One case = one operation x one operand pair; ALL impls of the group whose "
        "operand types can hold the values are called and must agree with each other and (integers) with the model. "
        "Integer operand pairs: sizes "
        "{0,1,2,3,4 words} x primitive boundaries (0, +-1, 2^7, 2^8-1, 2^15, ... 2^127, 2^128-1) x patterns x signs; shift "
        "amounts {0,1,63,64,65,127,128,200}; carry/borrow chains between heap operands of different lengths; BOTH sides of "
        "every documented panic for every size-class pair (inline/inline, inline/heap, heap/inline, heap/heap same and "
        "different length): UBig - UBig with lhs<rhs differing in the top word / lowest word only / all middle words equal, "
        "and lhs>rhs with borrow chains through all words (3, 4, 25, 200 words); divisor 0/1/2/B/B^2 x dividend 0..25 words "
        "x signs for every div-like family; gcd(0,0), (0,x), (x,0), (x,x), (x,1). Rational operands (op rform): numerators "
        "and denominators at word boundaries, integer-valued operands (these enable the UBig/IBig/primitive forms), equal "
        "operands, zero divisors; RBig and Relaxed are compared by canonical value. Float operands (op fform, instantiated "
        "at FBig<Zero,2> and FBig<HalfAway,10>): significands at word boundaries x exponents {0,+-1,...,+-100,1000} x "
        "precisions {0(unlimited),1,2,...,200}; mixed forms take an integer at the primitive boundaries and include the "
        "reference form on FBig::from(int); FBig x FBig groups also call Context::max(a.context(), b.context()).op(a.repr(), "
        "b.repr()) and include an unlimited-precision long operand against a short limited one; results compared as "
        "(significand, exponent, precision). Shifts: every amount at a word boundary x every operand size class x every form. "
        "Non-trivial := at least two impls were evaluated and an operand is non-zero; "
        "distinct := distinct (op,args) lines.")
EXPLANATION = ("Proved: the regenerated IBig operator bodies equal the Int operation (so ownership/assign forms, which share one "
               "body, agree); for primitive forms the result fits the output type for UBig % uN, IBig % iN, uN / UBig, and "
               "provably does not for IBig % uN (negative dividend), uN / negative IBig and iN::MIN / IBig(-1) (counterexample theorems = "
               "findings; iN / IBig fits for every other pair); the trait-method forms div_rem / div_rem_euclid / UBig.div_rem(IBig) "
               "equal the pair of operator forms; for dashu-ratio, dashu-float and the dashu-int helper macros every operator impl body "
               "is regenerated (one definition per call form) and all forms of one macro rule / one hand-written family are proved to "
               "evaluate the same core call on the same operand values for every interpretation of the callees (incl. DivRemAssign, "
               "x <<= n vs x << n, Sum/Product = fold of the operator). "
               "Explored by correspondence: every one of the generated impl calls (1720 integer, 212 rational, 606 float x 2 "
               "instantiations) on every case; clone/clone_from independence.")
ASSUMPTIONS = ["the macro-expanded source printed by rustc is the code that is compiled (nightly -Zunpretty=expanded)",
               "the operator impl bodies the form theorems are about are all operator impls of dashu-float / dashu-ratio: checked on "
               "every run by COUNT (impls generated by the source text = impls in the compiler's table: 606 and 212), not impl by impl"]
LEVEL_TEXT = ("Lean theorems about the regenerated operator bodies (integer sign tables; every ownership-form impl body of the "
              "helper macros and operator files of dashu-int, dashu-ratio, dashu-float; the four variants of float addition) and "
              "the primitive-form wrapper decide which forms must agree "
              "for all inputs; the correspondence executes EVERY operator impl the compiler sees in dashu-int, dashu-ratio and "
              "dashu-float (tables generated from the "
              "macro-expanded crates on each run) on structured operands and requires identical values or "
              "identical panic kinds (integers: also equal to the model value).")
LEVEL_NOTE = ("Trusted: Lean kernel; rustc's macro expansion listing; extraction of impl headers (vlib/forms.py); the "
              "translators of vlib/extract.py (the ownership-form translator erases references, clones and mem::take and "
              "keeps every callee uninterpreted); the harness. For float/rational forms the driver only requires agreement; "
              "their common value is checked inside their own groups. Form agreement of bodies that are not regenerated "
              "(integer shifts, bit ops below the sign tables, gcd, the ownership-specialised integer kernels) rests on the "
              "correspondence only.")
TECHNIQUE = ("Lean 4 theorems on regenerated glue (sign tables; one definition per operator impl body of the three crates) "
             "+ generated exhaustive call-form table executed against the model")
JOBS = 12

PRIM_EDGES = [0, 1, 2, 3, 7, 127, 128, 129, 255, 256, 32767, 32768, 65535, 65536, 2**31 - 1, 2**31, 2**32 - 1, 2**32,
              2**63 - 1, 2**63, 2**64 - 1, 2**64, 2**127 - 1, 2**127, 2**128 - 1, 2**128]


# ------------------------------------------------------------------ closure of the form theorems (source vs compiler)
#
# Props/C15Forms.lean is about the impl bodies that vlib/extract.py finds in the helper macros and operator files.  That
# these are ALL operator impls of dashu-float / dashu-ratio is checked here on every run: the number of impls the source
# text generates (macro invocations x impls per macro rule, list macros x their type lists, hand-written impls) must be
# the number of impls the compiler reports in the macro-expanded crates (vlib/forms.py table).
from vlib import extract as _X

TABLE_TRAITS = {"Add", "Sub", "Mul", "Div", "Rem", "AddAssign", "SubAssign", "MulAssign", "DivAssign", "RemAssign",
                "Shl", "Shr", "ShlAssign", "ShrAssign", "DivEuclid", "RemEuclid", "DivRemEuclid", "DivRem", "DivRemAssign"}

def strip_macro_defs(src):
    out, i = [], 0
    for m in re.finditer(r"macro_rules!\s+\w+\s*\{", src):
        if m.start() < i:
            continue
        out.append(src[i:m.start()])
        i = _X.balanced(src, m.end() - 1)
    out.append(src[i:])
    return "".join(out)

def predicted(files, helper):
    macros = {}
    for rel in [helper] + files:
        src = _X.read(rel)
        for name in re.findall(r"macro_rules!\s+(\w+)\s*\{", src):
            macros[name] = (rel, _X.macro_rules_all(src, name, rel))
    memo = {}
    def per_invocation(name, ntoks):
        rel, rules = macros[name]
        counts = set()
        for pat, body in rules:
            code = re.sub(r"//[^\n]*", "", body)
            rep = re.match(r"\s*\$\(\s*(.*)\)\s*\*\s*$", code, re.S)
            if rep:                                   # list macro: the body is repeated per token of the argument list
                inner = _X.rule_items(rep.group(1), rel)
                counts.add(ntoks * sum(per_invocation(it[1], 1) for it in inner if it[0] == "invoke"))
                continue
            items = _X.rule_items(body, rel)
            impls = [it for it in items if it[0] == "impl"]
            inv = [it[1] for it in items if it[0] == "invoke"]
            if not impls and inv == [name]:
                continue                              # forwards to another rule of itself
            n = 0
            for it in impls:
                n += 1
            n += sum(per_invocation(v, 1) for v in inv if v != name)
            counts.add(n)
        if len(counts) != 1:
            raise _X.ExtractError("macro %s: rules generate different numbers of impls %s" % (name, counts))
        return counts.pop()
    total, detail = 0, []
    for rel in files:
        src = strip_macro_defs(_X.read(rel))
        for m in re.finditer(r"(?m)^(?:\w+::)*(\w+)!\s*\(", src):
            name = m.group(1)
            if name not in macros:
                continue
            j = _X.balanced(src, m.end() - 1, "(", ")")
            args = src[m.end():j - 1]
            is_list = any(re.match(r"\s*\$\(", re.sub(r"//[^\n]*", "", b)) for _, b in macros[name][1])
            ntoks = len(args.split()) if is_list else 1
            mm = re.match(r"\s*impl\s+(\w+)", args)
            if mm and mm.group(1) not in TABLE_TRAITS:
                continue
            n = per_invocation(name, ntoks)
            total += n
            detail.append((rel, name, args.strip()[:40], n))
        for m in re.finditer(r"(?m)^impl\b", src):
            b0 = src.index("{", m.start())
            try:
                trait, rhs, lhs = _X.impl_header(" ".join(src[m.start():b0].split()), rel)
            except _X.ExtractError:
                continue
            if trait in TABLE_TRAITS:
                total += 1
                detail.append((rel, "hand-written", trait + " for " + lhs[:20], 1))
    return total, detail


CLOSURE = {"float": (["float/src/add.rs", "float/src/mul.rs", "float/src/div.rs", "float/src/shift.rs"], "float/src/helper_macros.rs"),
           "ratio": (["rational/src/add.rs", "rational/src/mul.rs", "rational/src/div.rs"], "rational/src/helper_macros.rs")}


def forms_closure(more):
    out = {}
    for crate, (files, helper) in CLOSURE.items():
        try:
            n, _ = predicted(files, helper)
            out[crate] = {"source": n, "compiler": more[crate]["impls_covered"], "ok": n == more[crate]["impls_covered"]}
        except (_X.ExtractError, KeyError, IndexError, ValueError) as e:
            out[crate] = {"error": str(e), "ok": False}
    return out


def pre_build():
    """regenerate the forms table from the macro-expanded crate before the harness is built"""
    from vlib import forms
    info = forms.regenerate()
    info["more"] = forms.regenerate_more()
    info["closure"] = forms_closure(info["more"])
    bad = {k: v for k, v in info["closure"].items() if not v["ok"]}
    if bad:
        # the operator impls the compiler sees are no longer the ones the form theorems are about: the property is not shown
        import sys
        path = os.path.join(ROOT, "replays", "C15-forms-closure.case")
        os.makedirs(os.path.dirname(path), exist_ok=True)
        with open(path, "w") as f:
            f.write("# operator impls generated by the source text vs. reported by the compiler: %s\n" % json.dumps(bad))
        print("VIOLATION property=C15 replay=%s no-failing-input-found" % path)
        sys.exit(1)
    return info


def groups():
    p = os.path.join(ROOT, "harness", "src", "gen", "forms_int.json")
    info = json.load(open(p))
    return [tuple(k.split(":")) for k in info["group_sizes"]]


def val(rng, kind, small_bias=0.6):
    r = rng.random()
    if r < small_bias:
        v = rng.choice(PRIM_EDGES) + rng.choice([0, 0, 0, 1, -1])
        v = max(v, 0)
    else:
        v = nat_pattern(rng, rng.choice([1, 2, 2, 3, 3, 4, 5]), rng.choice(PATTERNS))
    if kind == "I" and rng.random() < 0.5:
        v = -v
    return v


def nontrivial(c):
    return any(a not in ("0",) for a in c.args[3:]) if c.op == "form" else True


def generate(rng, tier):
    gs = groups()
    per = 14 if tier == "quick" else 400
    for fam, lk, rk in gs:
        for _ in range(per):
            a = val(rng, lk)
            if rk == "S":
                b = rng.choice([0, 1, 2, 7, 63, 64, 65, 127, 128, 129, 191, 192, 200, 1000])
            else:
                b = val(rng, rk)
            r = rng.random()
            if fam in ("div", "rem", "divrem", "diveuclid", "remeuclid", "divremeuclid"):
                if r < 0.04:
                    b = 0
                elif r < 0.2 and b != 0:
                    a = b * rng.choice([1, -1, 2, 255, 2**64]) + rng.choice([0, 1, -1])   # exact / near multiples
                    if lk == "U":
                        a = abs(a)
                elif r < 0.3:
                    a, b = (-128, -1) if lk == "I" and rk == "I" else (a, b)
            if fam in ("gcd", "gcdext") and r < 0.1:
                a, b = 0, (0 if r < 0.03 else b)
            if fam == "sub" and lk == "U" and rk == "U" and r < 0.7 and a < b:
                a, b = b, a
            yield Case("form", [fam, lk, rk, hx(a), hx(b)])
        # carry / borrow chains between heap operands of DIFFERENT lengths (each ownership form has its
        # own buffer-reuse path: in-place on the left buffer, on the right buffer, allocate-new)
        if rk != "S":
            for _ in range(6 if tier == "quick" else 120):
                la, lb = rng.choice([(3, 4), (4, 3), (3, 5), (5, 3), (4, 7), (7, 4), (3, 3), (6, 9), (9, 6)])
                lo = min(la, lb)
                a = nat_pattern(rng, la, rng.choice(["random", "ones", "highbit", "topone"]))
                b = nat_pattern(rng, lb, rng.choice(["random", "ones", "highbit", "topone"]))
                if rng.random() < 0.7:
                    # force a carry out of the low `lo` words: low parts sum to >= B^lo
                    mask = (1 << (64 * lo)) - 1
                    a |= mask
                    b |= rng.getrandbits(64 * lo) | 1
                if rng.random() < 0.3:
                    a |= (1 << (64 * max(la, lb))) - 1 if la >= lb else a     # carry ripples through the longer one
                if lk == "I" and rng.random() < 0.5:
                    a = -a
                if rk == "I" and rng.random() < 0.5:
                    b = -b
                if fam == "sub" and lk == "U" and rk == "U" and a < b:
                    a, b = b, a
                yield Case("form", [fam, lk, rk, hx(a), hx(b)])
    # clone_from with buffer REUSE: destination and source both on the heap with compatible sizes, every sign
    # combination (the sign lives in the capacity field and must be re-derived when the buffer is reused)
    for n in ([3, 4, 5, 8, 20] if tier == "quick" else [3, 4, 5, 6, 7, 8, 12, 20, 33, 100]):
        for dn in (0, 1, -1, 2):
            if n + dn < 3:
                continue
            for sa in (1, -1):
                for sb in (1, -1):
                    a = nat_pattern(rng, n, rng.choice(["random", "ones", "highbit"]))
                    b = nat_pattern(rng, n + dn, rng.choice(["random", "ones", "highbit"]))
                    yield Case("clone.i", [hx(sa * a), hx(sb * b)])
            a = nat_pattern(rng, n, "random"); b = nat_pattern(rng, n + dn, "random")
            yield Case("clone.u", [hx(a), hx(b)])
    m = 60 if tier == "quick" else 1500
    for _ in range(m):
        a = nat_pattern(rng, rng.choice([0, 1, 2, 3, 4, 9, 40]), rng.choice(PATTERNS))
        b = nat_pattern(rng, rng.choice([0, 1, 2, 3, 4, 9, 40]), rng.choice(PATTERNS))
        if rng.random() < 0.5:
            yield Case("clone.u", [hx(a), hx(b)])
        else:
            yield Case("clone.i", [hx(signed(rng, a)), hx(signed(rng, b))])


# ------------------------------------------------------------------ dashu-ratio / dashu-float tables

def more_groups():
    p = os.path.join(ROOT, "harness", "src", "gen", "forms_more.json")
    info = json.load(open(p))
    return ([tuple(k.split(":")) for k in info["ratio"]["group_sizes"]],
            [tuple(k.split(":")) for k in info["float"]["group_sizes"]])


def rat(rng, integer=False):
    n = rng.choice([0, 1, 2, 3, 7, 255, 2**32, 2**64 - 1, 2**64, 2**64 + 1, 2**128 - 1, 2**130 + 12345,
                    nat_pattern(rng, rng.choice([1, 2, 3, 4]), rng.choice(PATTERNS))])
    if rng.random() < 0.5:
        n = -n
    if integer:
        return n, 1
    d = rng.choice([1, 1, 2, 3, 4, 6, 10, 255, 2**32, 2**64 - 1, 2**64, 2**65 + 1,
                    nat_pattern(rng, rng.choice([1, 2, 3]), rng.choice(PATTERNS))])
    return n, max(d, 1)


def flt(rng):
    m = rng.choice([0, 1, 3, 5, 7, 10, 255, 12345, 2**31 - 1, 2**64 - 1, 2**64, 2**64 + 1, 10**19, 10**40 + 1,
                    nat_pattern(rng, rng.choice([1, 2, 3]), rng.choice(PATTERNS))])
    if rng.random() < 0.5:
        m = -m
    e = rng.choice([0, 0, 1, -1, 2, -3, 7, -8, 63, -64, 64, 100, -100, 1000])
    p = rng.choice([0, 1, 2, 3, 5, 8, 16, 24, 53, 64, 65, 100, 200])
    return "f:%s:%d:%d" % (hx(m), e, p)


def generate_more(rng, tier):
    rg, fg = more_groups()
    per = 10 if tier == "quick" else 300
    for fam, q in rg:
        for i in range(per):
            r = rng.random()
            na, da = rat(rng, integer=(r < 0.35))          # integer operands enable the UBig/IBig forms
            nb, db = rat(rng, integer=(0.2 < r < 0.55))
            if fam in ("div", "rem", "diveuclid", "remeuclid", "divremeuclid") and rng.random() < 0.06:
                nb = 0
            if rng.random() < 0.1:
                nb, db = na, da
            yield Case("rform", [fam, q, hx(na), hx(da), hx(nb), hx(db)])
    ints = [0, 1, -1, 2, 7, 127, 128, 255, 256, -128, -129, 32767, 65535, 65536, 2**31, 2**32 - 1, 2**63, -2**63,
            2**64 - 1, 2**64, 2**127, 2**128 - 1, 2**128, -2**127, -2**127 - 1, 10**30]
    for inst in ("z2", "h10"):
        for fam, shape in fg:
            for i in range(per):
                if shape == "FF":
                    a, b = flt(rng), flt(rng)
                    if rng.random() < 0.1:
                        b = a
                    if i < 2:
                        # mixed precisions: an unlimited-precision (0) long operand against a short limited one, so
                        # Context::max picks the limited precision and the operand is longer than the working length
                        long_ = "f:%s:%d:0" % (hx(signed(rng, nat_pattern(rng, rng.choice([2, 3]), "random") | 1)),
                                               rng.choice([0, -100, 7]))
                        short = "f:%s:0:%d" % (hx(rng.choice([3, 7, -5, 1000003])), rng.choice([5, 20]))
                        a, b = (long_, short) if i == 0 else (short, long_)
                    if fam in ("div", "rem", "diveuclid", "remeuclid", "divremeuclid") and rng.random() < 0.05:
                        b = "f:0:0:%d" % rng.choice([0, 5, 20])
                    yield Case("fform", [inst, fam, shape, a, b])
                elif shape == "FN":
                    yield Case("fform", [inst, fam, shape, flt(rng), "n:" + hx(rng.choice(ints))])
                elif shape == "NF":
                    yield Case("fform", [inst, fam, shape, "n:" + hx(rng.choice(ints)), flt(rng)])
                else:
                    sh = rng.choice([0, 1, -1, 2, 7, 63, 64, 65, -64, 100, -100, 1000])
                    yield Case("fform", [inst, fam, shape, flt(rng), "n:0", dec(sh)])



def panic_boundary_cases(rng, tier):
    """both sides of every documented panic condition of the integer operator forms, for every size-class pair
    (inline/inline, inline/heap, heap/inline, heap/heap same length, heap/heap different length)"""
    from vlib.props.c01 import usub_boundary_pairs
    gs = groups()
    B = 1 << 64
    for fam, lk, rk in gs:
        if fam == "sub" and lk == "U" and rk == "U":
            for a, b in usub_boundary_pairs(rng, tier):
                yield Case("form", [fam, lk, rk, hx(a), hx(b)])
        if fam in ("div", "rem", "divrem", "diveuclid", "remeuclid", "divremeuclid") and rk != "S":
            for n in (0, 1, 2, 3, 4, 25):
                a = nat_pattern(rng, n, rng.choice(["random", "ones", "zero"]))
                for sa in ((1, -1) if lk == "I" else (1,)):
                    for b in (0, 1, 2, B, B * B):       # divisor zero and its neighbours, every divisor size class
                        for sb in ((1, -1) if rk == "I" and b else (1,)):
                            yield Case("form", [fam, lk, rk, hx(sa * a), hx(sb * b)])
        if rk == "S":
            # every shift amount at a word boundary x every size class of the shifted operand (an operand with bits on
            # both sides of the boundary, so that s and s+-1 give different answers), every form of the group
            for s in (0, 1, 63, 64, 65, 127, 128, 129, 191, 192, 193, 200, 1000):
                for n in (1, 2, 3, 4):
                    for pat in ("ones", "random"):
                        a = nat_pattern(rng, n, pat) | (1 << (64 * n - 1)) | 1
                        for sa in ((1, -1) if lk == "I" else (1,)):
                            yield Case("form", [fam, lk, rk, hx(sa * a), hx(s)])
        if fam in ("gcd", "gcdext"):
            for n in (0, 1, 2, 3, 25):
                x = nat_pattern(rng, n, "random")
                for a, b in ((0, 0), (0, x), (x, 0), (x, x), (x, 1)):
                    yield Case("form", [fam, lk, rk, hx(a), hx(b)])


def _digits(n, base):
    n = abs(n); d = 0
    while n:
        n //= base; d += 1
    return d


def _eff_digits(m, p, inst):
    """digit count of the operand the harness builds from `f:m:e:p`:
    FBig::from_parts(m, e) (trailing zeros in the base stripped) .with_precision(p) (rounded in the mode of the
    instantiation when longer than p > 0, stripped again)"""
    base = {"z2": 2, "h10": 10}[inst]
    m = abs(m)
    if m == 0:
        return 0
    while m % base == 0:
        m //= base
    d = _digits(m, base)
    if p > 0 and d > p:
        cut = base ** (d - p)
        q, r = divmod(m, cut)
        if inst == "h10" and 2 * r >= cut:      # HalfAway on the magnitude; z2 is mode Zero (truncate)
            q += 1
        m = q
        while m % base == 0:
            m //= base
        d = _digits(m, base)
    return d


def kf_float_div_long_dividend(args, impl):
    """`fform <inst> div FF A B`: the dividend has unlimited precision (0) and more than rhs.digits()+p digits,
    where p = Context::max precision = the divisor's precision: the six operator forms call repr_div directly and
    trip its debug assertion, the Context::div form pre-shrinks the dividend (value, or DivideByZero for B = 0)."""
    if len(args) < 5 or args[1] != "div" or args[2] != "FF":
        return False
    def opnd(s):
        _, m, e, p = s.split(":")
        return (-int(m[1:], 16) if m.startswith("-") else int(m, 16)), int(p)
    (ma, pa), (mb, pb) = opnd(args[3]), opnd(args[4])
    if pa != 0 or pb == 0 or _eff_digits(ma, pa, args[0]) <= _eff_digits(mb, pb, args[0]) + pb:
        return False
    import re
    return re.search(r"^forms-disagree \[1x e\.g\. `Context::div\(&Repr,_&Repr\)_at_Context::max`: (ok_\S+|panic_DivideByZero)\] "
                     r"\[6x e\.g\. `Div(Assign)?<&?FBig<R,B>>_for_&?FBig<R,B>`: panic_Undocumented\(float/src/div\.rs:\d+\|"
                     r"assertion_failed:_lhs\.digits\(\)_<=_self\.precision_\+_rhs\.digits\(\)\)\]$", impl) is not None


def fold_cases(rng, tier):
    """`Sum` / `Product` (iter.rs: `iter.fold(INIT, OP)`) against the explicit left folds with the owned, borrowed and
    compound-assignment operator, for every item form the blanket impl admits; 0..6 items (the empty iterator gives
    INIT), items across the inline/heap boundary, zeros and ones inside products, sign mixes"""
    n = 30 if tier == "quick" else 800
    for _ in range(n):
        k = rng.choice([0, 1, 2, 2, 3, 4, 6])
        kind = rng.choice(["sum", "product"])
        ty = rng.choice(["u", "i", "i", "z2", "h10"])
        if ty in ("u", "i"):
            items = [hx(val(rng, ty.upper(), small_bias=0.7)) for _ in range(k)]
        else:
            items = [flt(rng) if rng.random() < 0.8 else "n:" + hx(rng.choice([0, 1, -1, 7, 255, 2**64, -2**63])) for _ in range(k)]
        yield Case("fold", [ty, kind] + items)


def inf_cases(rng, tier):
    """an INFINITE operand on either side of every float operation: every call form (operator, assign, primitive-operand,
    Context method, shift, fold) must raise the same panic kind — the `assert_finite*` guard sits in each hand-written body"""
    _, fg = more_groups()
    for inst in ("z2", "h10"):
        for fam, shape in fg:
            for side in ((0, 1) if tier == "quick" else (0, 1, 0, 1, 2)):
                inf = "inf:%s:%d" % (rng.choice("+-"), rng.choice([0, 1, 5, 20]))
                if shape == "FF":
                    a, b = (inf, flt(rng)) if side == 0 else ((flt(rng), inf) if side == 1 else (inf, inf))
                    yield Case("fform", [inst, fam, shape, a, b])
                elif shape == "FN" and side != 1:
                    yield Case("fform", [inst, fam, shape, inf, "n:" + hx(rng.choice([0, 1, -1, 255, 2**64]))])
                elif shape == "NF" and side != 0:
                    yield Case("fform", [inst, fam, shape, "n:" + hx(rng.choice([0, 1, -1, 255, 2**64])), inf])
                elif shape == "FS" and side != 1:
                    yield Case("fform", [inst, fam, shape, inf, "n:0", dec(rng.choice([0, 1, -1, 64]))])
        for kind in ("sum", "product"):
            yield Case("fold", [inst, kind, flt(rng), "inf:+:5", flt(rng)])


_generate_int = generate


def generate(rng, tier):
    yield from _generate_int(rng, tier)
    yield from panic_boundary_cases(rng, tier)
    yield from generate_more(rng, tier)
    yield from fold_cases(rng, tier)
    yield from inf_cases(rng, tier)


READY = True
