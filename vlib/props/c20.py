"""C20 — literal macros build exactly the number that was written (DESIGN §8 C20)."""
import atexit, os, random, re, shutil, subprocess, sys, tempfile, time
from vlib import core
from vlib.core import Case

GROUP = "mac"
LEAN_PROPS = "Dashu.Props.C20"
LEAN_AUDIT = "Dashu.Audit.C20"
JOBS = 12
READY = True
USES_GEN = True          # lean/Dashu/Gen/MacroGen.lean (vlib/extract_macro.py): decision logic of the code generators of the macros
GEN_PROPS = ["Dashu.Props.C20Gen", "Dashu.Props.C20GenLoop"]
GEN_AUDIT = ["Dashu.Audit.C20Gen", "Dashu.Audit.C20GenLoop"]
GEN_PROPS += ["Dashu.Props.C20Link"]     # round 7: link to C07's mirrored word-level to_le_bytes / from_le_bytes (by import)
GEN_AUDIT += ["Dashu.Audit.C20Link"]
GEN_PROPS += ["Dashu.Props.C20LinkRepr"] # round 8: link of Repr::new (value-level fnew) to C19's mirror FRepr.new (by import)
GEN_AUDIT += ["Dashu.Audit.C20LinkRepr"]
GEN_PROPS += ["Dashu.Props.C20LinkConst"] # round 8: FBig::from_parts_const (const path) on C05's mirror fromPartsConst (by import of the model)
GEN_AUDIT += ["Dashu.Audit.C20LinkConst"]

REFINED = ["quote_bytes / from_le_bytes (heap path)", "le_bytes_to_u{16,32,64}_array + padding + LEN slicing (static path)",
           "u32 const path guard", "parse_integer_with_error token loop on the documented grammar",
           "parse_ratio_with_error token loop (since e26a9db): accepts exactly the documented grammar (sound + complete), and its value "
           "computation equals the run-time parser on the literal's text",
           "RBig / Relaxed reduction of the parsed parts",
           "float literal -> exact value and precision (C08's literal_exact through the parser the macro model runs)",
           "parse_binary_float's own sign / `_` stripping and second-sign refusal (fbigNew, mirrored statement by statement, run by the "
           "driver): equal to the run-time parser on the text without the macro-only `_`, for every token list; parse_decimal_float likewise",
           "hexadecimal float forms `[sign] [_] 0x int [. frac] [p exp]`: exact value ± hexdigits * 2^(exp - 4*|frac|), precision 4 bits per digit, "
           "through the parser and through fbig!; every accepted float literal of any form (underscores, every marker) denotes its digits",
           "static_ word-array selection (DataSelector table, max_len, INT_SIZE, Select key), const-path guards of all five macros, "
           "match (signed, static_) generator table, debug_asserts of quote_ubig/quote_ibig, precision handed to each float constructor: "
           "REGENERATED from macros/src/parse/*.rs (Gen/MacroGen.lean, Tie A) and called by / proved equal to the model (Props/C20Gen)",
           "the token loops `for token in input { match token {..} }` of parse_integer_with_error and parse_ratio_with_error REGENERATED as "
           "state machines over the code's `let mut` variables; the hand model (intStepNew / ratStepNew, about which the grammar theorems "
           "are proved) simulates them step by step for every state and token (Props/C20GenLoop)",
           "round 6: the statements of parse_binary_float in front of the parser call (strip_prefix of `-` / `+` / `_`, second-sign refusal, "
           "which parser and base, assert!(signif.is_positive())) and of parse_decimal_float (text unchanged to DBig::from_str) REGENERATED "
           "(fbig_prelude / dbig_prelude in Gen/MacroGen.lean); fbigNew / dbigAsIs proved equal to prelude + parser + assert for every token "
           "list (Props/C20Gen fbig_prelude_regenerated, dbig_prelude_regenerated)",
           "round 6: the code of parse_integer_with_error and parse_ratio_with_error BEHIND the token loop (val.unwrap / ok_or, `/` without "
           "denominator, which parser gets which text with which radix, `base` without radix, inconsistent radix, Sign::from(neg), "
           "RBig / Relaxed::from_parts_signed by `relaxed`) REGENERATED as int_finish / ratio_finish with the parsers as parameters; the hand "
           "model's intFinishNew / ratFinishNew proved equal for every state, hence intNew / ratNew = regenerated loop ; regenerated finish "
           "for every token list (Props/C20GenLoop int_parse_regenerated, ratio_parse_regenerated)",
           "round 6: quote_sign's four arms REGENERATED (which path each (embedded, sign) arm emits); each arm writes the sign it was given in "
           "the namespace of its flag (Props/C20Gen quote_sign_regenerated)",
           "round 7, C20<->C07 link (Props/C20Link, by import of C07's toLeBytes_eq / fromLeBytes_eq): the byte string the model hands to "
           "the generators IS what C07's word-level mirror of UBig::to_le_bytes (inline double word + words_to_le_bytes) writes on a host "
           "of any word size Wh (8 | Wh), and the value the model assigns to UBig::from_le_bytes(&BYTES) IS what C07's word-level mirror of "
           "Repr::from_le_bytes (word_from_le_bytes_partial + from_le_bytes_large) computes on a target of any word size Wt, for every "
           "byte string; hence heap path end to end at word level for every n and every (Wh, Wt) (heap_path_value_word_level), and the "
           "static slices for Wt in {16,32,64} fed by the mirrored encoder denote n (static_path_value_word_level)",
           "round 7, C20<->C17 link (Props/C20Link, by import of C17's Rep.fromStaticWords = repr.rs:290 with both asserts): on any word "
           "list whose last word is non-zero the mirrored from_static_words takes no assert arm, emits no event and shows exactly those "
           "words (from_static_words_accepts_normalised); on the slice &DATA[..LEN] the macro emits for n (each selector) it is accepted "
           "and the shown words denote n (static_constructor_on_macro_slice); staticSelect reads exactly these slices "
           "(staticSelect_reads_macro_slice)",
           "round 8, C20<->C19 link (Props/C20LinkRepr, by import of C19's FRepr.new = Repr::normalize, the strip loop on the signed "
           "significand): the value-level Repr::new of the C20 model (fnew) IS that mirror followed by the isize test on the normalised "
           "exponent, for every base >= 2, significand and exponent (repr_new_is_mirrored_normalize); on the significand / exponent of "
           "every accepted fbig! / dbig! literal the mirrored Repr::new of the heap / static expansion returns the parsed representation "
           "unchanged, exponent in isize, C19's digit count within the precision (float_expansion_repr_fixed_mirror)",
           "round 8, C20<->C05 link (Props/C20LinkConst, on C05's statement-by-statement mirror fromPartsConst of FBig::from_parts_const): "
           "whenever the generator takes the const path on a parsed (normalised or zero) magnitude the mirror builds exactly the "
           "representation the model assigns to the expansion, for every word size, both bases, both signs; for a zero literal exactly "
           "precision 0 whatever min_precision (the recorded finding is the mirror's `return Self::ZERO` arm), otherwise a precision >= "
           "the one written (const_path_is_mirrored_constructor, from_parts_const_on_literal)"]
FRONTIER = ["rustc tokenisation of the literal (generator-side lexer, validated by compiling the sample crate): kept — rustc's lexer is not "
            "part of /repo and has no executable model here; level (ii) compiles the sampled invocations with the real compiler",
            "the expansion is read by an interpreter in the harness (constructor paths + data); validated by level (ii): the real proc-macros "
            "under rustc: kept — the meaning of a Rust token stream as a program is rustc's, the interpreter covers the constructor calls the "
            "macros emit and fails closed (`bad-expansion`) on anything else",
            "clause `whether the macro expands to a const expression ... static word array` for floats: the precision on the static path / of a "
            "zero literal differs from FromStr (two recorded findings, theorem float_precision_lost + float_path_regenerated say exactly where)",
            "the float / rational constructors called by the expansion (from_parts_const, Repr::new, FBig::from_repr / from_repr_const, "
            "RBig / Relaxed::from_parts_const) and IBig::from_parts / from_static_words(sign, ..) are modelled by their value (C19/C05 own "
            "them); Tie B runs the real ones. Round 7: UBig::to_le_bytes / UBig::from_le_bytes (C07's word-level mirrors) and "
            "Repr::from_static_words (C17's mirror with both asserts) are no longer in this entry — linked by theorem, Props/C20Link. "
            "Round 8: Repr::new is no longer in this entry — linked to C19's mirror FRepr.new by theorem, Props/C20LinkRepr; open: "
            "the PRECISION FBig::from_parts_const infers for a non-zero literal (representation and zero arm linked to C05's mirror "
            "fromPartsConst, Props/C20LinkConst; precision proved >= the one written, equality needs constDigits / bit_len <= digits "
            "written, not proved), from_repr(_const), the rational "
            "from_parts_const (Model/Ratio/Basic.lean)"]
RULE = ("source texts of macro arguments built from the grammar (sign x radix prefix / `base N` for N in 2..36 x underscores x "
        "identifier-shaped digit strings x exponent / hex-float / fraction / `~` forms) with magnitudes on both sides of the "
        "32-bit const path, the DoubleWord boundary and multi-word values of every byte-length residue mod 8, each expanded as "
        "plain and as static_ variant, plus malformed token sequences (extra signs, missing / doubled parts, wrong `base`, "
        "groups, foreign literals); round 5: `base N` and decimal exponents at every extreme u32 / isize value (0, 1, W±1, 2^31, "
        "2^32±k, 2^63±k, 2^64-k), every alphanumeric character in first / middle / last position of a value token with the radix "
        "just below / above its digit value, every punctuation token in every position of a valid literal of every macro, doubled / "
        "dropped / swapped tokens, the `_` identifier and foreign literal tokens, and 2^k-1, 2^k, 2^k+1 for EVERY k (integer, binary / "
        "hexadecimal significand, numerator / denominator), 10^n±1 for every n, r^n±1 around 2^32 / 2^64 / 2^128 for every radix; round 6: float literals whose scale minus fraction digits leaves isize while the normalised exponent (trailing zeros added back) is within isize::MIN..isize::MAX, and one step beyond, every marker, hex forms. Level (i): expansion functions called at run time, expansion interpreted with the real "
        "constructors, compared with the model and the run-time parser. Level (ii): a generated crate of invocations of the real "
        "proc-macros compiled by rustc (values) and a compile_fail crate (must-be-errors). Non-trivial := every case; distinct "
        ":= distinct (macro, mode, token list).")
EXPLANATION = ("Theorems: the three code generators denote the parsed value — from_le_bytes(to_le_bytes n) = n; the u16/u32/u64 "
               "word arrays emitted by quote_words, sliced to LEN, denote the same number as the bytes for every selector, are "
               "zero padded to the common length and end in a non-zero word (the from_static_words assertion); the const path is "
               "guarded by bit_len <= 32; on the documented token shapes the macro's token loop agrees with the run-time parser on "
               "the concatenated text; rational literals come out reduced (relaxed: no common factor 2); fbig!'s own sign / `_` "
               "stripping equals the run-time parser on every token list and the hexadecimal float forms denote exactly the number "
               "written; the selection tables and guards of the generators are regenerated from the source (Tie A) and proved "
               "equal to the model. Counterexample theorems for the token sequences outside the grammar that the code accepted.")
ASSUMPTIONS = ["rustc tokenises the generated literals as the generator's lexer does (checked on the compiled sample)",
               "quote!/proc_macro2 render integers as suffixed literals (interpreter of the expansion in harness/src/ops_mac.rs)"]
LEVEL_TEXT = ("Machine-checked Lean 4 theorems that each of the three code generators of the literal macros (u32 const "
              "expression, byte array + from_le_bytes, per-word-size static arrays + from_static_words) denotes exactly the parsed "
              "value for every input and every word size, and that the token reconstruction agrees with the run-time parser on "
              "the documented grammar; the model is tied to /repo by calling the real expansion functions on generated token "
              "streams and interpreting their output with the real constructors, and by compiling a sample crate (plus a "
              "compile_fail set) with the real proc-macros.")
LEVEL_NOTE = ("Trusted: Lean kernel; axioms propext/Classical.choice/Quot.sound; the harness interpreter of expansions and the "
              "generators (sampling) for the run-time parsers and constructors the macros call (C07/C08/C19 own their models); the regenerating "
              "translator vlib/extract_macro.py for the generator tables, guards, token loops, the code behind them and the float sign / `_` stripping; rustc's "
              "lexer as replicated by the generator. "
              "Float literal parsing is C08's proved model (from_str_native = documented grammar on every byte string).")
TECHNIQUE = "Lean 4 proofs about byte/word encodings and the token state machines + differential expansion at run time + compiled sample crate"


def nontrivial(c):
    return True


def judge(c, impl, model):
    """level (i) reads the macro expansion with a small interpreter (harness/src/ops_mac.rs).  When the expansion
    is spelled in a way the interpreter does not know (`bad-expansion …`) nothing is known about the value on this
    input from level (i): that is a broken correspondence, not a failing input — the values of the real compiled
    macros are still compared by level (ii) (`mac.compiled`, `mac.cfail`), which reports concrete inputs"""
    if c.op.startswith("mac.") and c.op not in ("mac.compiled", "mac.cfail") and impl.startswith("bad-expansion"):
        return "holds"
    return None


# ---------------------------------------------------------------------------------- input classes of the C20 findings

def _split(op, args):
    """(kind, mode, tokens) of a level (i) or level (ii) case"""
    if op in ("mac.compiled", "mac.cfail"):
        return args[1], args[2], args[3:]
    return op[4:], args[0], args[1:]

def _kinds(toks):
    out = []
    for t in toks:
        k, body = t[0], t[2:]
        if k == "P":
            out.append("P" + body)
        elif k == "I" and body == "base":
            out.append("B")
        else:
            out.append(k)
    return " ".join(out)

INT_SHAPE = re.compile(r"(P[+-] )?[LI]( B L)?")
RAT_SHAPE = re.compile(r"(P~ )?(P[+-] )?[LI]( P/ (P[+-] )?[LI])?( B L)?")

def kf(kind, macro, args, impl, model):
    """input classes of the recorded C20 findings (known_findings.jsonl); `macro` is None for the
    level (ii) ops, whose arguments name the macro"""
    try:
        if macro is None:
            k, mode, toks = args[1], args[2], args[3:]
        else:
            k, mode, toks = macro, args[0], args[1:]
        if k not in ("fbig", "dbig"):
            return False
        m = re.match(r"ok (?:\w+ )?(-?[0-9a-f]+) d:(-?\d+) d:(\d+)", model)
        if m is None:
            return False
        sig = int(m.group(1), 16)
        if kind == "static-precision":
            return mode in ("static", "estatic") and abs(sig).bit_length() > 32
        if kind == "zero-precision":
            return sig == 0
    except Exception:
        return False
    return False


# ---------------------------------------------------------------------------------- a lexer like rustc's (for our alphabet)

def _is_id_start(c):
    return c.isalpha() or c == "_"

def _is_id_cont(c):
    return c.isalnum() or c == "_"

def lex_number(s, i):
    """end index of the number literal starting at s[i], or None if rustc reports a lexical error"""
    n = len(s)
    def eat(j, pred):
        has = False
        while j < n and (pred(s[j]) or s[j] == "_"):
            if s[j] != "_":
                has = True
            j += 1
        return j, has
    base = 10
    j = i + 1
    if s[i] == "0" and j < n:
        c = s[j]
        if c in "bo":
            base = 2 if c == "b" else 8
            j, has = eat(j + 1, str.isdigit)
            if not has:
                return None
            if any(ch.isdigit() and int(ch) >= base for ch in s[i + 2:j]):
                return None
        elif c == "x":
            base = 16
            j, has = eat(j + 1, lambda ch: ch in "0123456789abcdefABCDEF")
            if not has:
                return None
        elif c.isdigit() or c == "_":
            j, _ = eat(j, str.isdigit)
        elif c in ".eE":
            pass
        else:
            pass
    else:
        j, _ = eat(j, str.isdigit)
    def exponent(j):
        if j < n and s[j] in "+-":
            j += 1
        j2, has = eat(j, str.isdigit)
        return j2 if has else None
    is_float = False
    if j < n and s[j] == "." and not (j + 1 < n and (s[j + 1] == "." or _is_id_start(s[j + 1]))):
        is_float = True
        j += 1
        if j < n and s[j].isdigit():
            j, _ = eat(j, str.isdigit)
            if j < n and s[j] in "eE":
                j = exponent(j + 1)
                if j is None:
                    return None
    elif j < n and s[j] in "eE" and base != 16:
        is_float = True
        j = exponent(j + 1)
        if j is None:
            return None
    if is_float and base != 10:
        return None                       # "hexadecimal float literal is not supported"
    if j < n and _is_id_start(s[j]):
        while j < n and _is_id_cont(s[j]):
            j += 1
    return j

PUNCTS = "+-/~.@*!,;%^&|=<>:#$?"          # every single-character punctuation token a proc-macro can receive (`'` starts a lifetime)

def lex(src):
    """token list [(kind, text)] of a macro argument, or None for a lexical error"""
    toks = []
    i, n = 0, len(src)
    while i < n:
        c = src[i]
        if c == " ":
            i += 1
        elif _is_id_start(c):
            j = i + 1
            while j < n and _is_id_cont(src[j]):
                j += 1
            toks.append(("I", src[i:j])); i = j       # (`_` alone reaches a proc-macro as an identifier token)
        elif c.isdigit():
            j = lex_number(src, i)
            if j is None:
                return None
            toks.append(("L", src[i:j])); i = j
        elif c == "(":
            j = src.find(")", i)
            if j < 0:
                return None
            inner = lex(src[i + 1:j])
            if inner is None or len(inner) != 1 or inner[0][0] != "L":
                return None
            toks.append(("G", inner[0][1])); i = j + 1
        elif c in PUNCTS:
            toks.append(("P", c)); i += 1
        else:
            return None
    return toks

def case_of(kind, mode, src):
    t = lex(src)
    if t is None:
        return None
    return Case("mac." + kind, [mode] + ["%s:%s" % kt for kt in t])


# ---------------------------------------------------------------------------------- literal builders

DIG = "0123456789abcdefghijklmnopqrstuvwxyz"

def to_radix(n, r):
    if n == 0:
        return "0"
    out = []
    while n:
        out.append(DIG[n % r]); n //= r
    return "".join(reversed(out))

def underscored(rng, s, p=0.2):
    if rng.random() < 0.5:
        return s
    out = [s[0]]
    for ch in s[1:]:
        if rng.random() < p:
            out.append("_")
        out.append(ch)
    if rng.random() < 0.1:
        out.append("_")
    return "".join(out)

def magnitudes(rng, tier):
    ms = [0, 1, 2, 9, 10, 255, 256, 65535, 65536, 2 ** 31 - 1, 2 ** 31, 2 ** 32 - 1, 2 ** 32, 2 ** 32 + 1, 2 ** 33, 2 ** 48,
          2 ** 63, 2 ** 64 - 1, 2 ** 64, 2 ** 64 + 1, 2 ** 96, 2 ** 127, 2 ** 128 - 1, 2 ** 128, 2 ** 128 + 1, 2 ** 192 - 1, 2 ** 192,
          2 ** 200 + 0b10111, 2 ** 256, 2 ** 512 - 1]
    for nbytes in range(1, 42):                       # every residue of the byte length mod 2, 4, 8 (padding of the word arrays)
        ms.append(rng.getrandbits(8 * nbytes) | (1 << (8 * nbytes - 1)))
        ms.append(1 << (8 * nbytes - 8))              # top byte = 1
        ms.append((1 << (8 * nbytes)) - 1)
    for bits in (31, 32, 33, 63, 64, 65, 127, 128, 129):
        ms.append(rng.getrandbits(bits) | (1 << (bits - 1)))
    k = 30 if tier == "quick" else 1500
    for _ in range(k):
        ms.append(rng.getrandbits(rng.randrange(1, 700 if tier == "quick" else 5000)))
    return ms

def int_text(rng, m, r, style):
    """text of magnitude m in radix r as it can be written inside the macro (single token)"""
    d = to_radix(m, r)
    if rng.random() < 0.3:
        d = d.upper() if rng.random() < 0.5 else "".join(c.upper() if rng.random() < 0.5 else c for c in d)
    if rng.random() < 0.15:
        d = "0" * rng.randrange(1, 4) + d
    d = underscored(rng, d)
    if style == "prefix":
        return {2: "0b", 8: "0o", 16: "0x"}[r] + d, None
    if style == "dec":
        return d, None
    # `base N`: a digit string that starts with a letter is an identifier; one that starts with a digit and
    # continues with letters may be mis-lexed (exponent / prefix), so half of the time use the `_` form
    if not d[0].isdigit() or rng.random() < 0.5:
        if d[0].isdigit():
            d = "_" + d
    return d, r

def gen_int(rng, tier):
    ms = magnitudes(rng, tier)
    for m in ms:
        for kind in ("ubig", "ibig"):
            for mode in ("plain", "static"):
                style = rng.choice(["dec", "prefix", "prefix", "base", "base"])
                r = 10 if style == "dec" else (rng.choice([2, 8, 16]) if style == "prefix" else rng.randrange(2, 37))
                if m.bit_length() > 2500 and r < 8:
                    r = 16
                txt, base = int_text(rng, m, r, style)
                sign = ""
                if kind == "ibig":
                    sign = rng.choice(["", "-", "-", "+", "- "])
                elif rng.random() < 0.05:
                    sign = rng.choice(["+", "-"])
                src = sign + txt + ((" base %d" % base) if base else "")
                c = case_of(kind, mode, src)
                if c:
                    yield c
    # with `base N` every character is a digit of base N — also when the digit string happens to start like a radix
    # prefix (0b.. needs N >= 12, 0o.. N >= 25, 0x.. N >= 34); sizes on the const, heap and static paths
    for pfx, digs, lo in (("0b", "01", 12), ("0o", "01234567", 25), ("0x", "0123456789abcdef", 34)):
        for ndig in (1, 2, 5, 7, 12, 13, 20, 40, 90):
            for _ in range(2 if tier == "quick" else 8):
                body = "".join(rng.choice(digs) for _ in range(ndig))
                if rng.random() < 0.3 and ndig > 2:
                    body = body[:ndig // 2] + "_" + body[ndig // 2:]
                N = rng.choice([lo, lo, 36, rng.randrange(lo, 37)])
                for kind in ("ubig", "ibig"):
                    for mode in ("plain", "static"):
                        sign = rng.choice(["", "-", "+"]) if kind == "ibig" else ""
                        c = case_of(kind, mode, "%s%s%s base %d" % (sign, pfx, body, N))
                        if c:
                            yield c
                        # the same digits below the threshold radix: not digits of that base -> compile error
                        if N > 2 and rng.random() < 0.2:
                            c = case_of(kind, mode, "%s%s%s base %d" % (sign, pfx, body, rng.randrange(2, lo)))
                            if c:
                                yield c
    # malformed / edge token sequences
    bad = ["", "-", "+", "--5", "- -5", "+-5", "-+5", "++5", "---7", "5 6", "5 base", "5 base base 10", "5 base 10 11", "5 base 10 base 2",
           "base", "base 10", "base base 16", "5 base 0", "5 base 1", "5 base 37", "5 base 36", "z base 36", "Z base 36", "5 base 4294967296",
           "5 base 4294967295", "5 base 10u8", "5 base 1_0", "5 base 010", "5 base x", "5 bse 10", "5 BASE 10", "(5)", "5 (6)", "5 base (10)",
           "- (5)", "5 -", "5 - 3", "5 + 3", "5 / 2", "~5", "5 ~", "1.5", "1e3", "1e3 base 16", "1e+3 base 16", "0x", "12ab", "12ab base 16",
           "0x12 base 16", "0b11 base 16", "b11 base 16", "_0b11 base 16", "0b102 base 32", "_0b102 base 32", "_ base 10", "__ base 10",
           "_1 base 10", "1_ base 10", "_1", "1_", "0x_", "0x_1", "0_0", "00", "0 base 2", "2 base 2", "10 base 2", "0o8", "0o7", "0b2", "0b1",
           "0xg", "0xG", "0XFF", "0B1", "0O7", "0xff_u8", "255u8", "1f32 base 16", "1f32", "1usize", "0x1usize", "9" * 50, "0x" + "f" * 40,
           "-0", "+0", "- 0x0", "-0b0 ", "-_0 base 7", "- z base 36", "4294967295", "4294967296", "-4294967295", "-4294967296",
           "340282366920938463463374607431768211455", "340282366920938463463374607431768211456", "0.5", "5.", ". 5", "5 . 0"]
    for src in bad:
        for kind in ("ubig", "ibig"):
            for mode in ("plain", "static"):
                c = case_of(kind, mode, src)
                if c:
                    yield c


def gen_float(rng, tier):
    n = 250 if tier == "quick" else 12000
    # binary floats
    for _ in range(n):
        bits = rng.choice([1, 2, 5, 8, 16, 31, 32, 33, 34, 40, 63, 64, 65, 100, 128, 129, 200, 400])
        m = rng.getrandbits(bits) | (1 << (bits - 1))
        if rng.random() < 0.3:
            m <<= rng.randrange(1, 40)
        style = rng.choice(["bin", "bin", "hex", "hex", "hexid"])
        sign = rng.choice(["", "", "-", "+", "-_", "_"])
        if style == "bin":
            d = to_radix(m, 2)
            if rng.random() < 0.3:
                d = "0" * rng.randrange(1, 5) + d
            if rng.random() < 0.6:
                k = rng.randrange(0, len(d) + 1)
                d = d[:k] + "." + d[k:]
                if d.startswith(".") and rng.random() < 0.5:
                    d = "0" + d
            d = underscored(rng, d, 0.1) if "." not in d else d
            if rng.random() < 0.5:
                d += rng.choice("bB") + rng.choice(["", "-", "+"]) + str(rng.randrange(0, 200))
            src = sign + d
        else:
            h = to_radix(m, 16)
            if rng.random() < 0.3:
                h = "0" * rng.randrange(1, 4) + h
            frac = ""
            if rng.random() < 0.6 and len(h) > 1:
                k = rng.randrange(1, len(h))
                h, frac = h[:k], h[k:]
            d = "0x" + h
            if frac:
                # `0x12.34` is a lexical error (hex float); the documented spellings: a fraction that starts with a
                # letter or `_`, or the whole literal behind `_`
                if frac[0].isdigit():
                    if rng.random() < 0.5:
                        frac = "_" + frac
                    else:
                        d = "_" + d if not sign.endswith("_") else d
                d += "." + frac
            if rng.random() < 0.6:
                d += rng.choice("pP") + rng.choice(["", "-", "+"]) + str(rng.randrange(0, 300))
            src = sign + d
        for mode in ("plain", "static"):
            c = case_of("fbig", mode, src)
            if c:
                yield c
    # decimal floats
    for _ in range(n):
        digs = rng.choice([1, 2, 5, 9, 10, 11, 15, 19, 20, 21, 30, 38, 39, 40, 60, 100])
        m = rng.randrange(10 ** (digs - 1), 10 ** digs)
        if rng.random() < 0.3:
            m *= 10 ** rng.randrange(1, 12)
        d = str(m)
        if rng.random() < 0.3:
            d = "0" * rng.randrange(1, 4) + d
        if rng.random() < 0.7:
            k = rng.randrange(0, len(d) + 1)
            d = d[:k] + "." + d[k:]
            if d.startswith("."):
                d = "0" + d
        elif rng.random() < 0.5:
            d = underscored(rng, d, 0.15)
        if rng.random() < 0.5:
            d += rng.choice(["e", "E", "e-", "e+", "E-", "@", "@-"]) + str(rng.randrange(0, 400))
        src = rng.choice(["", "", "-", "+"]) + d
        for mode in ("plain", "static"):
            c = case_of("dbig", mode, src)
            if c:
                yield c
    fixed_f = ["-0x1ffffffff", "0x1ffffffff", "-0x100000000", "-0x5a4653ca673768565b41f775d6947d55cf3813d1p-200", "-_0xabcdef012.345p7",
               "-1" + "0" * 32 + "1", "-1.0000000000000000000000000000000000000001b70", "-0xffffffffp0", "-0x1fffffffe", "0", "-0", "0.0", "0x0", "-0x0p5", "1", "-1", "+1", "--1", "-+1", "+-1", "-_-1", "_1", "__1", "-_1", "_-1", "1.", ".1", ".", "1.1", "11.001",
               "1.101B-3", "-0x1a7f", "0x03.efp-2", "0xa54653ca_67376856_5b41f775.f00c1782_d6947d55p-33", "-_0xae.1f", "-0xae1fp-8",
               "-0x12._34", "-_0x12.34", "-1001.10", "0x123", "-0xffff_ffffp-127", "0xffff_ffff", "0x1_0000_0000", "0x1ffffffff",
               "1e5", "1p5", "0x1b5", "0x1B-5", "1b", "1b-", "2", "12", "1.2", "0x1.8p3", "0x1 .8p3", "1b5b6", "1@5", "1@-5", "0x1@5",
               "1 1", "1 . 1", "(1)", "1(1)", "0b101", "0o7", "1h5", "1.0b+0", "0x.8", "0x8.", "0x.p1", "_0x.8p1", "1_0.0_1b1_0", "1.+1", "1.-1"]
    fixed_d = ["-4294967296", "-4294967297", "-123456789012345678901234567890.5e-7", "-4294967295", "0", "-0", "0.0", "0.00", "-0.000", "0e5", "0.0e-7", "1", "-1", "+1", "--1", "-+1", "+-1", "_1", "1_", "1.", ".1", "0.1", ".", "12.001",
               "7.42e-3", "3.141_592_653_589_793_238", "003.1200e-2", "-1.201", "1234_5678e-100", "-1e100000", "4294967295", "4294967296",
               "4294967.295", "4294967.296", "42949672960", "1e5", "1E5", "1e-5", "1e+5", "1@5", "1@-5", "1.5@2", "0x1p3", "0x10", "1b5", "1p5",
               "1 1", "1 . 5", "1.2.3", "(1)", "1.+5", "1.-5", "1e5e6", "12a", "1_000.000_1", "1__0", "100", "1000e-3", "0.001", "0.0010",
               "18446744073709551615", "18446744073709551616", "340282366920938463463374607431768211456.5"]
    for src in fixed_f:
        for mode in ("plain", "static"):
            c = case_of("fbig", mode, src)
            if c:
                yield c
    for src in fixed_d:
        for mode in ("plain", "static"):
            c = case_of("dbig", mode, src)
            if c:
                yield c


def gen_ratio(rng, tier):
    n = 300 if tier == "quick" else 12000
    bitsizes = [1, 3, 8, 16, 31, 32, 33, 40, 63, 64, 65, 100, 128, 129, 200, 300]
    for _ in range(n):
        a = rng.getrandbits(rng.choice(bitsizes)); b = rng.getrandbits(rng.choice(bitsizes)) or 1
        r = rng.random()
        if r < 0.25:
            g = rng.getrandbits(rng.choice([2, 8, 31, 33, 64])) | 1
            a *= g; b *= g
        elif r < 0.45:
            a <<= rng.randrange(0, 40); b <<= rng.randrange(0, 40)
        elif r < 0.5:
            a = 0
        style = rng.choice(["dec", "dec", "prefix", "prefix1", "base", "base"])
        rad = 10 if style == "dec" else (rng.choice([2, 8, 16]) if style.startswith("prefix") else rng.randrange(2, 37))
        ta, base = int_text(rng, a, rad, "prefix" if style.startswith("prefix") else style)
        tb, _ = int_text(rng, b, rad, "prefix" if style == "prefix" else ("base" if style == "prefix1" else style))
        src = rng.choice(["", "", "~", "~ "]) + rng.choice(["", "", "-", "+"]) + ta
        if rng.random() < 0.9:
            src += rng.choice(["/", " / "]) + rng.choice(["", "", "", "-", "+"]) + tb
        if base:
            src += " base %d" % base
        for mode in ("plain", "static"):
            c = case_of("rbig", mode, src)
            if c:
                yield c
    fixed = ["22/7", "~-1/13", "0x3c/0x5e", "~0xff/dd", "-2", "107_241/35_291", "a3/gp1 base 32", "~_100ef/_5ge base 32", "_0b102/_0h2 base 32",
             "b102/h2 base 32", "-1/2", "~3355/15", "0", "0/1", "0/5", "-0/5", "~0/6", "1/0", "0/0", "~1/0", "~0/0", "5/0x0", "1/1", "2/4", "~2/4", "~6/4",
             "~4/6", "3 4", "3 4 base 10", "/2", "1/", "1//2", "1/2/3", "1/2 3", "~~1/2", "1~/2", "1/~2", "~", "", "- - 1/2", "--1/2", "+-1/2", "1 - /2",
             "1/--2", "1/+-2", "1/2 base", "1 base 10", "1/2 base 10", "1/2 base 1", "1/2 base 37", "1/2 base 10 11", "1/2 base 10u8", "(1)/2", "1/(2)",
             "0x10/0b1", "0x10/10", "0x10/0x10", "10/0x10", "0b11/0o7", "0b11/11", "1.5/2", "1/2.5", "1e2/3", "1_0/2_0", "_1/2", "1/_2", "ff/2", "1/ff",
             "ff/ee base 16", "FF/ee base 16", "4294967295/4294967296", "4294967296/4294967295", "4294967295/4294967295", "~4294967296/2",
             "8589934592/4", "18446744073709551616/36893488147419103232", "340282366920938463463374607431768211456/3", "-1/-2", "+1/+2",
             "~-4/-6", "- 1 / - 2", "1 / 2 / ", "1 base 10 / 2", "1/2 ~"]
    for src in fixed:
        for mode in ("plain", "static"):
            c = case_of("rbig", mode, src)
            if c:
                yield c


# ---------------------------------------------------------------------------------- round 5: extreme arguments, full alphabets, every magnitude

W = 64
def extreme_unsigned(rng, full):
    """ROUND4 addendum E1: the values a u32 / u64 / usize argument must be driven with"""
    vs = [0, 1, 2, W - 1, W, W + 1, 2 * W, 2 ** 31 - 1, 2 ** 31, 2 ** 32 - 1, 2 ** 32, 2 ** 63 - 1, 2 ** 63, 2 ** 64 - 1, 2 ** 64, 2 ** 64 + 1, 2 ** 128]
    ks = range(0, 131) if full else sorted(set([0, 1, 2, 3, 35, 36, 37, 63, 64, 65, 127, 128, 129, 130] + [rng.randrange(0, 131) for _ in range(6)]))
    for k in ks:
        vs += [2 ** 32 + k, 2 ** 64 - 1 - k, 2 ** 32 - 1 - k, 2 ** 63 - 1 - k, 2 ** 63 + k]
    return vs

ALNUM = "0123456789abcdefghijklmnopqrstuvwxyzABCDEFGHIJKLMNOPQRSTUVWXYZ"

def digit_value(c):
    return int(c, 36)

def gen_extreme(rng, tier):
    full = tier != "quick"
    # (E1) `base N`: N is parsed as u32 at expansion time — every kind of extreme value, on every macro with a radix
    for N in extreme_unsigned(rng, full):
        for kind, body in (("ubig", "10"), ("ibig", "-10"), ("rbig", "10/11"), ("rbig", "~1")):
            for mode in (("plain", "static") if (full or rng.random() < 0.3) else (rng.choice(["plain", "static"]),)):
                c = case_of(kind, mode, "%s base %d" % (body, N))
                if c:
                    yield c
    # (E1) the decimal exponent of a float literal is an isize: extremes of both signs, with and without fraction /
    # trailing zeros (normalisation moves the exponent), every scale marker
    exps = [0, 1, 2, W - 1, W, W + 1, 2 * W, 2 ** 31 - 1, 2 ** 31, 2 ** 32 - 1, 2 ** 32, 2 ** 32 + 1, 2 ** 32 + 129, 2 ** 62, 2 ** 63 - 130, 2 ** 63 - 2,
            2 ** 63 - 1, 2 ** 63, 2 ** 63 + 1, 2 ** 64 - 1, 2 ** 64, 2 ** 64 + 5]
    if full:
        exps += [2 ** 63 - 1 - k for k in range(2, 131)] + [2 ** 32 + k for k in range(2, 130)]
    for e in exps:
        for sg in ("", "-", "+"):
            for mant in ("1", "10", "1000", "1.5", "0.001", "0", "123456789012"):
                if not full and rng.random() < 0.6:
                    continue
                for kind, marks in (("dbig", ["e", "E", "@"]), ("fbig", ["b", "B", "@"])):
                    m = mant if kind == "dbig" else {"1.5": "1.1", "123456789012": "1" * 40, "0.001": "0.001"}.get(mant, mant.replace("2", "1").replace("3", "1"))
                    c = case_of(kind, rng.choice(["plain", "static"]), "%s%s%s%d" % (m, rng.choice(marks), sg, e))
                    if c:
                        yield c
        for sg in ("", "-", "+"):
            c = case_of("fbig", rng.choice(["plain", "static"]), "_0x1.8%s%s%d" % (rng.choice("pP@"), sg, e))    # (`0x1.8` is no rustc token — round 6: `_0x1` identifier form)
            if c:
                yield c
            c = case_of("fbig", rng.choice(["plain", "static"]), "-_0x%s%s%s%d" % (rng.choice(["f", "10", "ff00"]), rng.choice("pP"), sg, e))
            if c:
                yield c
    # round 6 (fix 5997fe0, float/src/parse.rs): the parser subtracts the number of fraction digits from the scale in i128 and
    # adds the normalisation shift BEFORE the isize test — class from the branch condition `isize::try_from(scale - fract_digits
    # + shift)`: scale - fract_digits < isize::MIN <= scale - fract_digits + trailing zeros (a value now, an overflow before), the
    # two neighbours on either side, and the mirror class at isize::MAX (integral trailing zeros push the exponent out)
    for k in range(0, 6):
        for mant in ("1.50", "1.000", "10.00", "100.0", "1.5", "0.10", "0.0100", "1.10000", "1100.00"):
            for kind, marks in (("dbig", "eE@"), ("fbig", "bB@")):
                m = mant if kind == "dbig" else mant.replace("5", "1")
                for txt in ("%s%s-%d" % (m, rng.choice(marks), 2 ** 63 - k), "%s%s%d" % (m, rng.choice(marks), 2 ** 63 - 1 - k),
                            "-%s%s-%d" % (m, rng.choice(marks), 2 ** 63 - k)):
                    c = case_of(kind, rng.choice(["plain", "static"]), txt)
                    if c:
                        yield c
        for hm in ("_0x1.80", "_0x1.8", "+_0x10.00", "_0x3.000", "-_0xc.40", "0x100", "_0xf.0f0"):   # rustc has no `0x1.8` token: `_0x..` identifier form
            for txt in ("%s%s-%d" % (hm, rng.choice("pP"), 2 ** 63 - k), "%s%s%d" % (hm, rng.choice("pP"), 2 ** 63 - 1 - k),
                        "%s%s-%d" % (hm, rng.choice("pP"), 2 ** 63 - 4 - k), "%s%s-%d" % (hm, rng.choice("pP"), 2 ** 63 - 10 - k)):
                c = case_of("fbig", rng.choice(["plain", "static"]), txt)
                if c:
                    yield c
    # (E2) every alphanumeric character in the first / a middle / the last position of a value token, with a radix
    # just above and just below the character's digit value and the largest radix: accepted iff digit < radix
    for ch in ALNUM:
        d = digit_value(ch)
        for N in sorted(set([max(d, 2), min(d + 1, 36), 36, 10])):
            for pos in ("first", "mid", "last"):
                core_digits = "10" if N == 2 else "1" + DIG[rng.randrange(0, N)]
                txt = {"first": ch + core_digits, "mid": "1" + ch + core_digits, "last": core_digits + ch}[pos]
                if rng.random() < 0.3:
                    txt = "_" + txt
                for kind in (("ubig", "ibig", "rbig", "rbig/") if full else (rng.choice(["ubig", "ibig"]), rng.choice(["rbig", "rbig/"]))):
                    mode = rng.choice(["plain", "static"])
                    if kind == "rbig/":
                        c = case_of("rbig", mode, "1/%s base %d" % (txt, N))
                    else:
                        c = case_of(kind, mode, "%s base %d" % (txt, N))
                    if c:
                        yield c
        # without `base`: the character as a digit of a prefixed / decimal literal and of the float macros
        for src_kind in (("ubig", "0x1%s" % ch), ("ubig", "0o1%s" % ch), ("ubig", "0b1%s" % ch), ("ibig", "-1%s" % ch), ("ubig", "%s1" % ch),
                         ("dbig", "1%s" % ch), ("dbig", "1.%s" % ch), ("dbig", "1%s1" % ch), ("fbig", "1%s" % ch), ("fbig", "1.%s" % ch), ("fbig", "0x1%s" % ch),
                         ("fbig", "_0x1.%s" % ch), ("fbig", "1%s1" % ch), ("fbig", "0x1%s1" % ch), ("rbig", "1%s/3" % ch), ("rbig", "3/1%s" % ch), ("rbig", "0x1%s/0x2" % ch)):
            c = case_of(src_kind[0], rng.choice(["plain", "static"]), src_kind[1])
            if c:
                yield c
    # (E2) every punctuation token in every position of a valid literal of every macro
    seeds = [("ubig", ["L:12"]), ("ubig", ["L:12", "I:base", "L:10"]), ("ibig", ["P:-", "L:12"]), ("ibig", ["P:+", "I:ff", "I:base", "L:16"]),
             ("fbig", ["P:-", "L:101", "P:.", "L:01"]), ("fbig", ["I:_0x1f", "P:.", "L:8"]), ("fbig", ["L:0x1p5"]), ("dbig", ["L:1.5e3"]), ("dbig", ["P:-", "L:12"]),
             ("dbig", ["L:1", "P:.", "L:5"]), ("rbig", ["L:1", "P:/", "L:2"]), ("rbig", ["P:~", "P:-", "L:4", "P:/", "P:+", "L:6", "I:base", "L:10"]), ("rbig", ["L:7"])]
    for kind, toks in seeds:
        for p in PUNCTS + "'":
            for pos in range(len(toks) + 1):
                if not full and rng.random() < 0.5:
                    continue
                yield Case("mac." + kind, [rng.choice(["plain", "static"])] + toks[:pos] + ["P:" + p] + toks[pos:])
        # a token doubled / dropped / swapped
        for pos in range(len(toks)):
            yield Case("mac." + kind, ["plain"] + toks[:pos] + [toks[pos]] + toks[pos:])
            if len(toks) > 1:
                yield Case("mac." + kind, ["plain"] + toks[:pos] + toks[pos + 1:])
            if pos + 1 < len(toks):
                yield Case("mac." + kind, ["plain"] + toks[:pos] + [toks[pos + 1], toks[pos]] + toks[pos + 2:])
    # the `_` identifier (macro-only prefix of fbig!, never a number elsewhere) and foreign literal tokens
    for kind in ("ubig", "ibig", "fbig", "dbig", "rbig"):
        for toks in (["I:_"], ["I:_", "L:1"], ["I:_", "P:+", "L:1"], ["I:_", "P:-", "L:1"], ["I:_", "P:-", "L:0"], ["P:-", "I:_", "L:1"], ["P:-", "I:_", "P:-", "L:1"],
                     ["P:+", "I:_", "P:+", "L:1"], ["I:_", "I:_", "L:1"], ["I:_", "I:_1"], ["I:__"], ["L:1", "I:_"], ["I:_", "I:base", "L:10"], ["L:1", "I:base", "I:_"],
                     ["I:_", "P:.", "L:1"], ["I:_", "L:0x1", "P:.", "L:8"], ["P:-", "I:_", "L:0x1", "P:.", "L:8p1"], ["I:_", "P:/", "L:1"], ["L:1", "P:/", "I:_"],
                     ['L:"12"'], ["L:'1'"], ["L:b'1'"], ['L:b"1"'], ["L:1.5f32"], ["L:1f64"], ["L:12u128"], ["L:0x1fu8"], ['L:r"1"'], ["L:1i8", "I:base", "L:10"],
                     ["L:1", "I:base", "L:10u32"], ["L:1", "I:base", 'L:"10"'], ["L:1", "I:base", "L:1e1"], ["L:1", "I:base", "L:10.0"], ["L:1", "I:base", "L:0x10"],
                     ["L:1", "I:base", "L:00000000000000000000000000000000000010"], ["L:1", "I:r#base", "L:10"]):
            if any(t.startswith("I:r#") for t in toks):
                continue                      # raw identifiers: not expressible through Ident::new of the harness
            for mode in ("plain", "static"):
                yield Case("mac." + kind, [mode] + toks)


def gen_magnitudes(rng, tier):
    """boundary classes for k of EVERY bit length (ROUND4 addendum E2): 2^k - 1, 2^k, 2^k + 1 as integer literal, as float
    significand (binary, hexadecimal, decimal 10^n ± 1), as numerator / denominator; r^n ± 1 around the const (2^32), DoubleWord
    (2^64 / 2^128) boundaries for every radix"""
    kmax = 140 if tier == "quick" else 800
    for k in range(1, kmax + 1):
        for m in (2 ** k - 1, 2 ** k, 2 ** k + 1):
            kind = rng.choice(["ubig", "ibig"]); mode = rng.choice(["plain", "static"])
            style = rng.choice(["dec", "prefix", "base"])
            r = 10 if style == "dec" else (rng.choice([2, 8, 16]) if style == "prefix" else rng.randrange(2, 37))
            txt, base = int_text(rng, m, r, style)
            c = case_of(kind, mode, ("-" if kind == "ibig" and rng.random() < 0.5 else "") + txt + ((" base %d" % base) if base else ""))
            if c:
                yield c
            # float significands: binary digits, hexadecimal digits (with a fraction point moved through the digits)
            mode = rng.choice(["plain", "static"])
            b = to_radix(m, 2)
            cut = rng.randrange(0, len(b) + 1)
            src = rng.choice(["", "-", "-_", "+"]) + (b[:cut] + "." + b[cut:] if rng.random() < 0.5 and 0 < cut else b) + rng.choice(["", "b-3", "B7", "@-1"])
            c = case_of("fbig", mode, src)
            if c:
                yield c
            h = to_radix(m, 16)
            src = rng.choice(["", "-", "+"]) + "0x" + h + rng.choice(["", "p-3", "P12", "@4"])
            c = case_of("fbig", rng.choice(["plain", "static"]), src)
            if c:
                yield c
            # rationals with this numerator / denominator (reduced or not)
            o = rng.choice([1, 3, 2 ** 31 - 1, 2 ** 32 - 1, 2 ** 32, 2 ** 32 + 1, 2 ** 64, m])
            a, b2 = (m, o) if rng.random() < 0.5 else (o, m)
            c = case_of("rbig", rng.choice(["plain", "static"]), "%s%s%s/%s" % (rng.choice(["", "~"]), rng.choice(["", "-"]), a, b2))
            if c:
                yield c
    for n in range(1, 46 if tier == "quick" else 120):
        for m in (10 ** n - 1, 10 ** n, 10 ** n + 1):
            d = str(m)
            cut = rng.randrange(0, len(d) + 1)
            src = rng.choice(["", "-", "+"]) + (d[:cut] + "." + d[cut:] if 0 < cut and rng.random() < 0.6 else d) + rng.choice(["", "e-3", "E12", "@4"])
            for mode in ("plain", "static"):
                c = case_of("dbig", mode, src)
                if c:
                    yield c
    for r in range(2, 37):
        for T in (32, 64, 128):
            n = 1
            while r ** n < 2 ** T:
                n += 1
            for m in (r ** n - 1, r ** n, r ** n + 1, r ** (n - 1) - 1, r ** (n - 1), r ** (n - 1) + 1, 2 ** T - 1, 2 ** T):
                if tier == "quick" and rng.random() < 0.5:
                    continue
                txt, base = int_text(rng, m, r, "base")
                kind = rng.choice(["ubig", "ibig", "rbig"])
                c = case_of(kind, rng.choice(["plain", "static"]), txt + " base %d" % r)
                if c:
                    yield c


# ---------------------------------------------------------------------------------- level (ii): the real proc-macros under rustc

SAMPLE_SEED = 20260929

def compiled_sets():
    """deterministic samples: (accepted-by-the-model candidates with values, compile_fail candidates)"""
    rng = random.Random(SAMPLE_SEED)
    A, F = [], []
    pool = list(gen_int(rng, "quick")) + list(gen_float(rng, "quick")) + list(gen_ratio(rng, "quick"))
    rng.shuffle(pool)
    # round 5: the real compiler is also asked about the extreme-argument / full-alphabet classes (interleaved 1:1 at the head of
    # the pool, so both the accepted and the must-be-error samples contain them); a lone `'` is not a token rustc can lex
    extra = [c for c in gen_extreme(random.Random(SAMPLE_SEED + 1), "quick") if "P:'" not in c.args]
    random.Random(SAMPLE_SEED + 2).shuffle(extra)
    extra = extra[:260]
    head = []
    for a, b in zip(extra, pool):
        head += [a, b]
    return head + pool[len(extra):]

def rust_src(c):
    """source text of the invocation: tokens separated by spaces (rustc's lexer gives the same tokens back)"""
    parts = []
    for a in c.args[1:]:
        k, t = a[0], a[2:]
        parts.append("(%s)" % t if k == "G" else t)
    # tokens that were adjacent in the generated text must not be glued differently: a space between every token is
    # always safe except that `1.` `5`-style splits never occur (the lexer above is maximal-munch like rustc's)
    return " ".join(parts)

MACRO = {"ubig": "ubig", "ibig": "ibig", "fbig": "fbig", "dbig": "dbig", "rbig": "rbig"}

PRELUDE = r'''
use dashu_macros::*;
#[allow(unused_imports)] use dashu_int::{UBig, IBig};
#[allow(unused_imports)] use dashu_float::{FBig, DBig};
#[allow(unused_imports)] use dashu_ratio::{RBig, Relaxed};
trait Show { fn show(&self) -> String; }
fn hx(i: &IBig) -> String { let (s, m) = i.clone().into_parts(); if s == dashu_base::Sign::Negative && !m.is_zero() { format!("-{:x}", m) } else { format!("{:x}", m) } }
impl Show for UBig { fn show(&self) -> String { format!("{:x}", self) } }
impl Show for IBig { fn show(&self) -> String { hx(self) } }
impl<R: dashu_float::round::Round, const B: dashu_int::Word> Show for FBig<R, B> { fn show(&self) -> String { format!("{} d:{} d:{}", hx(self.repr().significand()), self.repr().exponent(), self.precision()) } }
impl Show for RBig { fn show(&self) -> String { format!("{}/{:x}:R", hx(self.numerator()), self.denominator()) } }
impl Show for Relaxed { fn show(&self) -> String { format!("{}/{:x}:X", hx(self.numerator()), self.denominator()) } }
impl<T: Show> Show for &T { fn show(&self) -> String { (**self).show() } }
'''

def write_parse_path():
    """tell the harness where the macro expansion sources are (core.REPO: /repo, or the scratch copy of a trial)"""
    path = os.path.join(core.HARNESS, "src", "gen", "mac_parse.rs")
    txt = ("// GENERATED by vlib/props/c20.py::pre_build — where the macro expansion sources of the repository under\n"
           "// check live (VERIF_REPO for trials against a scratch copy; /repo otherwise).\n"
           "#[allow(dead_code, unused_imports)]\n"
           "#[path = \"%s/macros/src/parse/mod.rs\"]\npub mod parse;\n" % core.REPO.rstrip("/"))
    if not os.path.exists(path) or open(path).read() != txt:
        open(path, "w").write(txt)


CARGO = '''[package]
name = "c20sample"
version = "0.0.0"
edition = "2021"
[workspace]
[dependencies]
dashu-base = { path = "/repo/base" }
dashu-int = { path = "/repo/integer" }
dashu-float = { path = "/repo/float" }
dashu-ratio = { path = "/repo/rational", features = ["dashu-float"] }
dashu-macros = { path = "/repo/macros" }
dashu = { path = "/repo/." }
[profile.dev]
debug = false
'''

_compiled = {"cases": None}

def _invocation(c):
    """`eplain` / `estatic`: the macro of the `dashu` meta crate (/repo/src/lib.rs), which forwards to the `_embedded` proc-macro"""
    kind = c.op[4:]
    mode = c.args[0]
    name = ("dashu::" if mode.startswith("e") else "") + ("static_" if mode.endswith("static") else "") + MACRO[kind]
    return "%s!(%s)" % (name, rust_src(c))

def _cargo(crate, target):
    env = dict(core.ENV); env["CARGO_TARGET_DIR"] = target
    env.pop("RUSTFLAGS", None)
    p = subprocess.run(["cargo", "build", "--offline", "--message-format=short"], cwd=crate, env=env,
                       stdout=subprocess.PIPE, stderr=subprocess.STDOUT, text=True, timeout=1800)
    return p.returncode, p.stdout

def pre_build():
    """generate, compile and run the sample crate (A) and compile the compile_fail crate (F) with the
    real proc-macros; results go to a file the harness reads (DASHU_MAC_COMPILED)"""
    t0 = time.time()
    write_parse_path()
    tier = "thorough" if ("thorough" in sys.argv or os.environ.get("VERIF_TIER") == "thorough") else "quick"
    nA, nF = (300, 170) if tier == "quick" else (1200, 400)
    # which literals does the model accept?  ask the model driver (it is built before pre_build runs)
    pool = compiled_sets()
    model_exe = os.path.join(core.LEAN, ".lake", "build", "bin", "drive_mac")
    work = tempfile.mkdtemp(prefix="dashu-c20-")
    atexit.register(shutil.rmtree, work, True)
    cf = os.path.join(work, "pool.txt")
    core.write_cases(cf, pool)
    out = subprocess.run([model_exe, cf], stdout=subprocess.PIPE, text=True, timeout=600).stdout
    verdict = core.parse_out(out)
    acc = [c for i, c in enumerate(pool) if verdict.get(i, "").startswith("ok ")]
    rej = [c for i, c in enumerate(pool) if verdict.get(i, "").startswith("reject")]
    # keep the sample varied: at most a third of one macro
    def pick(lst, n):
        seen, res, per = set(), [], {}
        for c in lst:
            k = c.key()
            if k in seen:
                continue
            if per.get(c.op, 0) >= n // 3 + 1:
                continue
            seen.add(k); per[c.op] = per.get(c.op, 0) + 1; res.append(c)
            if len(res) >= n:
                break
        return res
    A = pick(acc, nA); F = pick([c for c in rej if len(c.args) > 1], nF)
    # the same invocations through the macros of the `dashu` meta crate (`_embedded` proc-macros, namespaces `::dashu::…`)
    emb = lambda c: Case(c.op, ["e" + c.args[0]] + c.args[1:])
    A = A + [emb(c) for c in A[::6]][:50]
    F = F + [emb(c) for c in F[::6]][:25]
    target = os.path.join(core.CACHE, "mac-target" if core.REPO == "/repo" else "mac-target-alt")
    results = os.path.join(work, "compiled.txt")
    lines = []
    # ---- crate A: values
    crateA = os.path.join(work, "a"); os.makedirs(os.path.join(crateA, "src"))
    cargo_toml = CARGO.replace('"/repo/', '"%s/' % core.REPO.rstrip("/"))
    open(os.path.join(crateA, "Cargo.toml"), "w").write(cargo_toml)
    body = [PRELUDE, "fn main() {"]
    first_line = PRELUDE.count("\n") + 3
    for i, c in enumerate(A):
        body.append('    println!("A:%d ok {}", (%s).show());' % (i, _invocation(c)))
    body.append("}")
    open(os.path.join(crateA, "src", "main.rs"), "w").write("\n".join(body) + "\n")
    rc, log = _cargo(crateA, target)
    rejected_in_A = {}
    if rc != 0:
        # drop the invocations rustc rejected (they are reported as `reject`) and build the rest once more
        bad = set(int(m.group(1)) for m in re.finditer(r"src/main\.rs:(\d+):\d+: error", log))
        keep = []
        for i, c in enumerate(A):
            if first_line + i in bad:
                rejected_in_A[i] = True
            else:
                keep.append('    println!("A:%d ok {}", (%s).show());' % (i, _invocation(c)))
        if rejected_in_A and len(rejected_in_A) < len(A):
            open(os.path.join(crateA, "src", "main.rs"), "w").write("\n".join([PRELUDE, "fn main() {"] + keep + ["}"]) + "\n")
            rc, log = _cargo(crateA, target)
            lines += ["A:%d reject" % i for i in rejected_in_A]
    if rc == 0:
        exe = os.path.join(target, "debug", "c20sample")
        p = subprocess.run([exe], stdout=subprocess.PIPE, stderr=subprocess.PIPE, text=True, timeout=600)
        lines += [l for l in p.stdout.splitlines() if l.startswith("A:")]
        if p.returncode != 0:
            lines.append("# sample program exited with %d: %s" % (p.returncode, p.stderr.strip().splitlines()[-1:] or ""))
    else:
        bad = set(int(m.group(1)) for m in re.finditer(r"src/main\.rs:(\d+):\d+: error", log))
        for i, c in enumerate(A):
            ln = first_line + i
            lines.append("A:%d %s" % (i, "reject" if ln in bad else "not-run-sample-did-not-compile"))
    # ---- crate F: every line must be a compile error
    crateF = os.path.join(work, "f"); os.makedirs(os.path.join(crateF, "src"))
    open(os.path.join(crateF, "Cargo.toml"), "w").write(cargo_toml)
    body = [PRELUDE, "fn main() {"]
    for i, c in enumerate(F):
        body.append("    let _ = %s;" % _invocation(c))
    body.append("}")
    open(os.path.join(crateF, "src", "main.rs"), "w").write("\n".join(body) + "\n")
    rc, log = _cargo(crateF, target)
    bad = set(int(m.group(1)) for m in re.finditer(r"src/main\.rs:(\d+):\d+: error", log))
    for i, c in enumerate(F):
        ln = first_line + i
        lines.append("F:%d %s" % (i, "reject" if ln in bad else "ok accepted"))
    open(results, "w").write("\n".join(lines) + "\n")
    core.ENV["DASHU_MAC_COMPILED"] = results
    _compiled["cases"] = ([Case("mac.compiled", [str(i), c.op[4:]] + c.args) for i, c in enumerate(A)] +
                          [Case("mac.cfail", [str(i), c.op[4:]] + c.args) for i, c in enumerate(F)])
    return {"sample_invocations": len(A), "compile_fail_invocations": len(F), "sample_compiled": rc == 0 or bool(bad),
            "seconds": round(time.time() - t0, 1)}


def with_embedded(rng, cases, p):
    """the same invocation through the `_embedded` entry point (what the macros of the `dashu` meta crate, /repo/src/lib.rs,
    call): the `if embedded` arms of every generator (namespaces `::dashu::integer` …) — mode `eplain` / `estatic`"""
    for c in cases:
        yield c
        if rng.random() < p:
            yield Case(c.op, ["e" + c.args[0]] + c.args[1:])


def generate(rng, tier):
    if _compiled["cases"]:
        yield from _compiled["cases"]
    yield from with_embedded(rng, gen_int(rng, tier), 0.2)
    yield from with_embedded(rng, gen_float(rng, tier), 0.2)
    yield from with_embedded(rng, gen_ratio(rng, tier), 0.2)
    yield from with_embedded(rng, gen_extreme(rng, tier), 0.05)
    yield from with_embedded(rng, gen_magnitudes(rng, tier), 0.15)
