"""C04 — rational arithmetic exact, RBig in lowest terms, Relaxed = RBig (DESIGN §8 C04)."""
from fractions import Fraction
from math import gcd
from vlib.core import Case
from vlib.gens import hx, nat_pattern, PATTERNS, signed

GROUP = "ratio"
LEAN_PROPS = "Dashu.Props.C04"
LEAN_AUDIT = "Dashu.Audit.C04"
# compositions with other groups' proved files, kept apart from the property's own theorems
GEN_PROPS = ["Dashu.Props.C04Link"]
GEN_AUDIT = ["Dashu.Audit.C04Link"]
JOBS = 12

REFINED = ["Repr::reduce", "Repr::reduce_with_hint", "Repr::reduce2",
           "RBig::from_parts / from_parts_signed / from_parts_const (const Euclid loop)", "Relaxed::from_parts / from_parts_signed / from_parts_const",
           "impl_add_or_sub_with_rbig (g = 1 shortcut and gcd-hint branch)", "impl_addsub_with_relaxed",
           "impl_addsub_int_with_rbig / impl_int_sub_rbig (+ Relaxed)", "impl_mul_with_rbig (cross gcd)",
           "impl_mul_with_relaxed", "impl_mul_int_with_rbig (+ Relaxed)", "impl_div_with_rbig / _relaxed",
           "impl_rbig_div_ubig / _ibig / impl_ubig_or_ibig_div_rbig (+ Relaxed)", "impl_rem_with_rbig / _relaxed",
           "impl_euclid_div / impl_euclid_rem_* / impl_euclid_divrem_*", "Repr::sqr / cubic / pow",
           "Repr::neg / abs / signum / Mul<Sign>", "Inverse for Repr", "Repr::fract / split_at_point / trunc / floor / ceil / round",
           "RBig::relax / Relaxed::canonicalize", "register programs (run): every register ever produced"]
FRONTIER = ["dashu-int kernels used by the rational layer are taken at their contracts (gcd: the contract is proved equal to the mirrored integer gcd of C12 for every word size — Props/C04Link gcd_contract_is_proved_kernel): Gcd::gcd (= Nat.gcd, panics on (0,0)), "
            "IBig/UBig *, +, -, / (truncated), %, div_euclid/rem_euclid, trailing_zeros, >>, pow (properties C01, C02, C09, C12)",
]
RULE = ("operands n/d built from size classes {tiny, 1 word, 2 words (inline boundary), 3-6 words, 10-40 words} x bit patterns "
        "x signs, then related to each other the way the code branches: denominators coprime (g = 1 shortcut) or sharing a "
        "factor g (hint branch) with the numerator sum cancelling part / all / none of g, cross factors gcd(a,d), gcd(b,c) "
        "for mul/div, common powers of two (Relaxed::reduce2), zero numerators, integer values, equal / negated / reciprocal "
        "operands, zero divisors; every binary op of {add,sub,mul,div,rem,remeuclid,diveuclid,divremeuclid}, unary "
        "{neg,abs,inv,sqr,cubic,pow,signum,mulsign,fract,split,trunc,floor,ceil,round,relax,canon}, mixed {+,-,*,/} with UBig/IBig on "
        "either side, constructors, for RBig and Relaxed, all ownership/assign call forms; register programs of 1-40 steps "
        "feeding results back (values steered with exact fractions so that most steps are defined). Non-trivial := a program "
        "with >= 4 steps or an operand with a component of >= 3 words; distinct := distinct case lines. Measured on the quick "
        "tier (seed 20260929): RBig add/sub reach the g = 1 shortcut 355x and the hint branch 172x (remaining common factor "
        "1: 111, a proper divisor of g: 25, all of g: 36); RBig mul has cross gcds (gcd(a,d) > 1, gcd(b,c) > 1) in all four "
        "combinations (120/56/48/24); programs: 376 of 1-3 steps, 294 of 4-10, 271 of 11-25, 259 of 26-40.")
EXPLANATION = ("Theorems (all integers, no size bound): for reduced operands every RBig operation returns a reduced pair whose "
               "value in Lean's Rat equals the exact result (gcd-hint addition, cross-cancelling multiplication/division, "
               "nearest and Euclidean remainders, powers, inverse, mixed integer forms), division by zero is exactly the "
               "DivideByZero panic; every Relaxed operation returns the same value and keeps 'not both even'; reduce2 strips "
               "exactly the common power of two; history theorem: every register of every finite program satisfies its "
               "type's invariant and equals the value-level interpretation. The model is tied to /repo by differential "
               "execution printing numerator()/denominator() as stored after every step.")
ASSUMPTIONS = ["dashu-int Gcd::gcd, *, +, -, /, %, div_euclid, rem_euclid, trailing_zeros, >>, pow meet their contracts (C01, C02, C09, C12)"]
THEOREMS = []  # filled from the audit (every theorem printed there is counted)
READY = True


def nontrivial(c):
    if c.op == "prog":
        return len(c.args) - c.args.index(";") - 1 >= 4 if ";" in c.args else False
    for a in c.args:
        if a.startswith("q:"):
            n, d = a.split(":")[1].split("/")
            if len(n.lstrip("-")) > 32 or len(d) > 32:
                return True
    return False


# ---------------------------------------------------------------- operand generators

def sizes(tier):
    s = [0, 1, 1, 1, 2, 2, 3, 3, 4, 6]
    s += [10, 24, 40] if tier == "quick" else [10, 24, 33, 64, 100, 200]
    return s


def nat(rng, tier, small_bias=0.35):
    """a natural number: tiny with probability small_bias, otherwise structured multi-word"""
    r = rng.random()
    if r < small_bias:
        return rng.choice([0, 1, 2, 3, 4, 5, 6, 7, 8, 9, 10, 12, 15, 16, 30, 60, 64, 97, 255, 256, 1000, 1 << 31, (1 << 32) - 1])
    if r < small_bias + 0.1:
        return rng.getrandbits(rng.choice([8, 16, 31, 32, 33, 63, 64]))
    nw = rng.choice(sizes(tier))
    return nat_pattern(rng, nw, rng.choice(PATTERNS))


def pos(rng, tier, small_bias=0.35):
    v = nat(rng, tier, small_bias)
    return v if v > 0 else 1


def frac(rng, tier):
    """raw parts (n, d), d >= 1, with shared / coprime / power-of-two factors, zero, integers"""
    n = nat(rng, tier)
    d = pos(rng, tier)
    r = rng.random()
    if r < 0.08:
        n = 0
    elif r < 0.16:
        d = 1
    elif r < 0.22:
        n = d * nat(rng, tier, 0.8)            # integer-valued, not stored as such
    elif r < 0.40:
        g = pos(rng, tier, 0.6)                # shared factor
        n, d = n * g, d * g
    elif r < 0.52:
        k = rng.choice([1, 2, 3, 7, 31, 63, 64, 65, 127, 128, 200])
        n, d = n << k, d << rng.choice([0, 1, k, k + 1])   # powers of two (reduce2)
    elif r < 0.58:
        n, d = n | 1, d << rng.choice([1, 5, 64, 130])     # odd / even
    elif r < 0.64:
        g = gcd(n, d) or 1
        n, d = n // g, d // g                  # already coprime
    return signed(rng, n), d


def q(n, d, k):
    return "q:%s/%x:%s" % (hx(n), d, k)


def related_pair(rng, tier):
    """two fractions related the way add/mul/div branch"""
    a, b = frac(rng, tier)
    c, d = frac(rng, tier)
    r = rng.random()
    if r < 0.10:
        c, d = a, b                                           # equal
    elif r < 0.18:
        c, d = -a, b                                          # negated: sum 0
    elif r < 0.26 and a != 0:
        c, d = (b if a > 0 else -b), abs(a)                   # reciprocal: product 1
    elif r < 0.50:
        g = pos(rng, tier, 0.5)                               # denominators share g
        b, d = b * g, d * g
        if rng.random() < 0.5 and g > 1:
            # make the numerator sum cancel (part of) g: a/b + c/d with a*d' + c*b' ≡ 0 mod g'
            bp, dp = b // gcd(b, d), d // gcd(b, d)
            gg = gcd(b, d)
            gp = gcd(gg, rng.choice([gg, 2, 3, 4, 6, 12, 1 << 64]))
            if gcd(bp, gp) == 1 and gp > 1:
                # choose c ≡ -a*d'*inv(b') mod gp
                c0 = (-a * dp * pow(bp, -1, gp)) % gp
                c = c0 + gp * rng.randrange(0, 1 << rng.choice([1, 8, 64, 128]))
    elif r < 0.62:
        g = pos(rng, tier, 0.5)                               # cross factor a~d
        a, d = a * g, d * g
    elif r < 0.74:
        g = pos(rng, tier, 0.5)                               # cross factor b~c
        b, c = b * g, c * g
    elif r < 0.80:
        c = 0
    elif r < 0.86:
        # near-tie for rem: x / y close to k + 1/2
        k = rng.randrange(-5, 6)
        c, d = 2 * a, b * (2 * k + 1)
        if d < 0:
            c, d = -c, -d
    return (a, b), (c, d)


BIN = ["add", "sub", "mul", "div", "rem", "remeuclid"]
UN = ["neg", "abs", "inv", "sqr", "cubic", "signum", "fract"]
INTOPS = ["add", "sub", "mul", "div"]


def zlit(rng, tier, v=None):
    if v is None:
        v = signed(rng, nat(rng, tier, 0.6))
    if v >= 0 and rng.random() < 0.5:
        return "u:%x" % v, v
    return "i:%s" % hx(v), v


# ---------------------------------------------------------------- exact simulation (steering only)

def rnd_away(x):
    fl = x.numerator // x.denominator
    fr = x - fl
    if x >= 0:
        return fl + (1 if fr >= Fraction(1, 2) else 0)
    return fl + (1 if fr > Fraction(1, 2) else 0)


def sim_bin(op, x, y):
    if op == "add":
        return x + y
    if op == "sub":
        return x - y
    if op == "mul":
        return x * y
    if y == 0:
        return None
    if op == "div":
        return x / y
    if op == "rem":
        return x - y * rnd_away(x / y)
    if op == "remeuclid":
        qq = (x / abs(y)).__floor__()
        return x - abs(y) * qq
    raise ValueError(op)


def bits(x):
    return max(abs(x.numerator).bit_length(), x.denominator.bit_length())


def gen_prog(rng, tier):
    kind = rng.choice("RRRX")
    ninit = rng.randrange(1, 4)
    regs, toks = [], []
    for _ in range(ninit):
        n, d = frac(rng, "quick")
        if bits(Fraction(n, d)) > 700:
            n, d = signed(rng, rng.getrandbits(70)), rng.getrandbits(66) | 1
        regs.append((Fraction(n, d), kind))
        toks.append(q(n, d, kind))
    steps = []
    nsteps = rng.choice([1, 2, 3, 5, 8, 13, 20, 30, 40])
    cap = 6000 if tier == "quick" else 40000
    if kind == "X":
        cap //= 2
    for _ in range(nsteps):
        same = lambda k: [i for i, (_, kk) in enumerate(regs) if kk == k]
        i = rng.randrange(len(regs))
        x, k = regs[i]
        big = bits(x) > cap
        r = rng.random()
        if big:
            # shrink: remainders, fractional part, sign
            choice = rng.choice(["fract", "signum", "rem1", "canon"])
            if choice == "rem1":
                js = [j for j in same(k) if regs[j][0] != 0 and bits(regs[j][0]) < 200]
                if js:
                    j = rng.choice(js)
                    steps.append("rem,%d,%d" % (i, j)); regs.append((sim_bin("rem", x, regs[j][0]), k)); continue
                choice = "fract"
            if choice == "canon":
                steps.append("canon,%d" % i); regs.append((x, "R")); continue
            if choice == "fract":
                t = abs(x).__floor__() * (1 if x >= 0 else -1)
                steps.append("fract,%d" % i); regs.append((x - t, k)); continue
            steps.append("signum,%d" % i); regs.append((Fraction((x > 0) - (x < 0)), k)); continue
        if r < 0.55:
            op = rng.choice(BIN)
            j = rng.choice(same(k)) if rng.random() < 0.8 else i
            y = regs[j][0]
            v = sim_bin(op, x, y)
            if v is None and rng.random() < 0.97:
                op = rng.choice(["add", "sub", "mul"]); v = sim_bin(op, x, y)
            steps.append("%s,%d,%d" % (op, i, j))
            if v is None:
                break
            regs.append((v, k))
        elif r < 0.75:
            op = rng.choice(UN)
            if op == "inv" and x == 0:
                if rng.random() < 0.9:
                    op = "neg"
                else:
                    steps.append("inv,%d" % i); break        # the model stops here (required panic)
            if op in ("sqr", "cubic") and bits(x) * 3 > cap:
                op = "abs"
            steps.append("%s,%d" % (op, i))
            if op == "neg":
                v = -x
            elif op == "abs":
                v = abs(x)
            elif op == "inv":
                v = 1 / x
            elif op == "sqr":
                v = x * x
            elif op == "cubic":
                v = x * x * x
            elif op == "signum":
                v = Fraction((x > 0) - (x < 0))
            else:
                t = abs(x).__floor__() * (1 if x >= 0 else -1)
                v = x - t
            regs.append((v, k))
        elif r < 0.80:
            n = rng.choice([0, 1, 2, 3, 4, 5, 7])
            if bits(x) * max(n, 1) > cap:
                n = rng.choice([0, 1])
            steps.append("pow,%d,%d" % (i, n)); regs.append((x ** n, k))
        elif r < 0.83:
            s = rng.choice("+-")
            steps.append("mulsign,%d,%s" % (i, s)); regs.append((x if s == "+" else -x, k))
        elif r < 0.88:
            if k == "R":
                steps.append("relax,%d" % i); regs.append((x, "X"))
            else:
                steps.append("canon,%d" % i); regs.append((x, "R"))
        else:
            op = rng.choice(INTOPS)
            # integers related to the operand: multiples of the denominator / divisors of the numerator
            rr = rng.random()
            if rr < 0.3:
                zv = x.denominator * rng.choice([1, -1, 2, 3])
            elif rr < 0.5:
                zv = x.numerator * rng.choice([1, -1, 2])
            elif rr < 0.6:
                zv = 0
            else:
                zv = signed(rng, nat(rng, "quick", 0.7))
            lit, zv = zlit(rng, tier, zv)
            if rng.random() < 0.5:
                if op == "div" and zv == 0 and rng.random() < 0.9:
                    op = "mul"
                steps.append("%sz,%d,%s" % (op, i, lit))
                if op == "div" and zv == 0:
                    break
                v = {"add": x + zv, "sub": x - zv, "mul": x * zv}.get(op)
                regs.append((x / zv if op == "div" else v, k))
            else:
                if op == "div" and x == 0 and rng.random() < 0.9:
                    op = "sub"
                steps.append("z%s,%s,%d" % (op, lit, i))
                if op == "div" and x == 0:
                    break
                v = {"add": zv + x, "sub": zv - x, "mul": zv * x}.get(op)
                regs.append((zv / x if op == "div" else v, k))
    return Case("prog", toks + [";"] + steps)


def generate(rng, tier):
    quick = tier == "quick"
    # ---- binary ops on related pairs
    for _ in range(3000 if quick else 90000):
        (a, b), (c, d) = related_pair(rng, tier)
        k = rng.choice("RRX")
        op = rng.choice(BIN + ["diveuclid", "divremeuclid"])
        yield Case("q." + op, [q(a, b, k), q(c, d, k)])
    for _ in range(400 if quick else 12000):
        (a, b), (c, d) = related_pair(rng, tier)
        yield Case("rx." + rng.choice(BIN), [q(a, b, "R"), q(c, d, "R")])
    # ---- unary
    for _ in range(1000 if quick else 25000):
        a, b = frac(rng, tier)
        k = rng.choice("RX")
        op = rng.choice(UN + ["relax", "canon", "split", "trunc", "floor", "ceil", "round", "pow", "mulsign"])
        if op in ("trunc", "floor", "ceil", "round", "split", "fract") and rng.random() < 0.4:
            # exact halves / integers / just off
            b = rng.choice([1, 2, 2, 4])
            a = signed(rng, nat(rng, tier, 0.7))
        if op == "pow":
            n = rng.choice([0, 1, 2, 3, 4, 5, 8, 17])
            if max(abs(a).bit_length(), b.bit_length()) * n > (20000 if quick else 200000):
                n = 2
            yield Case("q.pow", [q(a, b, k), "d:%d" % n])
        elif op == "mulsign":
            yield Case("q.mulsign", [q(a, b, k), rng.choice("+-")])
        else:
            yield Case("q." + op, [q(a, b, k)])
    # ---- mixed with integers
    for _ in range(1000 if quick else 25000):
        a, b = frac(rng, tier)
        k = rng.choice("RX")
        op = rng.choice(INTOPS)
        r = rng.random()
        if r < 0.25:
            zv = b * rng.choice([1, -1, 2, 6])
        elif r < 0.45:
            zv = a * rng.choice([1, -1, 2]) if a else 0
        elif r < 0.55:
            zv = 0
        elif r < 0.7:
            g = gcd(abs(a), b) or 1
            zv = signed(rng, (abs(a) // g) * pos(rng, tier, 0.8))
        else:
            zv = None
        lit, zv = zlit(rng, tier, zv)
        if rng.random() < 0.5:
            yield Case("q.%sz" % op, [q(a, b, k), lit])
        else:
            yield Case("q.z%s" % op, [lit, q(a, b, k)])
    # ---- constructors
    for _ in range(400 if quick else 10000):
        a, b = frac(rng, tier)
        k = rng.choice("RX")
        r = rng.random()
        if r < 0.4:
            if rng.random() < 0.05:
                b = 0
            yield Case("q.fromparts", [hx(a), "%x" % b, k])
        elif r < 0.7:
            bb = signed(rng, b) if rng.random() > 0.05 else 0
            yield Case("q.frompartssigned", [hx(a), hx(bb), k])
        else:
            n = abs(a) % (1 << 128); d = b % (1 << 128)
            if rng.random() < 0.5:
                g = rng.getrandbits(rng.choice([1, 8, 30, 60]))or 1
                n = rng.getrandbits(rng.choice([3, 20, 64])) * g % (1 << 128)
                d = rng.getrandbits(rng.choice([3, 20, 64])) * g % (1 << 128)
            if rng.random() < 0.05:
                d = 0
            yield Case("q.frompartsconst", [rng.choice("+-"), "%x" % n, "%x" % d, k])
    # ---- register programs
    for _ in range(1200 if quick else 40000):
        yield gen_prog(rng, tier)


LEVEL_TEXT = ("Machine-checked Lean 4 theorems, for all integers (no size bound) and all finite operation sequences: every RBig "
              "operation of rational/src/{add,mul,div,sign,round,rbig}.rs, modelled macro body by macro body over exact integer "
              "arithmetic, returns a pair with positive denominator coprime to the numerator whose value in Lean's Rat equals the "
              "exact result (incl. the gcd-hint reduction of addition and the cross-gcd cancellation of mul/div), panics with "
              "DivideByZero exactly on zero divisors, Relaxed operations return the same values and reduce2 strips exactly the "
              "common power of two; history theorem over register programs. The hand-written model is tied to /repo on every run "
              "by differential execution (numerator()/denominator() as stored, all ownership/assign call forms, programs of "
              "1-40 steps feeding results back).")
LEVEL_NOTE = ("Trusted: Lean kernel; axioms propext/Classical.choice/Quot.sound; the correspondence harness and generators "
              "(sampling) for the tie model<->code; dashu-int kernels (gcd, mul, div, shifts, trailing_zeros) are taken at their "
              "contracts here and are the subject of C01/C02/C09/C12.")
TECHNIQUE = "Lean 4 refinement proofs over Int/Nat gcd theory (Mathlib IsCoprime) + differential correspondence model vs real code"
