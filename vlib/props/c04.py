"""C04 — rational arithmetic exact, RBig in lowest terms, Relaxed = RBig (DESIGN §8 C04)."""
from fractions import Fraction
from math import gcd
from vlib.core import Case
from vlib.gens import hx, nat_pattern, PATTERNS, signed

GROUP = "ratio"
LEAN_PROPS = "Dashu.Props.C04"
LEAN_AUDIT = "Dashu.Audit.C04"
# compositions with other groups' proved files, kept apart from the property's own theorems
GEN_PROPS = ["Dashu.Props.C04Link", "Dashu.Props.C04Gen", "Dashu.Props.C04Pow"]
GEN_AUDIT = ["Dashu.Audit.C04Link", "Dashu.Audit.C04Gen", "Dashu.Audit.C04Pow"]
# Tie A: lean/Dashu/Gen/RatOps.lean (macro bodies of rational/src/{add,mul,div}.rs + invocation table, vlib/extract_ratops.py) and
# lean/Dashu/Gen/RatFns.lean (Repr-level fn bodies of repr/round/div/sign/mul/rbig.rs, vlib/extract_ratfns.py) are regenerated
# from /repo on every run; Props/C04Gen proves the model functions equal to them
USES_GEN = True
JOBS = 12

REFINED = ["Repr::reduce", "Repr::reduce_with_hint", "Repr::reduce2",
           "RBig::from_parts / from_parts_signed / from_parts_const (const Euclid loop)", "Relaxed::from_parts / from_parts_signed / from_parts_const",
           "impl_add_or_sub_with_rbig (g = 1 shortcut and gcd-hint branch)", "impl_addsub_with_relaxed",
           "impl_addsub_int_with_rbig / impl_int_sub_rbig (+ Relaxed)", "impl_mul_with_rbig (cross gcd)",
           "impl_mul_with_relaxed", "impl_mul_int_with_rbig (+ Relaxed)", "impl_div_with_rbig / _relaxed",
           "impl_rbig_div_ubig / _ibig / impl_ubig_or_ibig_div_rbig (+ Relaxed)", "impl_rem_with_rbig / _relaxed",
           "impl_euclid_div / impl_euclid_rem_* / impl_euclid_divrem_*", "Repr::sqr / cubic / pow",
           "Repr::neg / abs / signum / Mul<Sign>", "Inverse for Repr", "Repr::fract / split_at_point / trunc / floor / ceil / round",
           "RBig::relax / Relaxed::canonicalize", "register programs (run): every register ever produced",
           "TIE A (round 5): all 24 operator macro bodies of rational/src/{add,mul,div}.rs and the 48 impl_binop_with_macro!/impl_binop_with_int! "
           "invocations are REGENERATED from /repo on every run (vlib/extract_ratops.py -> lean/Dashu/Gen/RatOps.lean) and Props/C04Gen proves each "
           "body equal to the model function the driver executes, for all inputs incl. zero denominators and panics "
           "(binary_ops_regenerated, int_right_ops_regenerated, int_left_ops_regenerated, euclid_ops_regenerated, invocations_regenerated); "
           "likewise the 20 Repr-level function bodies: repr.rs reduce / reduce_with_hint / reduce2, round.rs split_at_point / ceil / floor / trunc / "
           "fract / round, div.rs Inverse::inv, sign.rs neg / abs / Mul<Sign>, mul.rs sqr / cubic / pow, rbig.rs from_parts / from_parts_signed / "
           "from_parts_const of both types — 22 bodies, incl. the const Euclid `while` loop of RBig::from_parts_const regenerated as "
           "G.while_dec measure cond step and proved equal to the model's constGcdLoop (vlib/extract_ratfns.py -> lean/Dashu/Gen/RatFns.lean; "
           "reductions_regenerated, rounding_regenerated, unary_regenerated, constructors_regenerated, const_constructors_regenerated, "
           "const_gcd_loop_regenerated)",
           "IBig::pow sign rule (negative iff negative base and odd exponent) + UBig::pow shortcuts (exp 0, base 0, base 1): ipowK / upowK, proved = ^",
           "RBig/Relaxed is_zero / is_one (Relaxed: numerator == denominator) / is_int / sign / into_parts / clone_from / ZERO ONE NEG_ONE default (driven; predicates proved)",
           "round 6: Repr::pow WITH the allocation guards of IBig::pow (numerator, first) / UBig::pow (denominator): exp.checked_mul(shift), the "
           "Buffer::allocate of the final << and of pow_word_base / pow_dword_base's result buffer (Model/Ratio/PowGuard.powChecked, driven as qp.pow for "
           "every usize exponent on components ±2^s, odd word / double-word bases at their MAX_CAPACITY boundary); Props/C04Pow: the guard IS C01's "
           "powAllocPanics (pow_guard_is_proved_class), powChecked IS ibigPowGuarded / ubigPowGuarded composed by value, same panic in the same order "
           "(pow_checked_over_proved_kernels), result reduced and exact or the documented allocation panic, nothing else (rbig_pow_checked_exact, "
           "pow_checked_cases), on the checked_mul branch the exact power has more than 2^64 bits (pow_shift_overflow_panics); register programs with the guarded pow (runG, driven as qp.prog): a guarded run is the plain run or the plain run of a prefix followed by the "
           "allocation panic of a pow step, history invariant and values carry over (runG_cases, history_invariant_guarded, history_values_guarded); "
           "Relaxed likewise and Relaxed = RBig whenever both return (relaxed_pow_checked_exact, relaxed_pow_checked_equals_rbig); the panic is never spurious: on EVERY branch of "
           "the guard (64-bit words) a component of the exact power has at least 2^62 bits (pow_panics_only_beyond_memory, rbig_pow_exact_or_beyond_memory)",
           "round 7 (Props/C04Pow section 7): BELOW memory the guard of pow is silent (64-bit words) — components of the exact power under 2^62 bits => "
           "pow returns pow x n, no panic alternative (pow_checked_ok_below_memory, operand-size criterion a*n <= 2^62: pow_checked_ok_of_bits, "
           "rbig_pow_exact_below_memory); the guarded history runG (op qp.prog, the real code) IS the unguarded run (older op prog) whenever every pow step of "
           "the plain run stays below 2^62 bits (runG_eq_run_below_memory) and then stops only with DivideByZero (history_values_guarded_below_memory); "
           "Relaxed = RBig for pow WITHOUT the 'whenever both return' hypothesis: below memory both return, same value, canonicalize(Relaxed result) = stored RBig pair "
           "(relaxed_pow_equals_rbig_below_memory; helper reduced_components_le in Proofs/Ratio/PowSmall)",
           "round 8 (Props/C04Pow section 8): Relaxed = RBig over GUARDED histories (runG, op qp.prog, the real code): a guarded run that does not stop with "
           "the allocation panic IS the plain run, every word size (runG_eq_run_of_no_alloc_panic); two register files denoting the same numbers, neither guarded "
           "run stopping with the allocation panic => same stop (done / DivideByZero), same value in every register, canonicalize(Relaxed register) = stored RBig pair "
           "(history_relaxed_equals_rbig_guarded, history_canonicalize_equals_rbig_guarded); below 2^62 bits per pow result the no-panic hypothesis is discharged "
           "(history_relaxed_equals_rbig_guarded_below_memory)",
           "histories: Relaxed = RBig over whole programs (history_relaxed_equals_rbig, history_canonicalize_equals_rbig), reduce2 invariant over "
           "Relaxed-only histories (history_relaxed_reduce2_invariant)"]
FRONTIER = ["dashu-int kernels used by the rational layer are taken at their contracts, and EVERY one of them is now linked by theorem (Props/C04Link, "
            "import of the owning property's Props module, every word size) to the mirrored and proved integer kernel: Gcd::gcd = C12's gcd "
            "(gcd_contract_is_proved_kernel, reduce_over_proved_gcd); IBig *, +, - = C01 (ring_contracts_are_proved_kernels, add_int_over_proved_kernels, "
            "mul_num_over_proved_kernels); UBig::pow / IBig::pow incl. the sign rule = C01 (pow_contracts_are_proved_kernels); truncated / and %, div_euclid, "
            "rem_euclid with their zero-divisor panics = C02 (div_contracts_are_proved_kernels); trailing_zeros and >> = C09 "
            "(bit_contracts_are_proved_kernels). What stays trusted is only that composition is by value (SRepr.ofInt / ofNat wrappers), not a re-execution of "
            "the word-level kernels inside the rational driver (that would make the driver quadratically slower without adding a statement)",
            "pow results between ~10^6 bits and the MAX_CAPACITY guard (a component 2^s with 10^6 < exp*s < 2^64 - 64, or an odd part > 1 with an exponent "
            "below its up-front buffer guard): powChecked states the exact power and Props/C04Pow covers these inputs, but neither side can be EXECUTED "
            "(the real code would really allocate up to 2^61 bytes / compute for hours; the outcome depends on the allocator) — kept, same reason as C01's entry; "
            "the older `prog` op still runs the unguarded pow (its generator keeps exponents small); `qp.prog` runs the guarded one — round 7: proved to be the "
            "same function on every program whose pow results stay below 2^62 bits (runG_eq_run_below_memory), so `prog` is no longer a separate trusted model there; round 8: the 'Relaxed = RBig' history clause is now also stated for the guarded run "
            "(history_relaxed_equals_rbig_guarded) — what stays open: when exactly ONE of the two guarded runs raises the allocation panic (stored pairs 9/3 vs 3/1 can differ "
            "in whether the guard fires, only beyond 2^62 bits) the theorem says nothing about the registers after that step",
]
RULE = ("operands n/d built from size classes {tiny, 1 word, 2 words (inline boundary), 3-6 words, 10-40 words} x bit patterns "
        "x signs, then related to each other the way the code branches: denominators coprime (g = 1 shortcut) or sharing a "
        "factor g (hint branch) with the numerator sum cancelling part / all / none of g, cross factors gcd(a,d), gcd(b,c) "
        "for mul/div, common powers of two (Relaxed::reduce2), zero numerators, integer values, equal / negated / reciprocal "
        "operands, zero divisors; every binary op of {add,sub,mul,div,rem,remeuclid,diveuclid,divremeuclid}, unary "
        "{neg,abs,inv,sqr,cubic,pow,signum,mulsign,fract,split,trunc,floor,ceil,round,relax,canon}, mixed {+,-,*,/} with UBig/IBig on "
        "either side, constructors, for RBig and Relaxed, all ownership/assign call forms; register programs of 1-40 steps "
        "feeding results back (values steered with exact fractions so that most steps are defined); round 5: pow with the usize exponent at every "
        "machine boundary (0, 1, W-1, W, W+1, 2W, 2^31, 2^32-1, 2^32, 2^32+k, 2^63±k, MAX-k, k ≤ 130) on the bases 0, 1, -1 of both types, alone and inside "
        "programs whose later steps see the parity-dependent sign; pow of small bases with exponents across every shortcut of integer pow; "
        "qp.preds (sign/is_zero/is_one/is_int/into_parts/clone_from, values ±1 stored as n/n, zero numerators, integers, zero denominators) and qp.consts; "
        "round 6 (qp.pow, Repr::pow with the integer allocation guards): a component ±2^s (s in 25 fixed shifts of every representation class, thorough +60 "
        "random) as numerator over 1 / an odd, or as denominator under ±1 / an odd, with exp*s on both sides of 2^64 (exp = ceil(2^64/s) + j: a wrapped product "
        "would be small), at the MAX_CAPACITY boundary of the final shift (exp*s >= 64*MAX_CAPACITY), at usize::MAX - k; odd word / double-word components at "
        "their result-buffer boundary wexp*MAX_CAPACITY (+1, +wexp) / MAX_CAPACITY/2 + 1; all extreme usize exponents; the cheap neighbours (exponents 0..5, "
        "wexp, 2*wexp ± 1) of the same operands; Relaxed pairs with a common odd factor (9/3, 15/5, …: the guard sees the stored components); qp.prog: register programs whose chain register stays "
        "±2^s / ±1/2^s under neg/inv/abs/sqr/cubic/mulsign, interleaved arithmetic, then pow with the exponent placed relative to the CURRENT shift (both sides of "
        "exp*s = 2^64, the MAX_CAPACITY boundary, usize::MAX-k, small), a second guarded pow on a cheap result, steps after a panic that must not execute; inputs on which the code would really allocate are filtered by an outcome oracle (upow_outcome); "
        "E2: for k of EVERY bit length 1..320 (thorough: each length x3; quick: the word edges + 30 sampled lengths): exact and just-off ties of % and "
        "round/floor/ceil/trunc at ±(k + 1/2), rem_euclid at multiples ±1, components 2^e, 2^e ± 1, common powers of two of every count (reduce2 shifts "
        "across word boundaries), gcd hint g = k with the numerator sum cancelling all/part/none of it, cross factors k for mul/div and the mixed integer "
        "forms; from_parts_const at the DoubleWord boundaries (0, 1, 2^63, 2^64 ± 1, 2^127, 2^128 - 1 - k, common factors that survive in u128). "
        "Non-trivial := a program "
        "with >= 4 steps or an operand with a component of >= 3 words; distinct := distinct case lines. Measured on the quick "
        "tier (seed 20260929): RBig add/sub reach the g = 1 shortcut 355x and the hint branch 172x (remaining common factor "
        "1: 111, a proper divisor of g: 25, all of g: 36); RBig mul has cross gcds (gcd(a,d) > 1, gcd(b,c) > 1) in all four "
        "combinations (120/56/48/24); programs: 376 of 1-3 steps, 294 of 4-10, 271 of 11-25, 259 of 26-40.")
EXPLANATION = ("Theorems (all integers, no size bound): for reduced operands every RBig operation returns a reduced pair whose "
               "value in Lean's Rat equals the exact result (gcd-hint addition, cross-cancelling multiplication/division, "
               "nearest and Euclidean remainders, powers, inverse, mixed integer forms), division by zero is exactly the "
               "DivideByZero panic; every Relaxed operation returns the same value and keeps 'not both even'; reduce2 strips "
               "exactly the common power of two; history theorem: every register of every finite program satisfies its "
               "type's invariant and equals the value-level interpretation; the same program on Relaxed and on RBig registers denoting "
               "the same numbers stops the same way with the same values, canonicalize of each Relaxed register is the stored RBig pair. "
               "The model is tied to /repo twice: (A) every operator macro body of rational/src/{add,mul,div}.rs and every Repr-level function "
               "body (reduce*, rounding, inverse, sign, powers, constructors) is regenerated from the "
               "source on every run and proved equal to the model function (a source edit breaks the theorem build), (B) differential "
               "execution printing numerator()/denominator() as stored after every step.")
ASSUMPTIONS = ["dashu-int Gcd::gcd, *, +, -, /, %, div_euclid, rem_euclid, trailing_zeros, >>, pow meet their contracts (C01, C02, C09, C12) — each contract is "
               "proved equal to the owning property's mirrored kernel in Props/C04Link"]
THEOREMS = []  # filled from the audit (every theorem printed there is counted)
READY = True


def nontrivial(c):
    if c.op in ("prog", "qp.prog"):
        return len(c.args) - c.args.index(";") - 1 >= 4 if ";" in c.args else False
    for a in c.args:
        if a.startswith("q:"):
            n, d = a.split(":")[1].split("/")
            if len(n.lstrip("-")) > 32 or len(d) > 32:
                return True
    return False


# ---------------------------------------------------------------- operand generators

def sizes(tier):
    s = [0, 1, 1, 1, 2, 2, 3, 3, 4, 6]
    s += [10, 24, 40] if tier == "quick" else [10, 24, 33, 64, 100, 200]
    return s


def nat(rng, tier, small_bias=0.35):
    """a natural number: tiny with probability small_bias, otherwise structured multi-word"""
    r = rng.random()
    if r < small_bias:
        return rng.choice([0, 1, 2, 3, 4, 5, 6, 7, 8, 9, 10, 12, 15, 16, 30, 60, 64, 97, 255, 256, 1000, 1 << 31, (1 << 32) - 1])
    if r < small_bias + 0.1:
        return rng.getrandbits(rng.choice([8, 16, 31, 32, 33, 63, 64]))
    nw = rng.choice(sizes(tier))
    return nat_pattern(rng, nw, rng.choice(PATTERNS))


def pos(rng, tier, small_bias=0.35):
    v = nat(rng, tier, small_bias)
    return v if v > 0 else 1


def frac(rng, tier):
    """raw parts (n, d), d >= 1, with shared / coprime / power-of-two factors, zero, integers"""
    n = nat(rng, tier)
    d = pos(rng, tier)
    r = rng.random()
    if r < 0.08:
        n = 0
    elif r < 0.16:
        d = 1
    elif r < 0.22:
        n = d * nat(rng, tier, 0.8)            # integer-valued, not stored as such
    elif r < 0.40:
        g = pos(rng, tier, 0.6)                # shared factor
        n, d = n * g, d * g
    elif r < 0.52:
        k = rng.choice([1, 2, 3, 7, 31, 63, 64, 65, 127, 128, 200])
        n, d = n << k, d << rng.choice([0, 1, k, k + 1])   # powers of two (reduce2)
    elif r < 0.58:
        n, d = n | 1, d << rng.choice([1, 5, 64, 130])     # odd / even
    elif r < 0.64:
        g = gcd(n, d) or 1
        n, d = n // g, d // g                  # already coprime
    return signed(rng, n), d


def q(n, d, k):
    return "q:%s/%x:%s" % (hx(n), d, k)


def related_pair(rng, tier):
    """two fractions related the way add/mul/div branch"""
    a, b = frac(rng, tier)
    c, d = frac(rng, tier)
    r = rng.random()
    if r < 0.10:
        c, d = a, b                                           # equal
    elif r < 0.18:
        c, d = -a, b                                          # negated: sum 0
    elif r < 0.26 and a != 0:
        c, d = (b if a > 0 else -b), abs(a)                   # reciprocal: product 1
    elif r < 0.50:
        g = pos(rng, tier, 0.5)                               # denominators share g
        b, d = b * g, d * g
        if rng.random() < 0.5 and g > 1:
            # make the numerator sum cancel (part of) g: a/b + c/d with a*d' + c*b' ≡ 0 mod g'
            bp, dp = b // gcd(b, d), d // gcd(b, d)
            gg = gcd(b, d)
            gp = gcd(gg, rng.choice([gg, 2, 3, 4, 6, 12, 1 << 64]))
            if gcd(bp, gp) == 1 and gp > 1:
                # choose c ≡ -a*d'*inv(b') mod gp
                c0 = (-a * dp * pow(bp, -1, gp)) % gp
                c = c0 + gp * rng.randrange(0, 1 << rng.choice([1, 8, 64, 128]))
    elif r < 0.62:
        g = pos(rng, tier, 0.5)                               # cross factor a~d
        a, d = a * g, d * g
    elif r < 0.74:
        g = pos(rng, tier, 0.5)                               # cross factor b~c
        b, c = b * g, c * g
    elif r < 0.80:
        c = 0
    elif r < 0.86:
        # near-tie for rem: x / y close to k + 1/2
        k = rng.randrange(-5, 6)
        c, d = 2 * a, b * (2 * k + 1)
        if d < 0:
            c, d = -c, -d
    return (a, b), (c, d)


BIN = ["add", "sub", "mul", "div", "rem", "remeuclid"]
UN = ["neg", "abs", "inv", "sqr", "cubic", "signum", "fract"]
INTOPS = ["add", "sub", "mul", "div"]


def zlit(rng, tier, v=None):
    if v is None:
        v = signed(rng, nat(rng, tier, 0.6))
    if v >= 0 and rng.random() < 0.5:
        return "u:%x" % v, v
    return "i:%s" % hx(v), v


# ---------------------------------------------------------------- exact simulation (steering only)

def rnd_away(x):
    fl = x.numerator // x.denominator
    fr = x - fl
    if x >= 0:
        return fl + (1 if fr >= Fraction(1, 2) else 0)
    return fl + (1 if fr > Fraction(1, 2) else 0)


def sim_bin(op, x, y):
    if op == "add":
        return x + y
    if op == "sub":
        return x - y
    if op == "mul":
        return x * y
    if y == 0:
        return None
    if op == "div":
        return x / y
    if op == "rem":
        return x - y * rnd_away(x / y)
    if op == "remeuclid":
        qq = (x / abs(y)).__floor__()
        return x - abs(y) * qq
    raise ValueError(op)


def bits(x):
    return max(abs(x.numerator).bit_length(), x.denominator.bit_length())


def gen_prog(rng, tier):
    kind = rng.choice("RRRX")
    ninit = rng.randrange(1, 4)
    regs, toks = [], []
    for _ in range(ninit):
        n, d = frac(rng, "quick")
        if bits(Fraction(n, d)) > 700:
            n, d = signed(rng, rng.getrandbits(70)), rng.getrandbits(66) | 1
        regs.append((Fraction(n, d), kind))
        toks.append(q(n, d, kind))
    steps = []
    nsteps = rng.choice([1, 2, 3, 5, 8, 13, 20, 30, 40])
    cap = 6000 if tier == "quick" else 40000
    if kind == "X":
        cap //= 2
    for _ in range(nsteps):
        same = lambda k: [i for i, (_, kk) in enumerate(regs) if kk == k]
        i = rng.randrange(len(regs))
        x, k = regs[i]
        big = bits(x) > cap
        r = rng.random()
        if big:
            # shrink: remainders, fractional part, sign
            choice = rng.choice(["fract", "signum", "rem1", "canon"])
            if choice == "rem1":
                js = [j for j in same(k) if regs[j][0] != 0 and bits(regs[j][0]) < 200]
                if js:
                    j = rng.choice(js)
                    steps.append("rem,%d,%d" % (i, j)); regs.append((sim_bin("rem", x, regs[j][0]), k)); continue
                choice = "fract"
            if choice == "canon":
                steps.append("canon,%d" % i); regs.append((x, "R")); continue
            if choice == "fract":
                t = abs(x).__floor__() * (1 if x >= 0 else -1)
                steps.append("fract,%d" % i); regs.append((x - t, k)); continue
            steps.append("signum,%d" % i); regs.append((Fraction((x > 0) - (x < 0)), k)); continue
        if r < 0.55:
            op = rng.choice(BIN)
            j = rng.choice(same(k)) if rng.random() < 0.8 else i
            y = regs[j][0]
            v = sim_bin(op, x, y)
            if v is None and rng.random() < 0.97:
                op = rng.choice(["add", "sub", "mul"]); v = sim_bin(op, x, y)
            steps.append("%s,%d,%d" % (op, i, j))
            if v is None:
                break
            regs.append((v, k))
        elif r < 0.75:
            op = rng.choice(UN)
            if op == "inv" and x == 0:
                if rng.random() < 0.9:
                    op = "neg"
                else:
                    steps.append("inv,%d" % i); break        # the model stops here (required panic)
            if op in ("sqr", "cubic") and bits(x) * 3 > cap:
                op = "abs"
            steps.append("%s,%d" % (op, i))
            if op == "neg":
                v = -x
            elif op == "abs":
                v = abs(x)
            elif op == "inv":
                v = 1 / x
            elif op == "sqr":
                v = x * x
            elif op == "cubic":
                v = x * x * x
            elif op == "signum":
                v = Fraction((x > 0) - (x < 0))
            else:
                t = abs(x).__floor__() * (1 if x >= 0 else -1)
                v = x - t
            regs.append((v, k))
        elif r < 0.80:
            n = rng.choice([0, 1, 2, 3, 4, 5, 7])
            if bits(x) * max(n, 1) > cap:
                n = rng.choice([0, 1])
            steps.append("pow,%d,%d" % (i, n)); regs.append((x ** n, k))
        elif r < 0.83:
            s = rng.choice("+-")
            steps.append("mulsign,%d,%s" % (i, s)); regs.append((x if s == "+" else -x, k))
        elif r < 0.88:
            if k == "R":
                steps.append("relax,%d" % i); regs.append((x, "X"))
            else:
                steps.append("canon,%d" % i); regs.append((x, "R"))
        else:
            op = rng.choice(INTOPS)
            # integers related to the operand: multiples of the denominator / divisors of the numerator
            rr = rng.random()
            if rr < 0.3:
                zv = x.denominator * rng.choice([1, -1, 2, 3])
            elif rr < 0.5:
                zv = x.numerator * rng.choice([1, -1, 2])
            elif rr < 0.6:
                zv = 0
            else:
                zv = signed(rng, nat(rng, "quick", 0.7))
            lit, zv = zlit(rng, tier, zv)
            if rng.random() < 0.5:
                if op == "div" and zv == 0 and rng.random() < 0.9:
                    op = "mul"
                steps.append("%sz,%d,%s" % (op, i, lit))
                if op == "div" and zv == 0:
                    break
                v = {"add": x + zv, "sub": x - zv, "mul": x * zv}.get(op)
                regs.append((x / zv if op == "div" else v, k))
            else:
                if op == "div" and x == 0 and rng.random() < 0.9:
                    op = "sub"
                steps.append("z%s,%s,%d" % (op, lit, i))
                if op == "div" and x == 0:
                    break
                v = {"add": zv + x, "sub": zv - x, "mul": zv * x}.get(op)
                regs.append((zv / x if op == "div" else v, k))
    return Case("prog", toks + [";"] + steps)


W = 64
UMAX = (1 << 64) - 1


def extreme_exponents(rng, n):
    """ROUND4 addendum E1: the usize exponent of `pow` at every machine boundary (cheap only for the bases 0, 1, -1)"""
    fixed = [0, 1, 2, 3, W - 1, W, W + 1, 2 * W, 1 << 31, (1 << 32) - 1, 1 << 32, 1 << 63, (1 << 63) - 1, UMAX, UMAX - 1]
    out = list(fixed)
    for _ in range(n):
        r = rng.random()
        if r < 0.35:
            out.append((1 << 32) + rng.randrange(130))
        elif r < 0.7:
            out.append(UMAX - rng.randrange(131))
        elif r < 0.85:
            out.append((1 << 63) + rng.randrange(-130, 130))
        else:
            out.append(rng.getrandbits(rng.choice([16, 31, 33, 48, 63, 64])))
    return out


# ---------------------------------------------------------------- round 6: pow with the allocation guards of IBig::pow / UBig::pow

BUF_MAX_CAPACITY = UMAX // 64          # Buffer::MAX_CAPACITY = usize::MAX / WORD_BITS


def max_exp_in_word(b):
    e, p = 1, b
    while p * b < (1 << 64):
        e += 1; p *= b
    return e


def upow_outcome(b, e, maxbits):
    """what UBig::pow(b, e) does, decided without computing it (mirrors integer/src/pow.rs + shift_ops.rs shl +
    Buffer::allocate): 'panic' = the documented allocation panic raised before anything is allocated, 'cheap' = a result
    below maxbits, None = the code would really try to allocate / compute an astronomically large number (not driven:
    the outcome depends on the allocator)"""
    if e == 0 or b <= 1:
        return "cheap"
    s = (b & -b).bit_length() - 1
    odd = b >> s
    if e >= 3 and odd != 1:
        if odd < (1 << 64):
            w = max_exp_in_word(odd)
            if odd & (odd - 1) != 0 and odd > 2 and e >= 2 * w and e // w + 1 > BUF_MAX_CAPACITY:
                return "panic"
        elif odd < (1 << 128) and 2 * e > BUF_MAX_CAPACITY:
            return "panic"
    if odd.bit_length() * e > maxbits and odd != 1:
        return None
    if s == 0:
        return "cheap"
    n = e * s
    if n > UMAX:
        return "panic" if odd == 1 else None
    if odd == 1:
        if n <= 127:
            return "cheap"
        if n // 64 + 1 > BUF_MAX_CAPACITY:
            return "panic"
        return "cheap" if n <= maxbits else None
    return "cheap" if n + odd.bit_length() * e <= maxbits else None


def qpow_outcome(n, d, e, maxbits):
    """Repr::pow: numerator first (struct literal order), then the denominator"""
    a = upow_outcome(abs(n), e, maxbits)
    if a != "cheap":
        return a
    return upow_outcome(d, e, maxbits)


def guarded_pow_cases(rng, tier):
    """classes from the branch conditions of UBig::pow / IBig::pow under Repr::pow: a component 2^s (numerator ±2^s/odd, or
    denominator odd/2^s; s of every representation class) with exp*s on both sides of 2^64 (checked_mul fails; a wrapped
    product would be SMALL: exp = ceil(2^64/s) + j) and at the MAX_CAPACITY boundary of the final shift
    (exp*s >= 64*MAX_CAPACITY); odd parts > 1 (word base: exp/wexp + 1 words, double-word base: 2*exp words) at their
    MAX_CAPACITY boundary; every extreme usize exponent; the other component 1, odd small, or itself panicking; cheap
    neighbours (small exponents) of the same operands.  Inputs where the code would really allocate are filtered out."""
    quick = tier == "quick"
    maxbits = 100_000 if quick else 1_000_000
    shifts = [1, 2, 3, 4, 7, 8, 16, 31, 32, 33, 62, 63, 64, 65, 100, 127, 128, 129, 130, 191, 192, 193, 200, 256, 1000]
    if not quick:
        shifts += [rng.randrange(1, 400) for _ in range(60)]
    exts = extreme_exponents(rng, 6 if quick else 40)
    B = 1 << 64
    odds = [3, 5, 7, 255, (1 << 16) + 1, (1 << 32) - 1, (1 << 32) + 1, B - 1, B + 1, B * B - 1, 3 * B + 1]
    for s in shifts:
        cand = set(rng.sample(exts, 8 if quick else 20)) | {0, 1, 2, 3, 5}
        c = -(-(1 << 64) // s)
        cand |= {c + j for j in (0, 1, 2, rng.randrange(3, 200))}
        lim = -(-(BUF_MAX_CAPACITY * 64) // s)
        cand |= {lim, lim + 1, UMAX, UMAX - rng.randrange(1, 64)}
        for e in sorted(x for x in cand if 0 <= x <= UMAX):
            r = rng.random()
            other = 1 if r < 0.5 else rng.choice([3, 5, 7, 255, (1 << 32) + 1])
            sg = rng.choice([1, -1])
            k = rng.choice("RX")
            for (n, d) in ((sg * (1 << s), other), (sg * other, 1 << s)):
                if qpow_outcome(n, d, e, maxbits) is not None:
                    yield Case("qp.pow", [q(n, d, k), "d:%d" % e])
    for o in odds:
        cand = set(rng.sample(exts, 6 if quick else 20)) | {0, 1, 2, 3, 4}
        if o < B:
            w = max_exp_in_word(o)
            cand |= {w - 1, w, 2 * w - 1, 2 * w, 2 * w + 1, w * BUF_MAX_CAPACITY, w * BUF_MAX_CAPACITY + 1, w * (BUF_MAX_CAPACITY + 1)}
        else:
            cand |= {BUF_MAX_CAPACITY // 2 + 1, BUF_MAX_CAPACITY // 2 + 2, BUF_MAX_CAPACITY + 1}
        for e in sorted(x for x in cand if 0 <= x <= UMAX):
            s = rng.choice([0, 0, 1, 5, 64, 70])
            sg = rng.choice([1, -1])
            k = rng.choice("RX")
            for (n, d) in ((sg * (o << s), 1), (sg, o << s), (sg * o, 1 << max(s, 1)), (sg * (1 << max(s, 1)), o)):
                if qpow_outcome(n, d, e, maxbits) is not None:
                    yield Case("qp.pow", [q(n, d, k), "d:%d" % e])
    # Relaxed only: stored pairs with a common ODD factor (9/3, 15/5, ...): the guard sees the stored components, not the value
    for c in (3, 5, 255, (1 << 32) + 1):
        for o in (3, 7, 255, (1 << 31) - 1):
            n, d = o * c, c
            cand = {0, 1, 2, 3, UMAX, UMAX - rng.randrange(1, 130)}
            for b in (n, d, o):
                if b < B:
                    w = max_exp_in_word(b)
                    cand |= {w * BUF_MAX_CAPACITY, w * BUF_MAX_CAPACITY + 1, w * (BUF_MAX_CAPACITY + 1)}
                else:
                    cand |= {BUF_MAX_CAPACITY // 2 + 1, BUF_MAX_CAPACITY + 1}
            for e in sorted(x for x in cand if 0 <= x <= UMAX):
                sg = rng.choice([1, -1])
                for (nn, dd) in ((sg * n, d), (sg * d, n)):
                    if qpow_outcome(nn, dd, e, maxbits) is not None:
                        yield Case("qp.pow", [q(nn, dd, "X"), "d:%d" % e])
    # the bases 0, ±1 at every extreme exponent through the guarded op as well (no panic: shortcuts of pow_word_base)
    for e in exts:
        b = rng.choice([(0, 1), (1, 1), (-1, 1)])
        yield Case("qp.pow", [q(b[0], b[1], rng.choice("RX")), "d:%d" % e])
    # random operands, small exponents: the guarded op agrees with the plain one
    for _ in range(60 if quick else 2000):
        a, b = frac(rng, "quick")
        e = rng.choice([0, 1, 2, 3, 4, 5, 8, 17, 40, 41, 80, 81])
        if qpow_outcome(a, b, e, maxbits) == "cheap" and max(abs(a).bit_length(), b.bit_length()) * e <= maxbits:
            yield Case("qp.pow", [q(a, b, rng.choice("RX")), "d:%d" % e])


def guarded_prog_cases(rng, tier):
    """register programs (op qp.prog, model side runG) in which a `pow` step meets the allocation guards: a chain register that
    stays ±2^s or ±1/2^s under neg / inv / abs / sqr / cubic / mulsign (stored pair predictable for RBig and Relaxed), interleaved
    arithmetic on another register, then `pow` with the exponent placed relative to the CURRENT shift of the chain register
    (both sides of 2^64 = exp*s, the MAX_CAPACITY boundary, usize::MAX - k, or small); after a cheap power the program goes on
    with the result (incl. a second guarded pow), after a panic the remaining steps must not execute."""
    quick = tier == "quick"
    maxbits = 50_000 if quick else 400_000
    for _ in range(120 if quick else 3000):
        k = rng.choice("RX")
        s0 = rng.choice([1, 2, 3, 7, 31, 32, 33, 63, 64, 65, 127, 128, 129, 200])
        sg = rng.choice([1, -1])
        cur = Fraction(sg * (1 << s0)) if rng.random() < 0.5 else Fraction(sg, 1 << s0)
        a, b = frac(rng, "quick")
        if bits(Fraction(a, b)) > 300:
            a, b = signed(rng, rng.getrandbits(70)), rng.getrandbits(66) | 1
        toks = [q(cur.numerator, cur.denominator, k), q(a, b, k)]
        other = Fraction(a, b)
        nregs, ci, oi = 2, 0, 1
        steps = []
        stopped = False
        for _ in range(rng.randrange(0, 4)):
            op = rng.choice(["neg", "inv", "abs", "sqr", "cubic", "mulsign"])
            if op in ("sqr", "cubic") and bits(cur) > 700:
                op = "inv"
            if op == "mulsign":
                sgn = rng.choice("+-")
                steps.append("mulsign,%d,%s" % (ci, sgn)); cur = cur if sgn == "+" else -cur
            else:
                steps.append("%s,%d" % (op, ci))
                cur = {"neg": -cur, "inv": 1 / cur, "abs": abs(cur), "sqr": cur * cur, "cubic": cur * cur * cur}[op]
            ci = nregs; nregs += 1
            if rng.random() < 0.5 and bits(other) < 3000:
                o2 = rng.choice(["add", "sub", "mul"])
                steps.append("%s,%d,%d" % (o2, oi, ci)); other = sim_bin(o2, other, cur)
                oi = nregs; nregs += 1
        for rnd in range(2):
            sh = max(abs(cur.numerator), cur.denominator).bit_length() - 1
            if sh == 0:
                break
            c = -(-(1 << 64) // sh)
            lim = -(-(BUF_MAX_CAPACITY * 64) // sh)
            e = rng.choice([c, c + 1, c + rng.randrange(2, 200), lim, lim + 1, UMAX, UMAX - rng.randrange(1, 130),
                            0, 1, 2, 3, 5, rng.choice(extreme_exponents(rng, 4))])
            if e > UMAX:
                e = UMAX
            out = qpow_outcome(cur.numerator, cur.denominator, e, maxbits)
            if out is None:
                e = rng.choice([0, 1, 2, 3]); out = "cheap"
            steps.append("pow,%d,%d" % (ci, e))
            if out == "panic":
                stopped = True
                break
            cur = cur ** e
            ci = nregs; nregs += 1
            if bits(other) < 3000:
                o2 = rng.choice(["add", "sub", "mul"])
                steps.append("%s,%d,%d" % (o2, ci, oi)); other = sim_bin(o2, cur, other)
                oi = nregs; nregs += 1
        if stopped:
            steps += ["add,0,1", "neg,0"]          # never executed
        yield Case("qp.prog", toks + [";"] + steps)


def generate(rng, tier):
    quick = tier == "quick"
    # ---- round 6: Repr::pow with the allocation guards of the integer powers (qp.pow)
    yield from guarded_pow_cases(rng, tier)
    yield from guarded_prog_cases(rng, tier)
    # ---- E1: extreme usize exponents of pow on the bases whose powers are cheap (0, 1, -1; RBig and Relaxed)
    for n in extreme_exponents(rng, 40 if quick else 600):
        base = rng.choice([(0, 1), (1, 1), (-1, 1), (-1, 1)])
        yield Case("q.pow", [q(base[0], base[1], rng.choice("RX")), "d:%d" % n])
    for _ in range(30 if quick else 400):
        # the same inside programs (parity of the exponent decides the sign that later steps see)
        k = rng.choice("RX")
        n1, n2 = rng.choice(extreme_exponents(rng, 8)), rng.choice(extreme_exponents(rng, 8))
        a, b = frac(rng, "quick")
        yield Case("prog", [q(-1, 1, k), q(a, b, k), ";", "pow,0,%d" % n1, "mul,2,1", "pow,2,%d" % n2, "add,3,4", "sub,4,2"])
    # moderate exponents on small bases: every shortcut of integer pow (exp < wexp, < 2*wexp, square-and-multiply)
    for _ in range(60 if quick else 1500):
        a = signed(rng, rng.choice([2, 3, 5, 6, 7, 10, 12, 255, 256, 65535, (1 << 32) - 1, (1 << 32) + 1]))
        b = rng.choice([1, 2, 3, 7, 9, 10, 16, 255, (1 << 31) + 1])
        n = rng.choice([0, 1, 2, 3, 4, 7, 8, 15, 16, 20, 31, 32, 33, 40, 63, 64, 65, 100, 127, 128, 129, 200])
        yield Case("q.pow", [q(a, b, rng.choice("RX")), "d:%d" % n])
    # ---- E2: boundary classes for k of EVERY bit length (not only near the ends of the word)
    edge = [1, 2, 3, 31, 32, 33, 63, 64, 65, 66, 95, 96, 127, 128, 129, 130, 191, 192, 193, 255, 256, 257]
    lens = list(range(1, 321)) if not quick else sorted(set(edge + [rng.randrange(1, 321) for _ in range(30)]))
    reps = 1 if quick else 3
    for L in lens:
        for _ in range(reps):
            k = rng.getrandbits(L) | (1 << (L - 1))
            kk = rng.choice("RX")
            # exact ties and just-off ties of `%` and round(): x / y = ±(k + 1/2) (+- 1/(2m))
            yn, yd = signed(rng, pos(rng, "quick", 0.7)), pos(rng, "quick", 0.7)
            sgn_ = rng.choice([1, -1])
            xn, xd = sgn_ * (2 * k + 1) * yn, 2 * yd
            yield Case("q.rem", [q(xn, xd, kk), q(yn, yd, kk)])
            m = rng.getrandbits(rng.choice([1, 8, 64, L])) + 1
            off = rng.choice([1, -1])
            yield Case("q.rem", [q(xn * m + off * yn, xd * m, kk), q(yn, yd, kk)])
            yield Case("q." + rng.choice(["round", "floor", "ceil", "trunc", "fract", "split"]), [q(sgn_ * (2 * k + 1), 2, kk)])
            yield Case("q." + rng.choice(["round", "floor", "ceil", "trunc"]), [q(sgn_ * ((2 * k + 1) * m + off), 2 * m, kk)])
            yield Case("q.remeuclid", [q(sgn_ * k * yn + rng.choice([0, 1, -1]), yd, kk), q(yn, yd, kk)])
            # 2^e ± 1 components; common powers of two of every count (reduce2 shifts across word boundaries)
            e2 = rng.randrange(1, 321)
            a = signed(rng, (1 << L) + rng.choice([-1, 0, 1]))
            b = max(1, (1 << e2) + rng.choice([-1, 0, 1]))
            yield Case("q." + rng.choice(BIN), [q(a, b, kk), q(signed(rng, b), max(1, abs(a)), kk)])
            o1, o2 = rng.getrandbits(rng.choice([1, 40, 70])) | 1, rng.getrandbits(rng.choice([1, 40, 70])) | 1
            yield Case("q.fromparts", [hx(signed(rng, o1 << L)), "%x" % (o2 << e2), kk])
            yield Case("q." + rng.choice(["add", "sub", "mul", "div"]), [q(o1 << L, o2, "X"), q(o2, o1 << e2, "X")])
            # gcd hint g of this bit length: denominators g*b', g*d', numerator sum cancelling all / part / none of g
            g = k
            bp, dp = pos(rng, "quick", 0.8), pos(rng, "quick", 0.8)
            a1 = signed(rng, pos(rng, "quick", 0.8))
            c1 = signed(rng, pos(rng, "quick", 0.8))
            if gcd(bp, g) == 1 and rng.random() < 0.6:
                gp = gcd(g, rng.choice([g, 2, 3, 6, 1 << 64]))
                if gp > 1:
                    c1 = (-a1 * dp * pow(bp, -1, gp)) % gp + gp * rng.getrandbits(rng.choice([1, 64]))
            yield Case("q." + rng.choice(["add", "sub", "rem", "remeuclid", "divremeuclid"]), [q(a1, g * bp, "R"), q(c1, g * dp, "R")])
            # cross factors of this bit length for mul / div and the mixed integer forms
            yield Case("q." + rng.choice(["mul", "div"]), [q(a1 * g, bp, "R"), q(c1, dp * g, "R")])
            lit, zv = zlit(rng, tier, signed(rng, g * rng.choice([1, 2, 3])))
            yield Case(rng.choice(["q.mulz", "q.divz"]), [q(a1 * g, bp * g + 1, "R"), lit])
            yield Case(rng.choice(["q.zmul", "q.zdiv"]), [lit, q(a1 * g + 1, bp * g, "R")])
    # ---- predicates / accessors / constants of rbig.rs and sign.rs (is_zero, is_one, is_int, sign, into_parts, clone_from)
    yield Case("qp.consts", ["R"])
    yield Case("qp.consts", ["X"])
    for _ in range(300 if quick else 6000):
        a, b = frac(rng, tier)
        r = rng.random()
        if r < 0.15:
            a = b * rng.choice([1, 1, -1])        # value ±1, stored as n/n for a Relaxed with odd n
        elif r < 0.25:
            b = 1
        elif r < 0.30:
            a = signed(rng, 1)
        elif r < 0.33:
            b = 0                                  # constructor panic
        yield Case("qp.preds", [q(a, b, rng.choice("RX"))])
    # ---- binary ops on related pairs
    for _ in range(3000 if quick else 90000):
        (a, b), (c, d) = related_pair(rng, tier)
        k = rng.choice("RRX")
        op = rng.choice(BIN + ["diveuclid", "divremeuclid"])
        yield Case("q." + op, [q(a, b, k), q(c, d, k)])
    for _ in range(400 if quick else 12000):
        (a, b), (c, d) = related_pair(rng, tier)
        yield Case("rx." + rng.choice(BIN), [q(a, b, "R"), q(c, d, "R")])
    # ---- unary
    for _ in range(1000 if quick else 25000):
        a, b = frac(rng, tier)
        k = rng.choice("RX")
        op = rng.choice(UN + ["relax", "canon", "split", "trunc", "floor", "ceil", "round", "pow", "mulsign"])
        if op in ("trunc", "floor", "ceil", "round", "split", "fract") and rng.random() < 0.4:
            # exact halves / integers / just off
            b = rng.choice([1, 2, 2, 4])
            a = signed(rng, nat(rng, tier, 0.7))
        if op == "pow":
            n = rng.choice([0, 1, 2, 3, 4, 5, 8, 17])
            if max(abs(a).bit_length(), b.bit_length()) * n > (20000 if quick else 200000):
                n = 2
            yield Case("q.pow", [q(a, b, k), "d:%d" % n])
        elif op == "mulsign":
            yield Case("q.mulsign", [q(a, b, k), rng.choice("+-")])
        else:
            yield Case("q." + op, [q(a, b, k)])
    # ---- mixed with integers
    for _ in range(1000 if quick else 25000):
        a, b = frac(rng, tier)
        k = rng.choice("RX")
        op = rng.choice(INTOPS)
        r = rng.random()
        if r < 0.25:
            zv = b * rng.choice([1, -1, 2, 6])
        elif r < 0.45:
            zv = a * rng.choice([1, -1, 2]) if a else 0
        elif r < 0.55:
            zv = 0
        elif r < 0.7:
            g = gcd(abs(a), b) or 1
            zv = signed(rng, (abs(a) // g) * pos(rng, tier, 0.8))
        else:
            zv = None
        lit, zv = zlit(rng, tier, zv)
        if rng.random() < 0.5:
            yield Case("q.%sz" % op, [q(a, b, k), lit])
        else:
            yield Case("q.z%s" % op, [lit, q(a, b, k)])
    # ---- constructors
    for _ in range(400 if quick else 10000):
        a, b = frac(rng, tier)
        k = rng.choice("RX")
        r = rng.random()
        if r < 0.4:
            if rng.random() < 0.05:
                b = 0
            yield Case("q.fromparts", [hx(a), "%x" % b, k])
        elif r < 0.7:
            bb = signed(rng, b) if rng.random() > 0.05 else 0
            yield Case("q.frompartssigned", [hx(a), hx(bb), k])
        else:
            n = abs(a) % (1 << 128); d = b % (1 << 128)
            if rng.random() < 0.5:
                g = rng.getrandbits(rng.choice([1, 8, 30, 60]))or 1
                n = rng.getrandbits(rng.choice([3, 20, 64])) * g % (1 << 128)
                d = rng.getrandbits(rng.choice([3, 20, 64])) * g % (1 << 128)
            if rng.random() < 0.05:
                d = 0
            yield Case("q.frompartsconst", [rng.choice("+-"), "%x" % n, "%x" % d, k])
    # ---- E1: from_parts_const at the DoubleWord boundaries (both magnitudes are u128 with 64-bit words)
    dw = [0, 1, 2, 3, (1 << 63) - 1, 1 << 63, (1 << 64) - 1, 1 << 64, (1 << 64) + 1, (1 << 127) - 1, 1 << 127, (1 << 127) + 1]
    for _ in range(150 if quick else 4000):
        def pick():
            r = rng.random()
            if r < 0.45:
                return rng.choice(dw)
            if r < 0.75:
                return (1 << 128) - 1 - rng.randrange(131)
            if r < 0.9:
                return (1 << 64) + rng.randrange(-130, 131)
            return rng.getrandbits(rng.choice([2, 64, 65, 127, 128]))
        n, d = pick(), pick()
        if rng.random() < 0.4 and d > 1:
            # a common factor that survives in u128: n = g*n', d = g*d'
            g = rng.choice([2, 3, (1 << 32) + 15, (1 << 64) - 59, 1 << 63])
            n, d = (g * rng.getrandbits(rng.choice([1, 30, 63]))) % (1 << 128), (g * (rng.getrandbits(rng.choice([1, 30, 63])) | 1)) % (1 << 128)
        yield Case("q.frompartsconst", [rng.choice("+-"), "%x" % n, "%x" % d, rng.choice("RX")])
    # ---- register programs
    for _ in range(1200 if quick else 40000):
        yield gen_prog(rng, tier)


LEVEL_TEXT = ("Machine-checked Lean 4 theorems, for all integers (no size bound) and all finite operation sequences: every RBig "
              "operation of rational/src/{add,mul,div,sign,round,rbig}.rs, modelled macro body by macro body over exact integer "
              "arithmetic, returns a pair with positive denominator coprime to the numerator whose value in Lean's Rat equals the "
              "exact result (incl. the gcd-hint reduction of addition and the cross-gcd cancellation of mul/div), panics with "
              "DivideByZero exactly on zero divisors, Relaxed operations return the same values and reduce2 strips exactly the "
              "common power of two; history theorems over register programs (invariants, values, Relaxed = RBig over whole histories, "
              "reduce2 fixed point); sign corners of pow/inv; predicates; pow with the allocation panics of the integer powers under it "
              "(exact reduced result, or the documented allocation panic and then a component of the exact power has at least 2^62 bits — conversely below 2^62 bits no panic, "
              "guarded histories = unguarded histories, Relaxed = RBig with both returning, Relaxed = RBig over guarded histories that do not hit the allocation panic; the guard is C01's proved "
              "panic class, composed by value with C01's mirrored kernels — Props/C04Pow). Tie A: all 24 operator macro bodies of rational/src/{add,mul,div}.rs, "
              "their 48 invocations and 22 Repr-level function bodies (reductions, rounding, inverse, sign, powers, constructors incl. the const Euclid loop) are "
              "regenerated from /repo on every run and proved equal to the model functions for all inputs (Props/C04Gen). Tie B: differential execution (numerator()/denominator() as stored, all ownership/assign call forms, "
              "programs of 1-40 steps feeding results back, extreme usize exponents incl. both sides of every allocation guard of pow).")
LEVEL_NOTE = ("Trusted: Lean kernel; axioms propext/Classical.choice/Quot.sound; the correspondence harness and generators "
              "(sampling) for the tie model<->code; dashu-int kernels (gcd, mul, div, shifts, trailing_zeros) are taken at their "
              "contracts here and are the subject of C01/C02/C09/C12.")
TECHNIQUE = "Lean 4 refinement proofs over Int/Nat gcd theory (Mathlib IsCoprime) + differential correspondence model vs real code"
