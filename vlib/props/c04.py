"""C04 — rational arithmetic exact, RBig in lowest terms, Relaxed = RBig (DESIGN §8 C04)."""
from fractions import Fraction
from math import gcd
from vlib.core import Case
from vlib.gens import hx, nat_pattern, PATTERNS, signed

GROUP = "ratio"
LEAN_PROPS = "Dashu.Props.C04"
LEAN_AUDIT = "Dashu.Audit.C04"
# compositions with other groups' proved files, kept apart from the property's own theorems
GEN_PROPS = ["Dashu.Props.C04Link", "Dashu.Props.C04Gen"]
GEN_AUDIT = ["Dashu.Audit.C04Link", "Dashu.Audit.C04Gen"]
# Tie A: lean/Dashu/Gen/RatOps.lean (macro bodies of rational/src/{add,mul,div}.rs + invocation table, vlib/extract_ratops.py) and
# lean/Dashu/Gen/RatFns.lean (Repr-level fn bodies of repr/round/div/sign/mul/rbig.rs, vlib/extract_ratfns.py) are regenerated
# from /repo on every run; Props/C04Gen proves the model functions equal to them
USES_GEN = True
JOBS = 12

REFINED = ["Repr::reduce", "Repr::reduce_with_hint", "Repr::reduce2",
           "RBig::from_parts / from_parts_signed / from_parts_const (const Euclid loop)", "Relaxed::from_parts / from_parts_signed / from_parts_const",
           "impl_add_or_sub_with_rbig (g = 1 shortcut and gcd-hint branch)", "impl_addsub_with_relaxed",
           "impl_addsub_int_with_rbig / impl_int_sub_rbig (+ Relaxed)", "impl_mul_with_rbig (cross gcd)",
           "impl_mul_with_relaxed", "impl_mul_int_with_rbig (+ Relaxed)", "impl_div_with_rbig / _relaxed",
           "impl_rbig_div_ubig / _ibig / impl_ubig_or_ibig_div_rbig (+ Relaxed)", "impl_rem_with_rbig / _relaxed",
           "impl_euclid_div / impl_euclid_rem_* / impl_euclid_divrem_*", "Repr::sqr / cubic / pow",
           "Repr::neg / abs / signum / Mul<Sign>", "Inverse for Repr", "Repr::fract / split_at_point / trunc / floor / ceil / round",
           "RBig::relax / Relaxed::canonicalize", "register programs (run): every register ever produced",
           "TIE A (round 5): all 24 operator macro bodies of rational/src/{add,mul,div}.rs and the 48 impl_binop_with_macro!/impl_binop_with_int! "
           "invocations are REGENERATED from /repo on every run (vlib/extract_ratops.py -> lean/Dashu/Gen/RatOps.lean) and Props/C04Gen proves each "
           "body equal to the model function the driver executes, for all inputs incl. zero denominators and panics "
           "(binary_ops_regenerated, int_right_ops_regenerated, int_left_ops_regenerated, euclid_ops_regenerated, invocations_regenerated); "
           "likewise the 20 Repr-level function bodies: repr.rs reduce / reduce_with_hint / reduce2, round.rs split_at_point / ceil / floor / trunc / "
           "fract / round, div.rs Inverse::inv, sign.rs neg / abs / Mul<Sign>, mul.rs sqr / cubic / pow, rbig.rs from_parts / from_parts_signed / "
           "from_parts_const of both types — 22 bodies, incl. the const Euclid `while` loop of RBig::from_parts_const regenerated as "
           "G.while_dec measure cond step and proved equal to the model's constGcdLoop (vlib/extract_ratfns.py -> lean/Dashu/Gen/RatFns.lean; "
           "reductions_regenerated, rounding_regenerated, unary_regenerated, constructors_regenerated, const_constructors_regenerated, "
           "const_gcd_loop_regenerated)",
           "IBig::pow sign rule (negative iff negative base and odd exponent) + UBig::pow shortcuts (exp 0, base 0, base 1): ipowK / upowK, proved = ^",
           "RBig/Relaxed is_zero / is_one (Relaxed: numerator == denominator) / is_int / sign / into_parts / clone_from / ZERO ONE NEG_ONE default (driven; predicates proved)",
           "histories: Relaxed = RBig over whole programs (history_relaxed_equals_rbig, history_canonicalize_equals_rbig), reduce2 invariant over "
           "Relaxed-only histories (history_relaxed_reduce2_invariant)"]
FRONTIER = ["dashu-int kernels used by the rational layer are taken at their contracts, and EVERY one of them is now linked by theorem (Props/C04Link, "
            "import of the owning property's Props module, every word size) to the mirrored and proved integer kernel: Gcd::gcd = C12's gcd "
            "(gcd_contract_is_proved_kernel, reduce_over_proved_gcd); IBig *, +, - = C01 (ring_contracts_are_proved_kernels, add_int_over_proved_kernels, "
            "mul_num_over_proved_kernels); UBig::pow / IBig::pow incl. the sign rule = C01 (pow_contracts_are_proved_kernels); truncated / and %, div_euclid, "
            "rem_euclid with their zero-divisor panics = C02 (div_contracts_are_proved_kernels); trailing_zeros and >> = C09 "
            "(bit_contracts_are_proved_kernels). What stays trusted is only that composition is by value (SRepr.ofInt / ofNat wrappers), not a re-execution of "
            "the word-level kernels inside the rational driver (that would make the driver quadratically slower without adding a statement)",
            "pow with a base other than 0, 1, -1 and an exponent beyond memory (even bases: exp.checked_mul(shift) / shl allocation panic) is not driven here: "
            "the result size guard is C01's u_pow_checked_exact / C16's transcription",
]
RULE = ("operands n/d built from size classes {tiny, 1 word, 2 words (inline boundary), 3-6 words, 10-40 words} x bit patterns "
        "x signs, then related to each other the way the code branches: denominators coprime (g = 1 shortcut) or sharing a "
        "factor g (hint branch) with the numerator sum cancelling part / all / none of g, cross factors gcd(a,d), gcd(b,c) "
        "for mul/div, common powers of two (Relaxed::reduce2), zero numerators, integer values, equal / negated / reciprocal "
        "operands, zero divisors; every binary op of {add,sub,mul,div,rem,remeuclid,diveuclid,divremeuclid}, unary "
        "{neg,abs,inv,sqr,cubic,pow,signum,mulsign,fract,split,trunc,floor,ceil,round,relax,canon}, mixed {+,-,*,/} with UBig/IBig on "
        "either side, constructors, for RBig and Relaxed, all ownership/assign call forms; register programs of 1-40 steps "
        "feeding results back (values steered with exact fractions so that most steps are defined); round 5: pow with the usize exponent at every "
        "machine boundary (0, 1, W-1, W, W+1, 2W, 2^31, 2^32-1, 2^32, 2^32+k, 2^63±k, MAX-k, k ≤ 130) on the bases 0, 1, -1 of both types, alone and inside "
        "programs whose later steps see the parity-dependent sign; pow of small bases with exponents across every shortcut of integer pow; "
        "qp.preds (sign/is_zero/is_one/is_int/into_parts/clone_from, values ±1 stored as n/n, zero numerators, integers, zero denominators) and qp.consts; "
        "E2: for k of EVERY bit length 1..320 (thorough: each length x3; quick: the word edges + 30 sampled lengths): exact and just-off ties of % and "
        "round/floor/ceil/trunc at ±(k + 1/2), rem_euclid at multiples ±1, components 2^e, 2^e ± 1, common powers of two of every count (reduce2 shifts "
        "across word boundaries), gcd hint g = k with the numerator sum cancelling all/part/none of it, cross factors k for mul/div and the mixed integer "
        "forms; from_parts_const at the DoubleWord boundaries (0, 1, 2^63, 2^64 ± 1, 2^127, 2^128 - 1 - k, common factors that survive in u128). "
        "Non-trivial := a program "
        "with >= 4 steps or an operand with a component of >= 3 words; distinct := distinct case lines. Measured on the quick "
        "tier (seed 20260929): RBig add/sub reach the g = 1 shortcut 355x and the hint branch 172x (remaining common factor "
        "1: 111, a proper divisor of g: 25, all of g: 36); RBig mul has cross gcds (gcd(a,d) > 1, gcd(b,c) > 1) in all four "
        "combinations (120/56/48/24); programs: 376 of 1-3 steps, 294 of 4-10, 271 of 11-25, 259 of 26-40.")
EXPLANATION = ("Theorems (all integers, no size bound): for reduced operands every RBig operation returns a reduced pair whose "
               "value in Lean's Rat equals the exact result (gcd-hint addition, cross-cancelling multiplication/division, "
               "nearest and Euclidean remainders, powers, inverse, mixed integer forms), division by zero is exactly the "
               "DivideByZero panic; every Relaxed operation returns the same value and keeps 'not both even'; reduce2 strips "
               "exactly the common power of two; history theorem: every register of every finite program satisfies its "
               "type's invariant and equals the value-level interpretation; the same program on Relaxed and on RBig registers denoting "
               "the same numbers stops the same way with the same values, canonicalize of each Relaxed register is the stored RBig pair. "
               "The model is tied to /repo twice: (A) every operator macro body of rational/src/{add,mul,div}.rs and every Repr-level function "
               "body (reduce*, rounding, inverse, sign, powers, constructors) is regenerated from the "
               "source on every run and proved equal to the model function (a source edit breaks the theorem build), (B) differential "
               "execution printing numerator()/denominator() as stored after every step.")
ASSUMPTIONS = ["dashu-int Gcd::gcd, *, +, -, /, %, div_euclid, rem_euclid, trailing_zeros, >>, pow meet their contracts (C01, C02, C09, C12) — each contract is "
               "proved equal to the owning property's mirrored kernel in Props/C04Link"]
THEOREMS = []  # filled from the audit (every theorem printed there is counted)
READY = True


def nontrivial(c):
    if c.op == "prog":
        return len(c.args) - c.args.index(";") - 1 >= 4 if ";" in c.args else False
    for a in c.args:
        if a.startswith("q:"):
            n, d = a.split(":")[1].split("/")
            if len(n.lstrip("-")) > 32 or len(d) > 32:
                return True
    return False


# ---------------------------------------------------------------- operand generators

def sizes(tier):
    s = [0, 1, 1, 1, 2, 2, 3, 3, 4, 6]
    s += [10, 24, 40] if tier == "quick" else [10, 24, 33, 64, 100, 200]
    return s


def nat(rng, tier, small_bias=0.35):
    """a natural number: tiny with probability small_bias, otherwise structured multi-word"""
    r = rng.random()
    if r < small_bias:
        return rng.choice([0, 1, 2, 3, 4, 5, 6, 7, 8, 9, 10, 12, 15, 16, 30, 60, 64, 97, 255, 256, 1000, 1 << 31, (1 << 32) - 1])
    if r < small_bias + 0.1:
        return rng.getrandbits(rng.choice([8, 16, 31, 32, 33, 63, 64]))
    nw = rng.choice(sizes(tier))
    return nat_pattern(rng, nw, rng.choice(PATTERNS))


def pos(rng, tier, small_bias=0.35):
    v = nat(rng, tier, small_bias)
    return v if v > 0 else 1


def frac(rng, tier):
    """raw parts (n, d), d >= 1, with shared / coprime / power-of-two factors, zero, integers"""
    n = nat(rng, tier)
    d = pos(rng, tier)
    r = rng.random()
    if r < 0.08:
        n = 0
    elif r < 0.16:
        d = 1
    elif r < 0.22:
        n = d * nat(rng, tier, 0.8)            # integer-valued, not stored as such
    elif r < 0.40:
        g = pos(rng, tier, 0.6)                # shared factor
        n, d = n * g, d * g
    elif r < 0.52:
        k = rng.choice([1, 2, 3, 7, 31, 63, 64, 65, 127, 128, 200])
        n, d = n << k, d << rng.choice([0, 1, k, k + 1])   # powers of two (reduce2)
    elif r < 0.58:
        n, d = n | 1, d << rng.choice([1, 5, 64, 130])     # odd / even
    elif r < 0.64:
        g = gcd(n, d) or 1
        n, d = n // g, d // g                  # already coprime
    return signed(rng, n), d


def q(n, d, k):
    return "q:%s/%x:%s" % (hx(n), d, k)


def related_pair(rng, tier):
    """two fractions related the way add/mul/div branch"""
    a, b = frac(rng, tier)
    c, d = frac(rng, tier)
    r = rng.random()
    if r < 0.10:
        c, d = a, b                                           # equal
    elif r < 0.18:
        c, d = -a, b                                          # negated: sum 0
    elif r < 0.26 and a != 0:
        c, d = (b if a > 0 else -b), abs(a)                   # reciprocal: product 1
    elif r < 0.50:
        g = pos(rng, tier, 0.5)                               # denominators share g
        b, d = b * g, d * g
        if rng.random() < 0.5 and g > 1:
            # make the numerator sum cancel (part of) g: a/b + c/d with a*d' + c*b' ≡ 0 mod g'
            bp, dp = b // gcd(b, d), d // gcd(b, d)
            gg = gcd(b, d)
            gp = gcd(gg, rng.choice([gg, 2, 3, 4, 6, 12, 1 << 64]))
            if gcd(bp, gp) == 1 and gp > 1:
                # choose c ≡ -a*d'*inv(b') mod gp
                c0 = (-a * dp * pow(bp, -1, gp)) % gp
                c = c0 + gp * rng.randrange(0, 1 << rng.choice([1, 8, 64, 128]))
    elif r < 0.62:
        g = pos(rng, tier, 0.5)                               # cross factor a~d
        a, d = a * g, d * g
    elif r < 0.74:
        g = pos(rng, tier, 0.5)                               # cross factor b~c
        b, c = b * g, c * g
    elif r < 0.80:
        c = 0
    elif r < 0.86:
        # near-tie for rem: x / y close to k + 1/2
        k = rng.randrange(-5, 6)
        c, d = 2 * a, b * (2 * k + 1)
        if d < 0:
            c, d = -c, -d
    return (a, b), (c, d)


BIN = ["add", "sub", "mul", "div", "rem", "remeuclid"]
UN = ["neg", "abs", "inv", "sqr", "cubic", "signum", "fract"]
INTOPS = ["add", "sub", "mul", "div"]


def zlit(rng, tier, v=None):
    if v is None:
        v = signed(rng, nat(rng, tier, 0.6))
    if v >= 0 and rng.random() < 0.5:
        return "u:%x" % v, v
    return "i:%s" % hx(v), v


# ---------------------------------------------------------------- exact simulation (steering only)

def rnd_away(x):
    fl = x.numerator // x.denominator
    fr = x - fl
    if x >= 0:
        return fl + (1 if fr >= Fraction(1, 2) else 0)
    return fl + (1 if fr > Fraction(1, 2) else 0)


def sim_bin(op, x, y):
    if op == "add":
        return x + y
    if op == "sub":
        return x - y
    if op == "mul":
        return x * y
    if y == 0:
        return None
    if op == "div":
        return x / y
    if op == "rem":
        return x - y * rnd_away(x / y)
    if op == "remeuclid":
        qq = (x / abs(y)).__floor__()
        return x - abs(y) * qq
    raise ValueError(op)


def bits(x):
    return max(abs(x.numerator).bit_length(), x.denominator.bit_length())


def gen_prog(rng, tier):
    kind = rng.choice("RRRX")
    ninit = rng.randrange(1, 4)
    regs, toks = [], []
    for _ in range(ninit):
        n, d = frac(rng, "quick")
        if bits(Fraction(n, d)) > 700:
            n, d = signed(rng, rng.getrandbits(70)), rng.getrandbits(66) | 1
        regs.append((Fraction(n, d), kind))
        toks.append(q(n, d, kind))
    steps = []
    nsteps = rng.choice([1, 2, 3, 5, 8, 13, 20, 30, 40])
    cap = 6000 if tier == "quick" else 40000
    if kind == "X":
        cap //= 2
    for _ in range(nsteps):
        same = lambda k: [i for i, (_, kk) in enumerate(regs) if kk == k]
        i = rng.randrange(len(regs))
        x, k = regs[i]
        big = bits(x) > cap
        r = rng.random()
        if big:
            # shrink: remainders, fractional part, sign
            choice = rng.choice(["fract", "signum", "rem1", "canon"])
            if choice == "rem1":
                js = [j for j in same(k) if regs[j][0] != 0 and bits(regs[j][0]) < 200]
                if js:
                    j = rng.choice(js)
                    steps.append("rem,%d,%d" % (i, j)); regs.append((sim_bin("rem", x, regs[j][0]), k)); continue
                choice = "fract"
            if choice == "canon":
                steps.append("canon,%d" % i); regs.append((x, "R")); continue
            if choice == "fract":
                t = abs(x).__floor__() * (1 if x >= 0 else -1)
                steps.append("fract,%d" % i); regs.append((x - t, k)); continue
            steps.append("signum,%d" % i); regs.append((Fraction((x > 0) - (x < 0)), k)); continue
        if r < 0.55:
            op = rng.choice(BIN)
            j = rng.choice(same(k)) if rng.random() < 0.8 else i
            y = regs[j][0]
            v = sim_bin(op, x, y)
            if v is None and rng.random() < 0.97:
                op = rng.choice(["add", "sub", "mul"]); v = sim_bin(op, x, y)
            steps.append("%s,%d,%d" % (op, i, j))
            if v is None:
                break
            regs.append((v, k))
        elif r < 0.75:
            op = rng.choice(UN)
            if op == "inv" and x == 0:
                if rng.random() < 0.9:
                    op = "neg"
                else:
                    steps.append("inv,%d" % i); break        # the model stops here (required panic)
            if op in ("sqr", "cubic") and bits(x) * 3 > cap:
                op = "abs"
            steps.append("%s,%d" % (op, i))
            if op == "neg":
                v = -x
            elif op == "abs":
                v = abs(x)
            elif op == "inv":
                v = 1 / x
            elif op == "sqr":
                v = x * x
            elif op == "cubic":
                v = x * x * x
            elif op == "signum":
                v = Fraction((x > 0) - (x < 0))
            else:
                t = abs(x).__floor__() * (1 if x >= 0 else -1)
                v = x - t
            regs.append((v, k))
        elif r < 0.80:
            n = rng.choice([0, 1, 2, 3, 4, 5, 7])
            if bits(x) * max(n, 1) > cap:
                n = rng.choice([0, 1])
            steps.append("pow,%d,%d" % (i, n)); regs.append((x ** n, k))
        elif r < 0.83:
            s = rng.choice("+-")
            steps.append("mulsign,%d,%s" % (i, s)); regs.append((x if s == "+" else -x, k))
        elif r < 0.88:
            if k == "R":
                steps.append("relax,%d" % i); regs.append((x, "X"))
            else:
                steps.append("canon,%d" % i); regs.append((x, "R"))
        else:
            op = rng.choice(INTOPS)
            # integers related to the operand: multiples of the denominator / divisors of the numerator
            rr = rng.random()
            if rr < 0.3:
                zv = x.denominator * rng.choice([1, -1, 2, 3])
            elif rr < 0.5:
                zv = x.numerator * rng.choice([1, -1, 2])
            elif rr < 0.6:
                zv = 0
            else:
                zv = signed(rng, nat(rng, "quick", 0.7))
            lit, zv = zlit(rng, tier, zv)
            if rng.random() < 0.5:
                if op == "div" and zv == 0 and rng.random() < 0.9:
                    op = "mul"
                steps.append("%sz,%d,%s" % (op, i, lit))
                if op == "div" and zv == 0:
                    break
                v = {"add": x + zv, "sub": x - zv, "mul": x * zv}.get(op)
                regs.append((x / zv if op == "div" else v, k))
            else:
                if op == "div" and x == 0 and rng.random() < 0.9:
                    op = "sub"
                steps.append("z%s,%s,%d" % (op, lit, i))
                if op == "div" and x == 0:
                    break
                v = {"add": zv + x, "sub": zv - x, "mul": zv * x}.get(op)
                regs.append((zv / x if op == "div" else v, k))
    return Case("prog", toks + [";"] + steps)


W = 64
UMAX = (1 << 64) - 1


def extreme_exponents(rng, n):
    """ROUND4 addendum E1: the usize exponent of `pow` at every machine boundary (cheap only for the bases 0, 1, -1)"""
    fixed = [0, 1, 2, 3, W - 1, W, W + 1, 2 * W, 1 << 31, (1 << 32) - 1, 1 << 32, 1 << 63, (1 << 63) - 1, UMAX, UMAX - 1]
    out = list(fixed)
    for _ in range(n):
        r = rng.random()
        if r < 0.35:
            out.append((1 << 32) + rng.randrange(130))
        elif r < 0.7:
            out.append(UMAX - rng.randrange(131))
        elif r < 0.85:
            out.append((1 << 63) + rng.randrange(-130, 130))
        else:
            out.append(rng.getrandbits(rng.choice([16, 31, 33, 48, 63, 64])))
    return out


def generate(rng, tier):
    quick = tier == "quick"
    # ---- E1: extreme usize exponents of pow on the bases whose powers are cheap (0, 1, -1; RBig and Relaxed)
    for n in extreme_exponents(rng, 40 if quick else 600):
        base = rng.choice([(0, 1), (1, 1), (-1, 1), (-1, 1)])
        yield Case("q.pow", [q(base[0], base[1], rng.choice("RX")), "d:%d" % n])
    for _ in range(30 if quick else 400):
        # the same inside programs (parity of the exponent decides the sign that later steps see)
        k = rng.choice("RX")
        n1, n2 = rng.choice(extreme_exponents(rng, 8)), rng.choice(extreme_exponents(rng, 8))
        a, b = frac(rng, "quick")
        yield Case("prog", [q(-1, 1, k), q(a, b, k), ";", "pow,0,%d" % n1, "mul,2,1", "pow,2,%d" % n2, "add,3,4", "sub,4,2"])
    # moderate exponents on small bases: every shortcut of integer pow (exp < wexp, < 2*wexp, square-and-multiply)
    for _ in range(60 if quick else 1500):
        a = signed(rng, rng.choice([2, 3, 5, 6, 7, 10, 12, 255, 256, 65535, (1 << 32) - 1, (1 << 32) + 1]))
        b = rng.choice([1, 2, 3, 7, 9, 10, 16, 255, (1 << 31) + 1])
        n = rng.choice([0, 1, 2, 3, 4, 7, 8, 15, 16, 20, 31, 32, 33, 40, 63, 64, 65, 100, 127, 128, 129, 200])
        yield Case("q.pow", [q(a, b, rng.choice("RX")), "d:%d" % n])
    # ---- E2: boundary classes for k of EVERY bit length (not only near the ends of the word)
    edge = [1, 2, 3, 31, 32, 33, 63, 64, 65, 66, 95, 96, 127, 128, 129, 130, 191, 192, 193, 255, 256, 257]
    lens = list(range(1, 321)) if not quick else sorted(set(edge + [rng.randrange(1, 321) for _ in range(30)]))
    reps = 1 if quick else 3
    for L in lens:
        for _ in range(reps):
            k = rng.getrandbits(L) | (1 << (L - 1))
            kk = rng.choice("RX")
            # exact ties and just-off ties of `%` and round(): x / y = ±(k + 1/2) (+- 1/(2m))
            yn, yd = signed(rng, pos(rng, "quick", 0.7)), pos(rng, "quick", 0.7)
            sgn_ = rng.choice([1, -1])
            xn, xd = sgn_ * (2 * k + 1) * yn, 2 * yd
            yield Case("q.rem", [q(xn, xd, kk), q(yn, yd, kk)])
            m = rng.getrandbits(rng.choice([1, 8, 64, L])) + 1
            off = rng.choice([1, -1])
            yield Case("q.rem", [q(xn * m + off * yn, xd * m, kk), q(yn, yd, kk)])
            yield Case("q." + rng.choice(["round", "floor", "ceil", "trunc", "fract", "split"]), [q(sgn_ * (2 * k + 1), 2, kk)])
            yield Case("q." + rng.choice(["round", "floor", "ceil", "trunc"]), [q(sgn_ * ((2 * k + 1) * m + off), 2 * m, kk)])
            yield Case("q.remeuclid", [q(sgn_ * k * yn + rng.choice([0, 1, -1]), yd, kk), q(yn, yd, kk)])
            # 2^e ± 1 components; common powers of two of every count (reduce2 shifts across word boundaries)
            e2 = rng.randrange(1, 321)
            a = signed(rng, (1 << L) + rng.choice([-1, 0, 1]))
            b = max(1, (1 << e2) + rng.choice([-1, 0, 1]))
            yield Case("q." + rng.choice(BIN), [q(a, b, kk), q(signed(rng, b), max(1, abs(a)), kk)])
            o1, o2 = rng.getrandbits(rng.choice([1, 40, 70])) | 1, rng.getrandbits(rng.choice([1, 40, 70])) | 1
            yield Case("q.fromparts", [hx(signed(rng, o1 << L)), "%x" % (o2 << e2), kk])
            yield Case("q." + rng.choice(["add", "sub", "mul", "div"]), [q(o1 << L, o2, "X"), q(o2, o1 << e2, "X")])
            # gcd hint g of this bit length: denominators g*b', g*d', numerator sum cancelling all / part / none of g
            g = k
            bp, dp = pos(rng, "quick", 0.8), pos(rng, "quick", 0.8)
            a1 = signed(rng, pos(rng, "quick", 0.8))
            c1 = signed(rng, pos(rng, "quick", 0.8))
            if gcd(bp, g) == 1 and rng.random() < 0.6:
                gp = gcd(g, rng.choice([g, 2, 3, 6, 1 << 64]))
                if gp > 1:
                    c1 = (-a1 * dp * pow(bp, -1, gp)) % gp + gp * rng.getrandbits(rng.choice([1, 64]))
            yield Case("q." + rng.choice(["add", "sub", "rem", "remeuclid", "divremeuclid"]), [q(a1, g * bp, "R"), q(c1, g * dp, "R")])
            # cross factors of this bit length for mul / div and the mixed integer forms
            yield Case("q." + rng.choice(["mul", "div"]), [q(a1 * g, bp, "R"), q(c1, dp * g, "R")])
            lit, zv = zlit(rng, tier, signed(rng, g * rng.choice([1, 2, 3])))
            yield Case(rng.choice(["q.mulz", "q.divz"]), [q(a1 * g, bp * g + 1, "R"), lit])
            yield Case(rng.choice(["q.zmul", "q.zdiv"]), [lit, q(a1 * g + 1, bp * g, "R")])
    # ---- predicates / accessors / constants of rbig.rs and sign.rs (is_zero, is_one, is_int, sign, into_parts, clone_from)
    yield Case("qp.consts", ["R"])
    yield Case("qp.consts", ["X"])
    for _ in range(300 if quick else 6000):
        a, b = frac(rng, tier)
        r = rng.random()
        if r < 0.15:
            a = b * rng.choice([1, 1, -1])        # value ±1, stored as n/n for a Relaxed with odd n
        elif r < 0.25:
            b = 1
        elif r < 0.30:
            a = signed(rng, 1)
        elif r < 0.33:
            b = 0                                  # constructor panic
        yield Case("qp.preds", [q(a, b, rng.choice("RX"))])
    # ---- binary ops on related pairs
    for _ in range(3000 if quick else 90000):
        (a, b), (c, d) = related_pair(rng, tier)
        k = rng.choice("RRX")
        op = rng.choice(BIN + ["diveuclid", "divremeuclid"])
        yield Case("q." + op, [q(a, b, k), q(c, d, k)])
    for _ in range(400 if quick else 12000):
        (a, b), (c, d) = related_pair(rng, tier)
        yield Case("rx." + rng.choice(BIN), [q(a, b, "R"), q(c, d, "R")])
    # ---- unary
    for _ in range(1000 if quick else 25000):
        a, b = frac(rng, tier)
        k = rng.choice("RX")
        op = rng.choice(UN + ["relax", "canon", "split", "trunc", "floor", "ceil", "round", "pow", "mulsign"])
        if op in ("trunc", "floor", "ceil", "round", "split", "fract") and rng.random() < 0.4:
            # exact halves / integers / just off
            b = rng.choice([1, 2, 2, 4])
            a = signed(rng, nat(rng, tier, 0.7))
        if op == "pow":
            n = rng.choice([0, 1, 2, 3, 4, 5, 8, 17])
            if max(abs(a).bit_length(), b.bit_length()) * n > (20000 if quick else 200000):
                n = 2
            yield Case("q.pow", [q(a, b, k), "d:%d" % n])
        elif op == "mulsign":
            yield Case("q.mulsign", [q(a, b, k), rng.choice("+-")])
        else:
            yield Case("q." + op, [q(a, b, k)])
    # ---- mixed with integers
    for _ in range(1000 if quick else 25000):
        a, b = frac(rng, tier)
        k = rng.choice("RX")
        op = rng.choice(INTOPS)
        r = rng.random()
        if r < 0.25:
            zv = b * rng.choice([1, -1, 2, 6])
        elif r < 0.45:
            zv = a * rng.choice([1, -1, 2]) if a else 0
        elif r < 0.55:
            zv = 0
        elif r < 0.7:
            g = gcd(abs(a), b) or 1
            zv = signed(rng, (abs(a) // g) * pos(rng, tier, 0.8))
        else:
            zv = None
        lit, zv = zlit(rng, tier, zv)
        if rng.random() < 0.5:
            yield Case("q.%sz" % op, [q(a, b, k), lit])
        else:
            yield Case("q.z%s" % op, [lit, q(a, b, k)])
    # ---- constructors
    for _ in range(400 if quick else 10000):
        a, b = frac(rng, tier)
        k = rng.choice("RX")
        r = rng.random()
        if r < 0.4:
            if rng.random() < 0.05:
                b = 0
            yield Case("q.fromparts", [hx(a), "%x" % b, k])
        elif r < 0.7:
            bb = signed(rng, b) if rng.random() > 0.05 else 0
            yield Case("q.frompartssigned", [hx(a), hx(bb), k])
        else:
            n = abs(a) % (1 << 128); d = b % (1 << 128)
            if rng.random() < 0.5:
                g = rng.getrandbits(rng.choice([1, 8, 30, 60]))or 1
                n = rng.getrandbits(rng.choice([3, 20, 64])) * g % (1 << 128)
                d = rng.getrandbits(rng.choice([3, 20, 64])) * g % (1 << 128)
            if rng.random() < 0.05:
                d = 0
            yield Case("q.frompartsconst", [rng.choice("+-"), "%x" % n, "%x" % d, k])
    # ---- E1: from_parts_const at the DoubleWord boundaries (both magnitudes are u128 with 64-bit words)
    dw = [0, 1, 2, 3, (1 << 63) - 1, 1 << 63, (1 << 64) - 1, 1 << 64, (1 << 64) + 1, (1 << 127) - 1, 1 << 127, (1 << 127) + 1]
    for _ in range(150 if quick else 4000):
        def pick():
            r = rng.random()
            if r < 0.45:
                return rng.choice(dw)
            if r < 0.75:
                return (1 << 128) - 1 - rng.randrange(131)
            if r < 0.9:
                return (1 << 64) + rng.randrange(-130, 131)
            return rng.getrandbits(rng.choice([2, 64, 65, 127, 128]))
        n, d = pick(), pick()
        if rng.random() < 0.4 and d > 1:
            # a common factor that survives in u128: n = g*n', d = g*d'
            g = rng.choice([2, 3, (1 << 32) + 15, (1 << 64) - 59, 1 << 63])
            n, d = (g * rng.getrandbits(rng.choice([1, 30, 63]))) % (1 << 128), (g * (rng.getrandbits(rng.choice([1, 30, 63])) | 1)) % (1 << 128)
        yield Case("q.frompartsconst", [rng.choice("+-"), "%x" % n, "%x" % d, rng.choice("RX")])
    # ---- register programs
    for _ in range(1200 if quick else 40000):
        yield gen_prog(rng, tier)


LEVEL_TEXT = ("Machine-checked Lean 4 theorems, for all integers (no size bound) and all finite operation sequences: every RBig "
              "operation of rational/src/{add,mul,div,sign,round,rbig}.rs, modelled macro body by macro body over exact integer "
              "arithmetic, returns a pair with positive denominator coprime to the numerator whose value in Lean's Rat equals the "
              "exact result (incl. the gcd-hint reduction of addition and the cross-gcd cancellation of mul/div), panics with "
              "DivideByZero exactly on zero divisors, Relaxed operations return the same values and reduce2 strips exactly the "
              "common power of two; history theorems over register programs (invariants, values, Relaxed = RBig over whole histories, "
              "reduce2 fixed point); sign corners of pow/inv; predicates. Tie A: all 24 operator macro bodies of rational/src/{add,mul,div}.rs, "
              "their 48 invocations and 22 Repr-level function bodies (reductions, rounding, inverse, sign, powers, constructors incl. the const Euclid loop) are "
              "regenerated from /repo on every run and proved equal to the model functions for all inputs (Props/C04Gen). Tie B: differential execution (numerator()/denominator() as stored, all ownership/assign call forms, "
              "programs of 1-40 steps feeding results back, extreme usize exponents).")
LEVEL_NOTE = ("Trusted: Lean kernel; axioms propext/Classical.choice/Quot.sound; the correspondence harness and generators "
              "(sampling) for the tie model<->code; dashu-int kernels (gcd, mul, div, shifts, trailing_zeros) are taken at their "
              "contracts here and are the subject of C01/C02/C09/C12.")
TECHNIQUE = "Lean 4 refinement proofs over Int/Nat gcd theory (Mathlib IsCoprime) + differential correspondence model vs real code"
