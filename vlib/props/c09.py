"""C09 — bit operations follow infinite two's-complement semantics (DESIGN §8 C09)."""
from vlib.core import Case
from vlib.gens import hx, dec

GROUP = "bits"
LEAN_PROPS = "Dashu.Props.C09"
LEAN_AUDIT = "Dashu.Audit.C09"
JOBS = 12
READY = True

W = 64
B = 1 << W
M = B - 1


# ------------------------------------------------------------------ structured magnitudes

MAG_PATTERNS = ["random", "random", "allones", "lowzero", "lowones", "pow2", "pow2m1", "pow2p1",
                "word0", "hiones", "sparse", "oneplus", "minus_small"]


def mag(rng, nwords, pat):
    """a natural number of exactly `nwords` words (top word non-zero) following a bit pattern built
    from the branch conditions of bits.rs / shift_ops.rs"""
    if nwords == 0:
        return 0
    bits = nwords * W
    lo_bound = 1 << (bits - W)
    if pat == "allones":
        return (1 << bits) - 1
    if pat == "lowzero":                      # random top words, k low words zero
        k = rng.randrange(0, nwords)
        top = rng.getrandbits((nwords - k) * W) | (1 << ((nwords - k) * W - rng.randrange(1, W + 1)))
        top &= (1 << ((nwords - k) * W)) - 1
        if top >> ((nwords - k - 1) * W) == 0:
            top |= 1 << ((nwords - k - 1) * W)
        return top << (k * W)
    if pat == "lowones":                      # k low words all ones, then a word that is not MAX
        k = rng.randrange(0, nwords)
        v = rng.getrandbits(bits) | lo_bound
        v |= (1 << (k * W)) - 1
        if k < nwords and rng.random() < 0.7:
            v &= ~(1 << (k * W + rng.randrange(0, W)))     # make word k != MAX
        if v >> (bits - W) == 0:
            v |= lo_bound
        return v
    if pat == "hiones":                       # word 0 arbitrary, words 1.. all MAX
        w0 = rng.choice([0, 1, 5, M, M - 1, rng.getrandbits(W)])
        return (((1 << (bits - W)) - 1) << W) | w0 if nwords > 1 else (w0 or 1)
    if pat == "pow2":
        return 1 << rng.randrange(bits - W, bits)
    if pat == "pow2m1":
        return (1 << rng.randrange(bits - W + 1, bits + 1)) - 1
    if pat == "pow2p1":
        return (1 << rng.randrange(bits - W, bits)) + 1
    if pat == "word0":                        # only word 0 and the top word non-zero
        return (rng.getrandbits(W) | 1) | (rng.choice([1, M, 1 << 63, rng.getrandbits(W) | 1]) << (bits - W)) \
            if nwords > 1 else (rng.getrandbits(W) | 1)
    if pat == "sparse":
        v = 1 << rng.randrange(bits - W, bits)
        for _ in range(rng.randrange(1, 4)):
            v |= 1 << rng.randrange(0, bits)
        return v
    if pat == "oneplus":                      # 1 + 2^k·odd : exercises trailing_zeros_large_shifted_by_one
        k = rng.choice([1, 2, 62, 63, 64, 65, 127, 128, 129, bits - 1])
        k = min(k, bits - 1)
        v = 1 | (1 << k) | ((rng.getrandbits(bits) >> k) << k)
        v &= (1 << bits) - 1
        return v | lo_bound if v < lo_bound else v
    if pat == "minus_small":                  # 2^bits - small
        return (1 << bits) - rng.choice([1, 2, 3, 1 << 63, (1 << 64) - 1, 1 << 64]) if nwords > 1 else M
    v = rng.getrandbits(bits)
    return v | lo_bound if v < lo_bound else v


def sizes(tier):
    s = [0, 1, 1, 1, 2, 2, 2, 2, 3, 3, 3, 3, 4, 4, 4, 5]
    if tier == "thorough":
        s += [6, 7, 8, 9, 17, 33, 40, 100]
    else:
        s += [6, 9]
    return s


def nat(rng, tier, n=None):
    n = rng.choice(sizes(tier)) if n is None else n
    return mag(rng, n, rng.choice(MAG_PATTERNS))


def sgn(rng, v, p=0.5):
    return -v if rng.random() < p else v


def nwords(v):
    return (abs(v).bit_length() + W - 1) // W


def counts(rng, v, big_ok=False):
    """bit positions / shift counts around every threshold of the code for an operand of len words"""
    ln = max(nwords(v), 1)
    c = [0, 1, W - 1, W, W + 1, 2 * W - 1, 2 * W, 2 * W + 1, 3 * W, ln * W - 1, ln * W, ln * W + 1,
         abs(v).bit_length(), max(abs(v).bit_length() - 1, 0), abs(v).bit_length() + 1]
    tz = (abs(v) & -abs(v)).bit_length() - 1 if v else 0
    c += [tz, tz + 1, max(tz - 1, 0)]
    c += [rng.randrange(0, ln * W + 70) for _ in range(3)]
    if big_ok:
        c += [1000000]
    return c


USIZE_MAX = (1 << 64) - 1

# "huge usize argument": every value class at which a usize -> u32 / u64 cast, a `n + (W-1)` style rounding or a
# comparison done after a narrowing could go wrong.  Only for operations that are cheap there (the result is the
# operand, 0 or -1): >>, >>=, bit, clear_bit, clear_high_bits, split_bits (never <<, set_bit, ones).
HUGE_NAMED = [255, 256, 257, (1 << 16) - 1, 1 << 16, (1 << 16) + 1, (1 << 24) + 3,
              1 << 31, (1 << 31) + 1, (1 << 32) - 1, 1 << 32, 1 << 33, (1 << 40) + 5, (3 << 32) + 64, (1 << 48) + 127,
              (1 << 63) - 1, 1 << 63, (1 << 63) + 1, (1 << 63) + 64, USIZE_MAX - 63, USIZE_MAX - 64, USIZE_MAX]
HUGE_ABOVE_U32 = [(1 << 32) + k for k in range(130)]
HUGE_BELOW_MAX = [USIZE_MAX - k for k in range(130)]
HUGE_OPS_U = ["u.shr", "u.bit", "u.clearbit", "u.clearhigh", "u.splitbits"]
HUGE_OPS_I = ["i.shr", "i.bit"]


def huge_counts(rng, tier):
    if tier == "thorough":
        return HUGE_NAMED + HUGE_ABOVE_U32 + HUGE_BELOW_MAX
    return (HUGE_NAMED + rng.sample(HUGE_ABOVE_U32, 22) + [(1 << 32) + 127, (1 << 32) + 128]
            + rng.sample(HUGE_BELOW_MAX, 22) + [USIZE_MAX - 62, USIZE_MAX - 1])


def huge_operands(rng, tier):
    """inline (1 and 2 words) and heap (3.. words) magnitudes, incl. low words zero / all ones / a single bit"""
    ops = [1, 5, M, 1 << 63, (1 << 64), (1 << 127), (1 << 128) - 1, (1 << 100) + (1 << 70), mag(rng, 1, "random"),
           mag(rng, 2, "random"), mag(rng, 2, "lowzero"),
           1 << 128, (1 << 192) - 1, (1 << 191) + 1, mag(rng, 3, "random"), mag(rng, 3, "lowzero"), mag(rng, 4, "random"),
           mag(rng, 5, "lowones"), mag(rng, 6, "sparse")]
    if tier == "thorough":
        ops += [nat(rng, tier) for _ in range(45)] + [0]
    else:
        ops = rng.sample(ops[:11], 5) + rng.sample(ops[11:], 5)
    return ops


PRIM_U = [("u8", 8), ("u16", 16), ("u32", 32), ("u64", 64), ("u128", 128), ("usize", 64)]
PRIM_I = [("i8", 8), ("i16", 16), ("i32", 32), ("i64", 64), ("i128", 128), ("isize", 64)]


def prim_val(rng, bits, signed):
    if signed:
        lo, hi = -(1 << (bits - 1)), (1 << (bits - 1)) - 1
        return rng.choice([0, 1, -1, lo, hi, lo + 1, hi - 1, rng.randrange(lo, hi + 1), -(1 << rng.randrange(0, bits - 1))])
    hi = (1 << bits) - 1
    return rng.choice([0, 1, hi, hi - 1, 1 << (bits - 1), rng.randrange(0, hi + 1), (1 << rng.randrange(0, bits)) - 1])


def generate(rng, tier):
    quick = tier == "quick"
    # ---- binary bitwise ops, every sign pair, every size pair up to 4x4 (+ a few longer)
    n_bin = 1400 if quick else 60000
    for _ in range(n_bin):
        a = nat(rng, tier); b = nat(rng, tier)
        r = rng.random()
        if r < 0.08:
            b = a
        elif r < 0.16 and a:
            b = a + rng.choice([-1, 1])
        elif r < 0.22:
            b = (1 << (nwords(a) * W)) - 1 - a if a else b       # complement within the length
        op = rng.choice(["and", "or", "xor"])
        kind = rng.choice(["u", "i", "i", "i", "ui", "iu"])
        if kind == "u":
            yield Case("u." + op, [hx(a), hx(b)])
        elif kind == "i":
            yield Case("i." + op, [hx(sgn(rng, a)), hx(sgn(rng, b))])
        elif kind == "ui":
            yield Case("ui." + op, [hx(a), hx(sgn(rng, b, 0.6))])
        else:
            yield Case("iu." + op, [hx(sgn(rng, a, 0.6)), hx(b)])
    for _ in range(150 if quick else 5000):
        yield Case("i.not", [hx(sgn(rng, nat(rng, tier)))])
    # ---- primitives
    for _ in range(300 if quick else 12000):
        op = rng.choice(["and", "or", "xor"])
        if rng.random() < 0.4:
            ty, bits = rng.choice(PRIM_U)
            yield Case("up." + op, [hx(nat(rng, tier)), ty, hx(prim_val(rng, bits, False))])
        else:
            signed = rng.random() < 0.5
            ty, bits = rng.choice(PRIM_I if signed else PRIM_U)
            yield Case("ip." + op, [hx(sgn(rng, nat(rng, tier))), ty, hx(prim_val(rng, bits, signed))])
    # ---- shifts and positional ops: all the boundary counts for each operand
    n_pos = 140 if quick else 5000
    for _ in range(n_pos):
        a = nat(rng, tier)
        sa = sgn(rng, a, 0.6)
        for k in counts(rng, a):
            yield Case("u.shr", [hx(a), dec(k)])
            yield Case("i.shr", [hx(sa), dec(k)])
        for k in rng.sample(counts(rng, a), 6):
            yield Case("u.shl", [hx(a), dec(k)])
            yield Case("i.shl", [hx(sa), dec(k)])
            yield Case("u.bit", [hx(a), dec(k)])
            yield Case("i.bit", [hx(sa), dec(k)])
            yield Case("i.bit", [hx(-a), dec(k)])
            yield Case("u.setbit", [hx(a), dec(k)])
            yield Case("u.clearbit", [hx(a), dec(k)])
            yield Case("u.splitbits", [hx(a), dec(k)])
            yield Case("u.clearhigh", [hx(a), dec(k)])
    # shift counts of 10^6 where the result stays small (and a few where it does not)
    for _ in range(6 if quick else 60):
        a = nat(rng, tier)
        big = dec(1000000)
        yield Case("u.shr", [hx(a), big]); yield Case("i.shr", [hx(-a), big]); yield Case("i.shr", [hx(a), big])
        yield Case("u.bit", [hx(a), big]); yield Case("i.bit", [hx(-a), big])
        yield Case("u.clearbit", [hx(a), big]); yield Case("u.clearhigh", [hx(a), big])
        yield Case("u.splitbits", [hx(a), big])
    for _ in range(2 if quick else 10):
        a = nat(rng, tier)
        yield Case("u.shl", [hx(a), dec(1000000)]); yield Case("i.shl", [hx(-a), dec(1000000 + rng.randrange(0, 64))])
        yield Case("u.setbit", [hx(a), dec(1000000 + rng.randrange(0, 64))])
    # ---- tiny / exact-value operands: the arms that test for ONE value (`RefSmall(0)`, `RefSmall(1)` of trailing_ones_neg,
    #      `dword == 1` -> shl_one_spilled, `checked_next_power_of_two` overflowing the double word, -1, -2^64, -2^128+1)
    for a in [0, 1, 2, 3, M, B, B + 1, 1 << 127, (1 << 127) + 1, (1 << 128) - 1]:
        for op in ("u.tz", "u.to", "u.countones", "u.countzeros", "u.bitlen", "u.ispow2", "u.nextpow2"):
            yield Case(op, [hx(a)])
        for op in ("i.tz", "i.to", "i.bitlen", "i.not"):
            yield Case(op, [hx(a)])
            if a:
                yield Case(op, [hx(-a)])
        for k in (0, 1, 63, 64, 65, 127, 128, 129, 191, 192, 200, 256):
            for op in ("u.shl", "u.shr", "u.setbit", "u.clearbit", "u.bit", "u.splitbits", "u.clearhigh"):
                yield Case(op, [hx(a), dec(k)])
            for op in ("i.shl", "i.shr", "i.bit"):
                yield Case(op, [hx(-a), dec(k)])
    # ---- huge usize arguments (>= 2^31 .. usize::MAX) for every op that is cheap there, inline and heap, both signs
    for a in huge_operands(rng, tier):
        for k in huge_counts(rng, tier):
            for op in HUGE_OPS_U:
                yield Case(op, [hx(a), dec(k)])
            yield Case("i.shr", [hx(-a), dec(k)])
            yield Case("i.bit", [hx(-a), dec(k)])
            if k & 1:
                yield Case("i.shr", [hx(a), dec(k)]); yield Case("i.bit", [hx(a), dec(k)])
    # ---- scans, counts, powers of two
    for _ in range(500 if quick else 20000):
        a = nat(rng, tier)
        op = rng.choice(["u.tz", "u.to", "u.to", "i.tz", "i.to", "i.to", "i.to", "u.countones", "u.countzeros",
                         "u.bitlen", "i.bitlen", "u.ispow2", "u.nextpow2"])
        if op.startswith("i."):
            yield Case(op, [hx(sgn(rng, a))])
        else:
            yield Case(op, [hx(a)])
    # ---- power-of-two tests with exactly one non-zero word below a power-of-two top word (every position),
    #      and the same operands for next_power_of_two / trailing scans / count_zeros
    for nw in (3, 4, 5):
        for i in range(nw - 1):
            top = 1 << (W * (nw - 1) + rng.randrange(0, W))
            low = rng.choice([1, 1 << 63, M, rng.getrandbits(W) | 1]) << (W * i)
            for op in ("u.ispow2", "u.nextpow2", "u.tz", "u.to", "u.countzeros", "u.countones", "u.bitlen"):
                yield Case(op, [hx(top | low)])
            yield Case("u.ispow2", [hx(top)]); yield Case("u.nextpow2", [hx(top)])
            yield Case("i.to", [hx(-(top | low))]); yield Case("i.tz", [hx(-(top | low))])
    # ---- ones(n)
    for n in sorted(set([0, 1, 2, 63, 64, 65, 127, 128, 129, 191, 192, 193, 255, 256, 257, 1000, 4096]
                        + [rng.randrange(0, 700) for _ in range(20 if quick else 400)])):
        yield Case("u.ones", [dec(n)])
    yield Case("u.ones", [dec(1000000)])


def nontrivial(c):
    import re
    for a in c.args:
        if re.fullmatch(r"-?[0-9a-f]+", a) and len(a.lstrip("-")) > 32:
            return True        # an operand of >= 3 words
    if c.op in ("u.ones", "u.shl", "i.shl", "u.setbit") and c.args[-1].startswith("d:") and int(c.args[-1][2:]) >= 128:
        return True
    return False


RULE = ("operands: magnitudes of exactly 0..6,9 (thorough: ..100) words x patterns {random, all ones, low k words zero, "
        "low k words all ones then a non-MAX word, word 0 arbitrary + words 1.. all MAX, 2^k, 2^k-1, 2^k+1, only word 0 and "
        "top word set, sparse, 1+2^k*odd, 2^(64n)-small} x every sign pair x {and,or,xor} x {UBig, IBig, UBig/IBig mixed "
        "both orders, primitive operands of all 12 types at 0/1/-1/min/max/random}; shift counts and bit positions "
        "{0,1,63,64,65,127,128,129,192, len*64-1, len*64, len*64+1, bit_len-1, bit_len, bit_len+1, tz-1, tz, tz+1, 3 random, 10^6} "
        "for <<, >>, bit, set_bit, clear_bit, split_bits, clear_high_bits; huge usize arguments {2^8+-1, 2^16+-1, 2^24+3, 2^31, "
        "2^31+1, 2^32-1, 2^32+k (k<130), 2^33, 2^40+5, 3*2^32+64, 2^48+127, 2^63-1, 2^63, 2^63+1, 2^63+64, usize::MAX-k (k<130)} "
        "(quick: the named ones + 24 sampled of each k-range; thorough: all) for the ops that are cheap there (>> and >>= in all six "
        "call forms on UBig and IBig of both signs, bit on UBig/IBig, clear_bit, clear_high_bits, split_bits) on inline 1-/2-word "
        "and heap 3..6-word operands (single bit, all ones, low words zero, random); <<, set_bit, ones are never given such "
        "arguments (they allocate n/64 words); trailing_zeros/ones, count_ones/zeros, bit_len, "
        "is_power_of_two, next_power_of_two on the same operands; ones(n) for n in {0..2,63..65,127..129,191..193,255..257,"
        "1000,4096,10^6, random < 700}; the exact-value operands {0,1,2,3,2^64-1,2^64,2^64+1,2^127,2^127+1,2^128-1} (and their "
        "negatives) x every unary op and x counts {0,1,63..65,127..129,191,192,200,256} for every positional op. Every case runs all ownership/assign call forms. Non-trivial := an operand of >= 3 "
        "words, or a produced value of >= 3 words; distinct := distinct (op,args) lines.")

REFINED = [
    "bitand_large / bitor_large / bitxor_large / and_not_large (+ _large_dword forms)",
    "BitAnd/BitOr/BitXor/AndNot dispatch on TypedRepr (inline/heap, lowest_dword shortcuts)",
    "TypedRepr::add_one / sub_one", "Not for IBig",
    "impl_ibig_bitand / impl_ibig_bitor / impl_ibig_bitxor (sign tables; hand model and text regenerated from source), "
    "impl_ubig_ibig_bitand, impl_ibig_ubig_bitand",
    "shift::shl_in_place, shr_in_place_with_carry, math::shl_dword, shl_dword/shl_one_spilled/shl_dword_spilled, shl_large(_ref)",
    "shr_dword, shr_large, shr_large_ref; Shl/Shr for IBig incl. are_dword_low_bits_nonzero / are_slice_low_bits_nonzero",
    "TypedReprRef::bit, BitTest::bit for IBig (negative arm)", "trailing_zeros_large, TypedReprRef::trailing_zeros",
    "trailing_ones_large, TypedReprRef::trailing_ones", "trailing_zeros_large_shifted_by_one, trailing_ones_neg",
    "Repr::ones", "clear_high_bits(_large)", "split_bits", "bit_len",
    "set_bit (with_bit_dword_spilled, with_bit_large)", "clear_bit", "count_ones", "count_zeros", "is_power_of_two",
    "next_power_of_two (next_power_of_two_large, checked_next_power_of_two spill)",
    "primitive-operand forms (impl_binop_with_primitive / impl_commutative_binop_with_primitive / assign forms): UBig::from / "
    "IBig::from (Repr::from_unsigned, from_signed), the operator, try_into().unwrap() for `& -> uN` — both operand orders",
    "driver-side specification search specTz (total, returns the unique count)",
    # round 4
    "math.rs helpers as REGENERATED text over overflow-checking machine integers (Gen/MathHelpers.lean): bit_len, ceil_log2, "
    "ceil_div, ceil_div_usize, round_up, round_up_usize, ones_word, ones_dword, shl_dword, shr_word — total on their domain, "
    "equal to their specification and to the hand model's ceilDiv / onesN / bitLenNat / mathShlDword / shrBits word step",
    "inline (Small(dword)) arms with a usize argument as REGENERATED text with truncating casts (Gen/BitsSmall.lean): shr_dword, "
    "are_dword_low_bits_nonzero, TypedReprRef::bit, clear_bit, clear_high_bits, split_bits — equal to the hand model's arm for "
    "every usize argument (guards before casts, clamps before casts, shifts only under their guard)",
    "word-index / bit-offset statements of the HEAP arms (`let idx / shift_words / shift_bits / n_words / n_top = …` of shl_one_spilled, "
    "shl_dword_spilled, shl_large(_ref), shr_large(_ref), bit, clear_bit, are_slice_low_bits_nonzero, with_bit_*, "
    "clear_high_bits_large) as REGENERATED text = n / W, n % W, ceilDiv n W of the full usize argument",
    "Repr::ones: the inline/heap thresholds (`n < WORD_BITS`, `n <= DWORD_BITS`), the `as _` casts and the heap word counts as "
    "REGENERATED text = reprOnes (code as it is); with the historical `<` the theorem fails",
    "shift.rs in full: shl_in_place, shr_in_place (incl. the shift == WORD_BITS arm -> shr_in_place_one_word), "
    "shr_in_place_with_carry (incl. a non-zero incoming carry and the shift == 0 early return), shr_in_place_one_word: mirrored in "
    "Model/Int/Div.lean (C02's model) and proved EQUAL to the bit model's shlBits / shrBits (Props/C09Shift.lean)",
    "the driver's evaluation of the specification for huge usize arguments (fastSpecShr, fastSpecBit, fastDivPow2, fastModPow2, "
    "fastClearBit) = the specification, all arguments",
]
FRONTIER = []

EXPLANATION = ("Theorems (all W >= 1, all lengths, canonical operands): the IBig sign tables composed with the unsigned word loops "
               "and add_one/sub_one produce, bit for bit (Mathlib Int.testBit), the AND/OR/XOR/NOT of the two's-complement "
               "operands and canonical results; mixed UBig/IBig AND equals the signed AND; << is *2^n; UBig >> is div 2^n in both "
               "implementations; IBig >> is floor division by 2^n; bit(n) on UBig/IBig is the n-th two's-complement bit; "
               "trailing_zeros/trailing_ones return the unique k with 2^k | x (resp. x+1) and odd quotient, without panics; "
               "ones(n) = 2^n-1 and canonical; clear_high_bits = mod 2^n, split_bits = (mod, div), bit_len = floor(log2)+1; set_bit/clear_bit "
               "change exactly bit n; count_ones = popcount, count_zeros = bit_len - popcount; is_power_of_two <=> 2^k; "
               "next_power_of_two = least power of two >= x; IBig::trailing_ones of -v = trailing zeros of v-1. "
               "Round 4: the helpers of math.rs and the inline arms of every operation with a usize argument are regenerated from the "
               "Rust text over overflow-checking machine integers with truncating casts and proved total + equal to the hand model for "
               "EVERY usize argument (so `(a + (b-1)) / b`, a guard after `as u32`, a clamp after a cast no longer check); the two "
               "mirrors of shift.rs (bit model / division model) are proved to be one model; the driver evaluates the specification for "
               "counts up to usize::MAX through guarded functions proved equal to it; for a count beyond the operand the required "
               "results (0 / -1 / the operand / the sign bit) are stated as a theorem (beyond_the_length). "
               "For the three defects repaired during this work (754b193, 94ebcdb, 283f2ad) a separately kept model of the old "
               "code is proved correct exactly outside the defect class and wrong on the witness.")
ASSUMPTIONS = ["machine-word primitives (&,|,^,!,<<,>>, leading/trailing_zeros, count_ones, checked_next_power_of_two) "
               "behave as their documented contracts on Nat",
               "usize/isize are 64 bits on the host that runs the harness",
               "regenerated machine-integer text (Gen/MathHelpers, Gen/BitsSmall): an operation that overflows is `none` (debug-build "
               "panic semantics); `2*WORD_BITS < 2^32` (a double-word bit count fits u32) for the cast-carrying arms",
               "IBig::bit_len is specified as the bit length of |x| (2 of the 3 characterisations in dashu_base::BitTest's doc; "
               "the third, 'index of the top 0 bit plus one', disagrees with them at x = -2^k)"]

THEOREMS = ["Dashu.Props.C09." + n for n in [
    "spec_bit_is_testBit", "int_determined_by_bits", "spec_and_bits", "spec_or_bits", "spec_xor_bits", "spec_not_bits",
    "ibig_and", "ibig_or", "ibig_xor", "ibig_not", "ibig_and_value", "ibig_or_value", "ibig_xor_value", "mixed_and",
    "and_with_nonneg_fits", "ubig_and_or_xor", "shl_exact", "ibig_shl_exact", "shr_exact", "ibig_shr_floor",
    "ibig_shr_asis_outside_defect", "ibig_shr_asis_counterexample", "ubig_bit", "ibig_bit", "trailing_zeros",
    "trailing_count_unique", "trailing_ones", "trailing_ones_asis_outside_defect", "trailing_ones_asis_counterexample",
    "ones_exact", "ones_asis_counterexample", "clear_high_bits", "split_bits", "bit_len", "set_bit", "clear_bit", "count_ones",
    "count_zeros", "is_power_of_two", "next_power_of_two", "trailing_ones_negative", "driver_specs",
    "primitive_forms", "primitive_types_ok", "spec_tz_total", "driver_specs_huge", "beyond_the_length"]] + [
    "Dashu.Props.GenBits." + n for n in ["gen_ibig_bitand", "gen_ibig_bitor", "gen_ibig_bitxor",
                                         "gen_ibig_bitand_bits", "gen_ibig_bitor_bits", "gen_ibig_bitxor_bits"]] + [
    "Dashu.Props.GenMath." + n for n in ["gen_bit_len", "gen_ceil_log2", "ceilDiv_spec", "gen_ceil_div", "gen_ceil_div_usize",
                                         "gen_round_up", "gen_round_up_usize", "gen_ones_word", "gen_ones_dword",
                                         "gen_ones_word_out_of_domain", "gen_shl_dword", "gen_shr_word",
                                         "shrBits_step_is_shr_word"]] + [
    "Dashu.Props.GenBitsSmall." + n for n in ["gen_shr_dword", "gen_are_dword_low_bits_nonzero", "gen_bit_small",
                                              "gen_clear_bit_small", "gen_clear_high_bits_small", "gen_split_bits_small",
                                              "gen_heap_indices", "gen_clear_high_bits_large_n_words", "gen_ones_inline"]] + [
    "Dashu.Props.C09Shift." + n for n in ["shlBits_eq_shlLoop", "shlBits_eq_shlInPlace", "mathShlDword_eq", "shrBits_eq_shrLoop",
                                          "shrBits_eq_shrInPlace", "div_kernels_are_generated"]]

# Tie A: the IBig bit-operator sign tables are regenerated from integer/src/bits.rs on every run
# (lean/Dashu/Gen/Glue.lean) and proved equal to the same specification as the hand model's tables
USES_GEN = True
GEN_PROPS = ["Dashu.Props.GenBits"]
GEN_AUDIT = ["Dashu.Audit.GenBits"]
# Tie A, typed translator: the sign handling of `IBig >> usize` (rounding toward −∞) regenerated from shift_ops.rs = floor shift
GEN_PROPS += ["Dashu.Props.GenIntOps"]
GEN_AUDIT += ["Dashu.Audit.GenIntOps"]
# Tie A, checked machine integers: the helpers of integer/src/math.rs (bit_len, ceil_log2, ceil_div(_usize), round_up(_usize),
# ones_word, ones_dword, shl_dword, shr_word) regenerated statement by statement over overflow-checking operations; proved
# total on their domain, equal to their specification and to the definitions the hand model uses (ceilDiv, onesN, bitLenNat,
# mathShlDword, the word step of shrBits)
GEN_PROPS += ["Dashu.Props.GenMath"]
GEN_AUDIT += ["Dashu.Audit.GenMath"]
# Tie A, checked machine integers with truncating casts: the inline (`Small(dword)`) arms of every bit operation that takes a
# user-supplied usize (shr_dword, are_dword_low_bits_nonzero, bit, clear_bit, clear_high_bits, split_bits) regenerated and
# proved equal to the hand model's arm for EVERY usize argument
GEN_PROPS += ["Dashu.Props.GenBitsSmall"]
GEN_AUDIT += ["Dashu.Audit.GenBitsSmall"]
# the two mirrors of shift.rs / math.rs (bit model, division model) are one model, and its word kernels are the regenerated text
GEN_PROPS += ["Dashu.Props.C09Shift"]
GEN_AUDIT += ["Dashu.Audit.C09Shift"]

LEVEL_TEXT = ("Machine-checked Lean 4 theorems, for every word size and operand length, that the sign-case tables of & | ^ ! "
              "(also as regenerated from integer/src/bits.rs on every run) "
              "(magnitude-minus-one tricks over the unsigned word loops), <<, >> (IBig: floor division via the shifted-out-bits "
              "correction), bit tests on both signs, trailing_zeros/trailing_ones scans, ones(n), clear_high_bits, split_bits and "
              "bit_len compute exactly what infinite two's complement prescribes (stated bit by bit with Mathlib's Int.testBit, "
              "or as mod/div/2-adic valuation) and return canonical representations; the hand-written model is tied to /repo on "
              "every run by differential execution of model and real code over operands of exactly 0..9 (thorough: ..100) words in "
              "all the boundary patterns of the code, every sign pair, every call form, shift counts/bit positions at all "
              "multiples of the word size and beyond the length. Every operation named in the property (incl. set_bit/clear_bit, "
              "count_ones/zeros, is/next_power_of_two, trailing_ones of negatives) has its refinement theorem; the primitive-operand "
              "forms are proved equal to the operator on the converted values (using C06's conversion models) incl. the "
              "no-panic fact of `& -> uN`. Tie A (regenerated on every run, theorems re-checked): the IBig sign tables, the sign "
              "handling of IBig >>, the ten arithmetic helpers of math.rs and the six inline arms taking a usize — the latter two "
              "over overflow-checking machine integers with truncating casts, for every usize argument. Shift counts / bit positions "
              "up to usize::MAX are driven through every operation that is cheap there.")
LEVEL_NOTE = ("Trusted: Lean kernel; axioms propext/Classical.choice/Quot.sound; the correspondence harness and generators "
              "(sampling) for the tie model<->code; machine-word primitives at their documented contracts; operands assumed "
              "canonical (producer side is C05/C17). Items listed under frontier_kernels are decided by the correspondence "
              "against an independently computed specification, not by a theorem.")
TECHNIQUE = "Lean 4 refinement proofs (bit-extensionality via Nat.testBit / Int.testBit, all W) + differential correspondence model vs real code"
