"""C09 — bit operations follow infinite two's-complement semantics (DESIGN §8 C09)."""
from vlib.core import Case
from vlib.gens import hx, dec

GROUP = "bits"
LEAN_PROPS = "Dashu.Props.C09"
LEAN_AUDIT = "Dashu.Audit.C09"
JOBS = 12
READY = True

W = 64
B = 1 << W
M = B - 1


# ------------------------------------------------------------------ structured magnitudes

MAG_PATTERNS = ["random", "random", "allones", "lowzero", "lowones", "pow2", "pow2m1", "pow2p1",
                "word0", "hiones", "sparse", "oneplus", "minus_small"]


def mag(rng, nwords, pat):
    """a natural number of exactly `nwords` words (top word non-zero) following a bit pattern built
    from the branch conditions of bits.rs / shift_ops.rs"""
    if nwords == 0:
        return 0
    bits = nwords * W
    lo_bound = 1 << (bits - W)
    if pat == "allones":
        return (1 << bits) - 1
    if pat == "lowzero":                      # random top words, k low words zero
        k = rng.randrange(0, nwords)
        top = rng.getrandbits((nwords - k) * W) | (1 << ((nwords - k) * W - rng.randrange(1, W + 1)))
        top &= (1 << ((nwords - k) * W)) - 1
        if top >> ((nwords - k - 1) * W) == 0:
            top |= 1 << ((nwords - k - 1) * W)
        return top << (k * W)
    if pat == "lowones":                      # k low words all ones, then a word that is not MAX
        k = rng.randrange(0, nwords)
        v = rng.getrandbits(bits) | lo_bound
        v |= (1 << (k * W)) - 1
        if k < nwords and rng.random() < 0.7:
            v &= ~(1 << (k * W + rng.randrange(0, W)))     # make word k != MAX
        if v >> (bits - W) == 0:
            v |= lo_bound
        return v
    if pat == "hiones":                       # word 0 arbitrary, words 1.. all MAX
        w0 = rng.choice([0, 1, 5, M, M - 1, rng.getrandbits(W)])
        return (((1 << (bits - W)) - 1) << W) | w0 if nwords > 1 else (w0 or 1)
    if pat == "pow2":
        return 1 << rng.randrange(bits - W, bits)
    if pat == "pow2m1":
        return (1 << rng.randrange(bits - W + 1, bits + 1)) - 1
    if pat == "pow2p1":
        return (1 << rng.randrange(bits - W, bits)) + 1
    if pat == "word0":                        # only word 0 and the top word non-zero
        return (rng.getrandbits(W) | 1) | (rng.choice([1, M, 1 << 63, rng.getrandbits(W) | 1]) << (bits - W)) \
            if nwords > 1 else (rng.getrandbits(W) | 1)
    if pat == "sparse":
        v = 1 << rng.randrange(bits - W, bits)
        for _ in range(rng.randrange(1, 4)):
            v |= 1 << rng.randrange(0, bits)
        return v
    if pat == "oneplus":                      # 1 + 2^k·odd : exercises trailing_zeros_large_shifted_by_one
        k = rng.choice([1, 2, 62, 63, 64, 65, 127, 128, 129, bits - 1])
        k = min(k, bits - 1)
        v = 1 | (1 << k) | ((rng.getrandbits(bits) >> k) << k)
        v &= (1 << bits) - 1
        return v | lo_bound if v < lo_bound else v
    if pat == "minus_small":                  # 2^bits - small
        return (1 << bits) - rng.choice([1, 2, 3, 1 << 63, (1 << 64) - 1, 1 << 64]) if nwords > 1 else M
    v = rng.getrandbits(bits)
    return v | lo_bound if v < lo_bound else v


def sizes(tier):
    s = [0, 1, 1, 1, 2, 2, 2, 2, 3, 3, 3, 3, 4, 4, 4, 5]
    if tier == "thorough":
        s += [6, 7, 8, 9, 17, 33, 40, 100]
    else:
        s += [6, 9]
    return s


def nat(rng, tier, n=None):
    n = rng.choice(sizes(tier)) if n is None else n
    return mag(rng, n, rng.choice(MAG_PATTERNS))


def sgn(rng, v, p=0.5):
    return -v if rng.random() < p else v


def nwords(v):
    return (abs(v).bit_length() + W - 1) // W


def counts(rng, v, big_ok=False):
    """bit positions / shift counts around every threshold of the code for an operand of len words"""
    ln = max(nwords(v), 1)
    c = [0, 1, W - 1, W, W + 1, 2 * W - 1, 2 * W, 2 * W + 1, 3 * W, ln * W - 1, ln * W, ln * W + 1,
         abs(v).bit_length(), max(abs(v).bit_length() - 1, 0), abs(v).bit_length() + 1]
    tz = (abs(v) & -abs(v)).bit_length() - 1 if v else 0
    c += [tz, tz + 1, max(tz - 1, 0)]
    c += [rng.randrange(0, ln * W + 70) for _ in range(3)]
    if big_ok:
        c += [1000000]
    return c


USIZE_MAX = (1 << 64) - 1

# "huge usize argument": every value class at which a usize -> u32 / u64 cast, a `n + (W-1)` style rounding or a
# comparison done after a narrowing could go wrong.  Only for operations that are cheap there (the result is the
# operand, 0 or -1): >>, >>=, bit, clear_bit, clear_high_bits, split_bits (never <<, set_bit, ones).
HUGE_NAMED = [255, 256, 257, (1 << 16) - 1, 1 << 16, (1 << 16) + 1, (1 << 24) + 3,
              1 << 31, (1 << 31) + 1, (1 << 32) - 1, 1 << 32, 1 << 33, (1 << 40) + 5, (3 << 32) + 64, (1 << 48) + 127,
              (1 << 63) - 1, 1 << 63, (1 << 63) + 1, (1 << 63) + 64, USIZE_MAX - 63, USIZE_MAX - 64, USIZE_MAX]
HUGE_ABOVE_U32 = [(1 << 32) + k for k in range(130)]
HUGE_BELOW_MAX = [USIZE_MAX - k for k in range(130)]
HUGE_OPS_U = ["u.shr", "u.bit", "u.clearbit", "u.clearhigh", "u.splitbits"]
HUGE_OPS_I = ["i.shr", "i.bit"]


def huge_counts(rng, tier):
    if tier == "thorough":
        return HUGE_NAMED + HUGE_ABOVE_U32 + HUGE_BELOW_MAX
    return (HUGE_NAMED + rng.sample(HUGE_ABOVE_U32, 22) + [(1 << 32) + 127, (1 << 32) + 128]
            + rng.sample(HUGE_BELOW_MAX, 22) + [USIZE_MAX - 62, USIZE_MAX - 1])


def huge_operands(rng, tier):
    """inline (1 and 2 words) and heap (3.. words) magnitudes, incl. low words zero / all ones / a single bit"""
    ops = [1, 5, M, 1 << 63, (1 << 64), (1 << 127), (1 << 128) - 1, (1 << 100) + (1 << 70), mag(rng, 1, "random"),
           mag(rng, 2, "random"), mag(rng, 2, "lowzero"),
           1 << 128, (1 << 192) - 1, (1 << 191) + 1, mag(rng, 3, "random"), mag(rng, 3, "lowzero"), mag(rng, 4, "random"),
           mag(rng, 5, "lowones"), mag(rng, 6, "sparse")]
    if tier == "thorough":
        ops += [nat(rng, tier) for _ in range(45)] + [0]
    else:
        ops = rng.sample(ops[:11], 5) + rng.sample(ops[11:], 5)
    return ops


MAX_CAPACITY = USIZE_MAX // 64          # Buffer::MAX_CAPACITY (words)


def shl_request(x, n):
    """words `TypedRepr << n` asks `Buffer::allocate` for (shift_ops.rs, per arm); None: no allocation"""
    if x == 0:
        return None
    if x < (1 << 128):
        if x.bit_length() + n <= 128:
            return None
        return n // 64 + 1 if x == 1 else n // 64 + 3          # shl_one_spilled / shl_dword_spilled
    return n // 64 + nwords(x) + 1                               # shl_large -> shl_large_ref


def huge_left_cases(rng, tier):
    """<<, set_bit, ones with counts near usize::MAX.  These ops allocate n/64 words, so only the two classes that are cheap in
    the real code are driven: a ZERO operand of << (arm `Small(0)`: 0 for every count, all huge counts), and a count whose
    allocation request exceeds Buffer::MAX_CAPACITY (panic AllocTooMuch BEFORE anything is allocated) — for every arm from its
    LOWEST panicking count (2^64 - 64*c, c = 1 for 1 << n / set_bit / ones, 3 for other inline values, len+1 for heap values)
    up to usize::MAX.  The count just below each boundary (a real request of 2^58-1 words: out of memory) is never generated."""
    quick = tier == "quick"
    for k in huge_counts(rng, tier):
        yield Case("u.shl", [hx(0), dec(k)]); yield Case("i.shl", [hx(0), dec(k)])
    ops = [1, 2, 3, M, 1 << 64, (1 << 128) - 1, mag(rng, 2, "random"), 1 << 128, mag(rng, 3, "random"), mag(rng, 4, "lowzero"),
           mag(rng, 6, "sparse")]
    if not quick:
        ops += [nat(rng, tier) or 1 for _ in range(30)]
    for a in ops:
        c = shl_request(a, USIZE_MAX) - USIZE_MAX // 64
        lo = (1 << 64) - 64 * c
        ns = [lo, lo + 1, lo + 63, min(lo + 64, USIZE_MAX), USIZE_MAX - 64, USIZE_MAX - 63, USIZE_MAX - 1, USIZE_MAX]
        ns += [rng.randrange(lo, USIZE_MAX + 1) for _ in range(2 if quick else 12)]
        for n in sorted(set(ns)):
            if n < lo or shl_request(a, n) <= MAX_CAPACITY:
                continue
            yield Case("u.shl", [hx(a), dec(n)]); yield Case("i.shl", [hx(-a), dec(n)])
            if n & 1:
                yield Case("i.shl", [hx(a), dec(n)])
    lo = (1 << 64) - 64                         # set_bit / ones: idx + 1 = n/64 + 1 > MAX_CAPACITY  <=>  n >= 2^64 - 64
    ns = [lo, lo + 1, lo + 31, USIZE_MAX - 1, USIZE_MAX] + ([] if quick else list(range(lo, USIZE_MAX + 1)))
    for n in sorted(set(ns)):
        yield Case("u.ones", [dec(n)])
        for a in [0, 1, M, (1 << 128) - 1, 1 << 128, mag(rng, 3, "random"), mag(rng, 5, "lowones")]:
            yield Case("u.setbit", [hx(a), dec(n)])


PRIM_U = [("u8", 8), ("u16", 16), ("u32", 32), ("u64", 64), ("u128", 128), ("usize", 64)]
PRIM_I = [("i8", 8), ("i16", 16), ("i32", 32), ("i64", 64), ("i128", 128), ("isize", 64)]


def prim_val(rng, bits, signed):
    if signed:
        lo, hi = -(1 << (bits - 1)), (1 << (bits - 1)) - 1
        return rng.choice([0, 1, -1, lo, hi, lo + 1, hi - 1, rng.randrange(lo, hi + 1), -(1 << rng.randrange(0, bits - 1))])
    hi = (1 << bits) - 1
    return rng.choice([0, 1, hi, hi - 1, 1 << (bits - 1), rng.randrange(0, hi + 1), (1 << rng.randrange(0, bits)) - 1])


def generate(rng, tier):
    quick = tier == "quick"
    # ---- binary bitwise ops, every sign pair, every size pair up to 4x4 (+ a few longer)
    n_bin = 1400 if quick else 60000
    for _ in range(n_bin):
        a = nat(rng, tier); b = nat(rng, tier)
        r = rng.random()
        if r < 0.08:
            b = a
        elif r < 0.16 and a:
            b = a + rng.choice([-1, 1])
        elif r < 0.22:
            b = (1 << (nwords(a) * W)) - 1 - a if a else b       # complement within the length
        op = rng.choice(["and", "or", "xor"])
        kind = rng.choice(["u", "i", "i", "i", "ui", "iu"])
        if kind == "u":
            yield Case("u." + op, [hx(a), hx(b)])
        elif kind == "i":
            yield Case("i." + op, [hx(sgn(rng, a)), hx(sgn(rng, b))])
        elif kind == "ui":
            yield Case("ui." + op, [hx(a), hx(sgn(rng, b, 0.6))])
        else:
            yield Case("iu." + op, [hx(sgn(rng, a, 0.6)), hx(b)])
    for _ in range(150 if quick else 5000):
        yield Case("i.not", [hx(sgn(rng, nat(rng, tier)))])
    # ---- primitives
    for _ in range(300 if quick else 12000):
        op = rng.choice(["and", "or", "xor"])
        if rng.random() < 0.4:
            ty, bits = rng.choice(PRIM_U)
            yield Case("up." + op, [hx(nat(rng, tier)), ty, hx(prim_val(rng, bits, False))])
        else:
            signed = rng.random() < 0.5
            ty, bits = rng.choice(PRIM_I if signed else PRIM_U)
            yield Case("ip." + op, [hx(sgn(rng, nat(rng, tier))), ty, hx(prim_val(rng, bits, signed))])
    # ---- primitives, systematically: every macro instantiation (op x primitive type x UBig/IBig) x sign of the big operand x
    #      inline/heap x sign of a signed primitive at least once (each (op, type) pair is a distinct impl block in bits.rs)
    for op in ("and", "or", "xor"):
        for ty, bits in PRIM_U:
            for n in (rng.choice([1, 2]), rng.choice([3, 4, 5])):
                yield Case("up." + op, [hx(mag(rng, n, rng.choice(MAG_PATTERNS))), ty, hx(prim_val(rng, bits, False))])
                for neg in (False, True):
                    a = mag(rng, n, rng.choice(MAG_PATTERNS))
                    yield Case("ip." + op, [hx(-a if neg else a), ty, hx(prim_val(rng, bits, False))])
        for ty, bits in PRIM_I:
            for n in (rng.choice([1, 2]), rng.choice([3, 4, 5])):
                for neg in (False, True):
                    for pneg in (False, True):
                        a = mag(rng, n, rng.choice(MAG_PATTERNS))
                        v = rng.choice([-1, -(1 << (bits - 1)), -rng.randrange(1, 1 << (bits - 1))]) if pneg else \
                            rng.choice([0, 1, (1 << (bits - 1)) - 1, rng.randrange(0, 1 << (bits - 1))])
                        yield Case("ip." + op, [hx(-a if neg else a), ty, hx(v)])
    # ---- mixed UBig/IBig operators with two heap operands in each length relation (shorter / equal / longer first operand)
    for op in ("and", "or", "xor"):
        for lx, ly in ((3, 4), (4, 3), (3, 3), (5, 3)):
            for neg in (False, True):
                x = mag(rng, lx, rng.choice(MAG_PATTERNS)); y = mag(rng, ly, rng.choice(MAG_PATTERNS))
                yield Case("ui." + op, [hx(x), hx(-y if neg else y)])
                yield Case("iu." + op, [hx(-x if neg else x), hx(y)])
    # ---- shifts and positional ops: all the boundary counts for each operand
    n_pos = 140 if quick else 5000
    for _ in range(n_pos):
        a = nat(rng, tier)
        sa = sgn(rng, a, 0.6)
        for k in counts(rng, a):
            yield Case("u.shr", [hx(a), dec(k)])
            yield Case("i.shr", [hx(sa), dec(k)])
        for k in rng.sample(counts(rng, a), 6):
            yield Case("u.shl", [hx(a), dec(k)])
            yield Case("i.shl", [hx(sa), dec(k)])
            yield Case("u.bit", [hx(a), dec(k)])
            yield Case("i.bit", [hx(sa), dec(k)])
            yield Case("i.bit", [hx(-a), dec(k)])
            yield Case("u.setbit", [hx(a), dec(k)])
            yield Case("u.clearbit", [hx(a), dec(k)])
            yield Case("u.splitbits", [hx(a), dec(k)])
            yield Case("u.clearhigh", [hx(a), dec(k)])
    # shift counts of 10^6 where the result stays small (and a few where it does not)
    for _ in range(6 if quick else 60):
        a = nat(rng, tier)
        big = dec(1000000)
        yield Case("u.shr", [hx(a), big]); yield Case("i.shr", [hx(-a), big]); yield Case("i.shr", [hx(a), big])
        yield Case("u.bit", [hx(a), big]); yield Case("i.bit", [hx(-a), big])
        yield Case("u.clearbit", [hx(a), big]); yield Case("u.clearhigh", [hx(a), big])
        yield Case("u.splitbits", [hx(a), big])
    for _ in range(2 if quick else 10):
        a = nat(rng, tier)
        yield Case("u.shl", [hx(a), dec(1000000)]); yield Case("i.shl", [hx(-a), dec(1000000 + rng.randrange(0, 64))])
        yield Case("u.setbit", [hx(a), dec(1000000 + rng.randrange(0, 64))])
    # ---- tiny / exact-value operands: the arms that test for ONE value (`RefSmall(0)`, `RefSmall(1)` of trailing_ones_neg,
    #      `dword == 1` -> shl_one_spilled, `checked_next_power_of_two` overflowing the double word, -1, -2^64, -2^128+1)
    for a in [0, 1, 2, 3, M, B, B + 1, 1 << 127, (1 << 127) + 1, (1 << 128) - 1]:
        for op in ("u.tz", "u.to", "u.countones", "u.countzeros", "u.bitlen", "u.ispow2", "u.nextpow2"):
            yield Case(op, [hx(a)])
        for op in ("i.tz", "i.to", "i.bitlen", "i.not"):
            yield Case(op, [hx(a)])
            if a:
                yield Case(op, [hx(-a)])
        for k in (0, 1, 63, 64, 65, 127, 128, 129, 191, 192, 200, 256):
            for op in ("u.shl", "u.shr", "u.setbit", "u.clearbit", "u.bit", "u.splitbits", "u.clearhigh"):
                yield Case(op, [hx(a), dec(k)])
            for op in ("i.shl", "i.shr", "i.bit"):
                yield Case(op, [hx(-a), dec(k)])
            yield Case("i.shl", [hx(a), dec(k)])
    # ---- huge usize arguments (>= 2^31 .. usize::MAX) for every op that is cheap there, inline and heap, both signs
    for a in huge_operands(rng, tier):
        for k in huge_counts(rng, tier):
            for op in HUGE_OPS_U:
                yield Case(op, [hx(a), dec(k)])
            yield Case("i.shr", [hx(-a), dec(k)])
            yield Case("i.bit", [hx(-a), dec(k)])
            if k & 1:
                yield Case("i.shr", [hx(a), dec(k)]); yield Case("i.bit", [hx(a), dec(k)])
    # ---- huge counts for the allocating ops (<<, set_bit, ones): zero operand / request above Buffer::MAX_CAPACITY
    yield from huge_left_cases(rng, tier)
    # ---- scans, counts, powers of two
    for _ in range(500 if quick else 20000):
        a = nat(rng, tier)
        op = rng.choice(["u.tz", "u.to", "u.to", "i.tz", "i.to", "i.to", "i.to", "u.countones", "u.countzeros",
                         "u.bitlen", "i.bitlen", "u.ispow2", "u.nextpow2"])
        if op.startswith("i."):
            yield Case(op, [hx(sgn(rng, a))])
        else:
            yield Case(op, [hx(a)])
    # ---- power-of-two tests with exactly one non-zero word below a power-of-two top word (every position),
    #      and the same operands for next_power_of_two / trailing scans / count_zeros
    for nw in (3, 4, 5):
        for i in range(nw - 1):
            top = 1 << (W * (nw - 1) + rng.randrange(0, W))
            low = rng.choice([1, 1 << 63, M, rng.getrandbits(W) | 1]) << (W * i)
            for op in ("u.ispow2", "u.nextpow2", "u.tz", "u.to", "u.countzeros", "u.countones", "u.bitlen"):
                yield Case(op, [hx(top | low)])
            yield Case("u.ispow2", [hx(top)]); yield Case("u.nextpow2", [hx(top)])
            yield Case("i.to", [hx(-(top | low))]); yield Case("i.tz", [hx(-(top | low))])
    # ---- heap values whose LOW words are all zero: top word not a power of two / a power of two / above 2^63 (next_power_of_two
    #      pushes a new word without a carry from below); trailing ones of a POSITIVE IBig with exactly 0, 1, 2, all words of ones
    for nw in (3, 4, 6):
        for top in (3, 6, (1 << 63) + 1, M, 1 << 63, 1, rng.getrandbits(62) | (1 << 62) | 1):
            x = top << (W * (nw - 1))
            for op in ("u.ispow2", "u.nextpow2", "u.tz", "u.countzeros", "u.bitlen", "i.tz"):
                yield Case(op, [hx(x)])
        for k in range(nw + 1):
            x = ((rng.getrandbits(W * (nw - k)) | (1 << (W * (nw - k) - 1))) & ~1) << (W * k) | ((1 << (W * k)) - 1) if k < nw \
                else (1 << (W * nw)) - 1
            yield Case("i.to", [hx(x)]); yield Case("u.to", [hx(x)]); yield Case("i.to", [hx(-x - 1)]); yield Case("i.tz", [hx(x + 1)])
        # -(1 + 2^j * odd), j >= 64: trailing_ones_neg takes the shifted scan (words[0] == 1) with 0, 1, .. zero words above word 0
        for zw in range(nw - 1):
            j = W * (1 + zw) + rng.choice([0, 1, 62, 63])
            x = 1 | ((rng.getrandbits(W * nw - j - 1) | (1 << (W * nw - j - 1)) | 1) << j)
            yield Case("i.to", [hx(-x)]); yield Case("i.to", [hx(x)]); yield Case("i.bit", [hx(-x), dec(j)]); yield Case("i.not", [hx(-x)])
    # ---- ones(n)
    for n in sorted(set([0, 1, 2, 63, 64, 65, 127, 128, 129, 191, 192, 193, 255, 256, 257, 1000, 4096]
                        + [rng.randrange(0, 700) for _ in range(20 if quick else 400)])):
        yield Case("u.ones", [dec(n)])
    yield Case("u.ones", [dec(1000000)])


# ------------------------------------------------------------------ which arm of the code a case reaches
# `arm(case)` names the `if`/`match` arm of integer/src/{bits,shift_ops,shift}.rs (+ Repr::ones) a case takes, computed from the
# branch conditions of the source on the case's arguments.  `python3 -m vlib.props.c09 [quick|thorough]` prints the histogram
# over the generated stream and lists the arms of ALL_ARMS that are not reached.

def _sz(v):
    return "S" if abs(v) < (1 << 128) else "L"


def _shr_arm(x, k):
    if _sz(x) == "S":
        return "small-in" if k < 128 else "small-out"
    ln = nwords(x)
    if k // W >= ln:
        return "large-out"
    return "large-rem%s-%s" % (min(ln - k // W, 3), "bits0" if k % W == 0 else "bits")


def _lowbits_arm(x, k):
    if _sz(x) == "S":
        return "lb-small-clamped" if k >= 128 else "lb-small"
    if k // W >= nwords(x):
        return "lb-all"
    low = x & ((1 << (k // W * W)) - 1)
    return "lb-lowword" if low else "lb-top"


def _tz_words(x):
    n = 0
    while (x >> (W * n)) & M == 0:
        n += 1
    return n


def arm(c):
    op = c.op
    A = c.args
    def I(i):
        a = A[i]
        return int(a[2:]) if a.startswith("d:") else int(a, 16)
    if op in ("u.and", "u.or", "u.xor", "i.and", "i.or", "i.xor", "ui.and", "ui.or", "ui.xor", "iu.and", "iu.or", "iu.xor"):
        x, y = I(0), I(1)
        t = _sz(x) + _sz(y)
        if t == "LL":
            t += "<" if nwords(x) < nwords(y) else ("=" if nwords(x) == nwords(y) else ">")
        sg = ("-" if x < 0 else "+") + ("-" if y < 0 else "+") if op[0] != "u" or op[1] != "." else ""
        return "%s:%s%s" % (op, sg, t)
    if op == "i.not":
        x = I(0)
        return "i.not:%s%s" % ("-" if x < 0 else "+", _sz(x))
    if op in ("up.and", "up.or", "up.xor", "ip.and", "ip.or", "ip.xor"):
        x, v = I(0), I(2)
        return "%s:%s:%s%s%s" % (op, A[1], "-" if x < 0 else "+", _sz(x), "-" if v < 0 else "+")
    if op in ("u.shl", "i.shl"):
        x, k = abs(I(0)), I(1)
        sg = ("-" if I(0) < 0 else "+") if op[0] == "i" else ""
        if x == 0:
            t = "zero"
        elif shl_request(x, k) is not None and shl_request(x, k) > MAX_CAPACITY:
            t = "alloc-too-much-" + ("one" if x == 1 else _sz(x))
        elif _sz(x) == "S":
            t = "small-fits" if x.bit_length() + k <= 128 else ("one-spilled" if x == 1 else "dword-spilled")
        else:
            t = "large-bits0" if k % W == 0 else "large"
        return "%s:%s%s" % (op, sg, t)
    if op == "u.shr":
        return "u.shr:" + _shr_arm(I(0), I(1))
    if op == "i.shr":
        x, k = I(0), I(1)
        if x >= 0:
            return "i.shr:+" + _shr_arm(x, k)
        return "i.shr:-%s:%s" % (_shr_arm(-x, k), _lowbits_arm(-x, k))
    if op in ("u.bit", "i.bit"):
        x, k = I(0), I(1)
        m = abs(x)
        t = ("small-in" if k < 128 else "small-out") if _sz(m) == "S" else ("large-in" if k // W < nwords(m) else "large-out")
        if op == "i.bit":
            if x < 0:
                tz = (m & -m).bit_length() - 1
                t = "-" + ("eq" if k == tz else ("gt" if k > tz else "lt")) + ":" + t
            else:
                t = "+" + t
        return op + ":" + t
    if op in ("u.setbit", "u.clearbit"):
        x, k = I(0), I(1)
        if op == "u.setbit" and k // W + 1 > MAX_CAPACITY:
            return "u.setbit:alloc-too-much-" + _sz(x)
        if _sz(x) == "S":
            return op + (":small-in" if k < 128 else ":small-out")
        return op + (":large-in" if k // W < nwords(x) else ":large-out")
    if op in ("u.clearhigh", "u.splitbits"):
        x, k = I(0), I(1)
        if _sz(x) == "S":
            return op + (":small-in" if k < 128 else ":small-out")
        if op == "u.splitbits" and k == 0:
            return op + ":large-n0"
        nw = (k + W - 1) // W
        t = "large-beyond" if nw > nwords(x) else ("large-cut-aligned" if k % W == 0 else "large-cut-inside")
        if op == "u.splitbits":
            t += ":hi-" + _shr_arm(x, k)
        return op + ":" + t
    if op in ("u.tz", "i.tz"):
        x = abs(I(0))
        if x == 0:
            return op + ":zero"
        return op + (":small" if _sz(x) == "S" else ":large-zw%d" % min(_tz_words(x), 2))
    if op == "u.to" or (op == "i.to" and I(0) >= 0):
        x = I(0)
        if _sz(x) == "S":
            return op + ":+small"
        ow = _tz_words(x + 1) if (x + 1) >> (W * nwords(x)) == 0 else nwords(x)
        return op + (":+large-all-ones" if x + 1 == 1 << (W * nwords(x)) else ":+large-ow%d" % min(ow, 2))
    if op == "i.to":
        m = -I(0)
        if _sz(m) == "S":
            return "i.to:-small-one" if m == 1 else "i.to:-small"
        if m % 2 == 0:
            return "i.to:-large-even"
        zb = ((m & M) >> 1)
        zb = W if zb == 0 else (zb & -zb).bit_length() - 1
        if zb < W - 1:
            return "i.to:-large-odd-begin"
        return "i.to:-large-odd-scan-zw%d" % min(_tz_words(m >> W), 2)
    if op in ("u.countones", "u.bitlen", "i.bitlen", "u.ispow2"):
        x = abs(I(0))
        if op == "u.ispow2" and _sz(x) == "L":
            low = x & ((1 << (W * (nwords(x) - 1))) - 1)
            top = x >> (W * (nwords(x) - 1))
            return "u.ispow2:large-%s-%s" % ("lowzero" if low == 0 else "lownonzero", "toppow2" if top & (top - 1) == 0 else "topnot")
        return op + ":" + _sz(x)
    if op == "u.countzeros":
        x = I(0)
        return "u.countzeros:" + ("zero" if x == 0 else _sz(x))
    if op == "u.nextpow2":
        x = I(0)
        if _sz(x) == "S":
            return "u.nextpow2:" + ("small-spill" if x > 1 << 127 else "small")
        low = x & ((1 << (W * (nwords(x) - 1))) - 1)
        top = (x >> (W * (nwords(x) - 1))) + (1 if low else 0)
        return "u.nextpow2:large-carry%d-%s" % (1 if low else 0, "push" if top > 1 << 63 else "same")
    if op == "u.ones":
        k = I(0)
        if k // W + 1 > MAX_CAPACITY:
            return "u.ones:alloc-too-much"
        return "u.ones:" + ("word" if k < W else ("dword" if k <= 2 * W else ("heap-aligned" if k % W == 0 else "heap")))
    return op + ":?"


def _all_arms():
    out = set()
    for o in ("and", "or", "xor"):
        for t in ("SS", "SL", "LS", "LL<", "LL=", "LL>"):
            out.add("u.%s:%s" % (o, t))
            for sg in ("++", "+-", "-+", "--"):
                out.add("i.%s:%s%s" % (o, sg, t))
            for sg in ("++", "+-"):
                out.add("ui.%s:%s%s" % (o, sg, t))
            for sg in ("++", "-+"):
                out.add("iu.%s:%s%s" % (o, sg, t))
    out |= {"i.not:+S", "i.not:-S", "i.not:+L", "i.not:-L"}
    shl = ["zero", "small-fits", "one-spilled", "dword-spilled", "large-bits0", "large", "alloc-too-much-one", "alloc-too-much-S",
           "alloc-too-much-L"]
    out |= {"u.shl:" + t for t in shl} | {"i.shl:%s%s" % (sg, t) for sg in "+-" for t in shl if t != "zero"} | {"i.shl:+zero"}
    shr = ["small-in", "small-out", "large-out"] + ["large-rem%d-%s" % (r, b) for r in (1, 2, 3) for b in ("bits0", "bits")]
    out |= {"u.shr:" + t for t in shr} | {"i.shr:+" + t for t in shr}
    out |= {"i.shr:-%s:%s" % (t, lb) for t in ("small-in",) for lb in ("lb-small",)}
    out |= {"i.shr:-small-out:lb-small-clamped", "i.shr:-large-out:lb-all"}
    out |= {"i.shr:-%s:%s" % (t, lb) for t in shr if t.startswith("large-rem") for lb in ("lb-lowword", "lb-top")}
    pos = ["small-in", "small-out", "large-in", "large-out"]
    out |= {"u.bit:" + t for t in pos} | {"i.bit:+" + t for t in pos}
    out |= {"i.bit:-%s:%s" % (c_, t) for c_ in ("lt", "eq", "gt") for t in ("small-in", "large-in")}
    out |= {"i.bit:-gt:small-out", "i.bit:-gt:large-out"}
    out |= {o + ":" + t for o in ("u.setbit", "u.clearbit") for t in pos} | {"u.setbit:alloc-too-much-S", "u.setbit:alloc-too-much-L"}
    cut = ["large-beyond", "large-cut-aligned", "large-cut-inside"]
    out |= {"u.clearhigh:" + t for t in ["small-in", "small-out"] + cut}
    out |= {"u.splitbits:small-in", "u.splitbits:small-out", "u.splitbits:large-n0", "u.splitbits:large-beyond:hi-large-out"}
    out |= {"u.splitbits:large-cut-aligned:hi-large-rem%d-bits0" % r for r in (1, 2, 3)} | {"u.splitbits:large-cut-aligned:hi-large-out"}
    out |= {"u.splitbits:large-cut-inside:hi-large-rem%d-bits" % r for r in (1, 2, 3)}
    out |= {o + t for o in ("u.tz", "i.tz") for t in (":zero", ":small", ":large-zw0", ":large-zw1", ":large-zw2")}
    to = [":+small", ":+large-all-ones", ":+large-ow0", ":+large-ow1", ":+large-ow2"]
    out |= {"u.to" + t for t in to} | {"i.to" + t for t in to}
    out |= {"i.to:-small-one", "i.to:-small", "i.to:-large-even", "i.to:-large-odd-begin", "i.to:-large-odd-scan-zw0",
            "i.to:-large-odd-scan-zw1", "i.to:-large-odd-scan-zw2"}
    out |= {o + ":" + t for o in ("u.countones", "u.bitlen", "i.bitlen") for t in "SL"} | {"u.ispow2:S"}
    out |= {"u.ispow2:large-%s-%s" % (a, b) for a in ("lowzero", "lownonzero") for b in ("toppow2", "topnot")}
    out |= {"u.countzeros:zero", "u.countzeros:S", "u.countzeros:L"}
    out |= {"u.nextpow2:small", "u.nextpow2:small-spill", "u.nextpow2:large-carry0-same", "u.nextpow2:large-carry0-push",
            "u.nextpow2:large-carry1-same", "u.nextpow2:large-carry1-push"}
    out |= {"u.ones:word", "u.ones:dword", "u.ones:heap", "u.ones:heap-aligned", "u.ones:alloc-too-much"}
    for ty, _ in PRIM_U:
        for o in ("and", "or", "xor"):
            out |= {"up.%s:%s:+%s+" % (o, ty, z) for z in "SL"} | {"ip.%s:%s:%s%s+" % (o, ty, sg, z) for sg in "+-" for z in "SL"}
    for ty, _ in PRIM_I:
        for o in ("and", "or", "xor"):
            out |= {"ip.%s:%s:%s%s%s" % (o, ty, sg, z, sv) for sg in "+-" for z in "SL" for sv in "+-"}
    return out


ALL_ARMS = _all_arms()


def arm_histogram(tier="quick", seed=20260929):
    import random
    h = {}
    for c in generate(random.Random(seed), tier):
        t = arm(c)
        h[t] = h.get(t, 0) + 1
    return h


def nontrivial(c):
    import re
    for a in c.args:
        if re.fullmatch(r"-?[0-9a-f]+", a) and len(a.lstrip("-")) > 32:
            return True        # an operand of >= 3 words
    if c.op in ("u.ones", "u.shl", "i.shl", "u.setbit") and c.args[-1].startswith("d:") and int(c.args[-1][2:]) >= 128:
        return True
    return False


RULE = ("operands: magnitudes of exactly 0..6,9 (thorough: ..100) words x patterns {random, all ones, low k words zero, "
        "low k words all ones then a non-MAX word, word 0 arbitrary + words 1.. all MAX, 2^k, 2^k-1, 2^k+1, only word 0 and "
        "top word set, sparse, 1+2^k*odd, 2^(64n)-small} x every sign pair x {and,or,xor} x {UBig, IBig, UBig/IBig mixed "
        "both orders, primitive operands of all 12 types at 0/1/-1/min/max/random}; shift counts and bit positions "
        "{0,1,63,64,65,127,128,129,192, len*64-1, len*64, len*64+1, bit_len-1, bit_len, bit_len+1, tz-1, tz, tz+1, 3 random, 10^6} "
        "for <<, >>, bit, set_bit, clear_bit, split_bits, clear_high_bits; huge usize arguments {2^8+-1, 2^16+-1, 2^24+3, 2^31, "
        "2^31+1, 2^32-1, 2^32+k (k<130), 2^33, 2^40+5, 3*2^32+64, 2^48+127, 2^63-1, 2^63, 2^63+1, 2^63+64, usize::MAX-k (k<130)} "
        "(quick: the named ones + 24 sampled of each k-range; thorough: all) for the ops that are cheap there (>> and >>= in all six "
        "call forms on UBig and IBig of both signs, bit on UBig/IBig, clear_bit, clear_high_bits, split_bits) on inline 1-/2-word "
        "and heap 3..6-word operands (single bit, all ones, low words zero, random); <<, set_bit, ones are never given such "
        "arguments EXCEPT in the two classes that are cheap: `0 << n` (= 0) for every huge count, and counts whose allocation request "
        "exceeds Buffer::MAX_CAPACITY (per arm from its lowest panicking count 2^64-64c — c = 1 for `1 << n`, set_bit, ones; 3 for "
        "other inline values; len+1 for heap values — up to usize::MAX: panic AllocTooMuch, compared as a panic kind; the request "
        "formulas are C16's mirrored guards); trailing_zeros/ones, count_ones/zeros, bit_len, "
        "is_power_of_two, next_power_of_two on the same operands; ones(n) for n in {0..2,63..65,127..129,191..193,255..257,"
        "1000,4096,10^6, random < 700}; the exact-value operands {0,1,2,3,2^64-1,2^64,2^64+1,2^127,2^127+1,2^128-1} (and their "
        "negatives) x every unary op and x counts {0,1,63..65,127..129,191,192,200,256} for every positional op. Round 5: primitive "
        "operands systematically — every (op, primitive type, UBig/IBig) impl x sign of the big operand x inline/heap x sign of a signed "
        "primitive; mixed UBig/IBig operators on two heap operands in every length relation; heap values with all low words zero and "
        "top word {not a power of two, 2^63, > 2^63, MAX, 1}; positive IBig with exactly 0..len full words of trailing ones; "
        "-(1 + 2^j*odd) with j >= 64 (shifted scan with 0.. zero words). `arm(case)` in the module names the if/match arm of "
        "bits.rs / shift_ops.rs a case takes (571 arms listed in ALL_ARMS); `python3 -m vlib.props.c09 quick` prints the histogram: "
        "all 571 are reached in both tiers. Every case runs all ownership/assign call forms. Non-trivial := an operand of >= 3 "
        "words, or a produced value of >= 3 words; distinct := distinct (op,args) lines.")

REFINED = [
    "bitand_large / bitor_large / bitxor_large / and_not_large (+ _large_dword forms)",
    "BitAnd/BitOr/BitXor/AndNot dispatch on TypedRepr (inline/heap, lowest_dword shortcuts)",
    "TypedRepr::add_one / sub_one", "Not for IBig",
    "impl_ibig_bitand / impl_ibig_bitor / impl_ibig_bitxor (sign tables; hand model and text regenerated from source), "
    "impl_ubig_ibig_bitand, impl_ibig_ubig_bitand",
    "shift::shl_in_place, shr_in_place_with_carry, math::shl_dword, shl_dword/shl_one_spilled/shl_dword_spilled, shl_large(_ref)",
    "shr_dword, shr_large, shr_large_ref; Shl/Shr for IBig incl. are_dword_low_bits_nonzero / are_slice_low_bits_nonzero",
    "TypedReprRef::bit, BitTest::bit for IBig (negative arm)", "trailing_zeros_large, TypedReprRef::trailing_zeros",
    "trailing_ones_large, TypedReprRef::trailing_ones", "trailing_zeros_large_shifted_by_one, trailing_ones_neg",
    "Repr::ones", "clear_high_bits(_large)", "split_bits", "bit_len",
    "set_bit (with_bit_dword_spilled, with_bit_large)", "clear_bit", "count_ones", "count_zeros", "is_power_of_two",
    "next_power_of_two (next_power_of_two_large, checked_next_power_of_two spill)",
    "primitive-operand forms (impl_binop_with_primitive / impl_commutative_binop_with_primitive / assign forms): UBig::from / "
    "IBig::from (Repr::from_unsigned, from_signed), the operator, try_into().unwrap() for `& -> uN` — both operand orders",
    "driver-side specification search specTz (total, returns the unique count)",
    # round 4
    "math.rs helpers as REGENERATED text over overflow-checking machine integers (Gen/MathHelpers.lean): bit_len, ceil_log2, "
    "ceil_div, ceil_div_usize, round_up, round_up_usize, ones_word, ones_dword, shl_dword, shr_word — total on their domain, "
    "equal to their specification and to the hand model's ceilDiv / onesN / bitLenNat / mathShlDword / shrBits word step",
    "inline (Small(dword)) arms with a usize argument as REGENERATED text with truncating casts (Gen/BitsSmall.lean): shr_dword, "
    "are_dword_low_bits_nonzero, TypedReprRef::bit, clear_bit, clear_high_bits, split_bits — equal to the hand model's arm for "
    "every usize argument (guards before casts, clamps before casts, shifts only under their guard)",
    "word-index / bit-offset statements of the HEAP arms (`let idx / shift_words / shift_bits / n_words / n_top = …` of shl_one_spilled, "
    "shl_dword_spilled, shl_large(_ref), shr_large(_ref), bit, clear_bit, are_slice_low_bits_nonzero, with_bit_*, "
    "clear_high_bits_large) as REGENERATED text = n / W, n % W, ceilDiv n W of the full usize argument",
    "Repr::ones: the inline/heap thresholds (`n < WORD_BITS`, `n <= DWORD_BITS`), the `as _` casts and the heap word counts as "
    "REGENERATED text = reprOnes (code as it is); with the historical `<` the theorem fails",
    "shift.rs in full: shl_in_place, shr_in_place (incl. the shift == WORD_BITS arm -> shr_in_place_one_word), "
    "shr_in_place_with_carry (incl. a non-zero incoming carry and the shift == 0 early return), shr_in_place_one_word: mirrored in "
    "Model/Int/Div.lean (C02's model) and proved EQUAL to the bit model's shlBits / shrBits (Props/C09Shift.lean)",
    # round 5
    "shift.rs word loops as REGENERATED text (Gen/ShiftLoops.lean, vlib/extract_shift.py): the loop header (`for word in words` / "
    "`words.iter_mut().rev()` selects the fold direction), every statement of the loop body, the `shift == 0` early return, the "
    "initial carry and the result of shl_in_place / shr_in_place_with_carry, the arm selection of shr_in_place, and the recognised "
    "raw-pointer statement sequence of shr_in_place_one_word — total on the debug_assert!ed domain and EQUAL to the hand mirrors "
    "and to the bit model's shlBits / shrBits (Props/GenShift.lean); a change of direction, of the carry hand-over, of the shifted "
    "width or of the dispatch breaks a theorem",
    "primitive-typed forms, Tie A: the ten regenerated `fn` bodies of impl_binop_with_primitive (4), "
    "impl_commutative_binop_with_primitive (4), impl_binop_assign_with_primitive (2) of integer/src/helper_macros.rs "
    "(Gen/FormsGlue.lean), callees interpreted by the executed models (`<$t>::from` = from_unsigned / from_signed, `$method` = the "
    "operator, `try_into` = try_to_unsigned or the reflexive Ok, `unwrap`), proved EQUAL to ubigAndPrim / ubigOpPrim / ibigAndPrimU / "
    "ibigOpPrimU / ibigOpPrimS incl. which operand is converted and the operand order of the primitive-first forms (Props/GenBitsPrim.lean)",
    "bits.rs word scans as REGENERATED text (Gen/BitScans.lean, vlib/extract_scans.py): trailing_zeros_large, "
    "trailing_zeros_large_shifted_by_one, trailing_ones_large — the `while i < words.len() { if words[i] != C { break; } i += 1; }` "
    "loops (start index and skipped word value read from the source), every `words[e]` as a checked access, the all-ones early exit, "
    "`(zero_words - 1) * WORD_BITS + zero_bits + zero_begin - 1` over checked usize arithmetic — EQUAL to tzLarge / "
    "tzLargeShiftedByOne / toScanFixed incl. exactly when they panic (Props/GenScans.lean); the historical trailing_ones_large "
    "(start index 1, no exit: defect 754b193) and the off-by-one of mutant m04 break the theorems; also "
    "are_slice_low_bits_nonzero (the floor correction of IBig >> n on a heap magnitude: the `n_words >= len` exit, "
    "`words[..n_words].iter().any(..)`, the checked `words[n_words]`, `ones_word(n % W)`) = areSliceLowBitsNonzero "
    "(gen_are_slice_low_bits_nonzero; mutants m03 / m18 now also break this theorem); the `RefLarge` arms of TypedReprRef::bit "
    "(`idx < len && words[idx] & 1 << (n % W) != 0`) and TypedReprRef::bit_len (`len * W - last.leading_zeros()`) = the heap arms of "
    "TRepr.bit / TRepr.bitLen (gen_bit_large, gen_bit_len_large; mutant m16 now also breaks a theorem); the `RefLarge` arms of "
    "count_ones (checked usize sum), is_power_of_two (`words[..len-1]` all zero && top word a power of two) = TRepr.countOnes / "
    "TRepr.isPow2 (gen_count_ones_large, gen_is_power_of_two_large); count_zeros (always Some; the checked subtraction of the top "
    "word's leading zeros never underflows because popcount <= bit length) = TRepr.countZeros (gen_count_zeros_large)",
    "the driver's evaluation of the specification for huge usize arguments (fastSpecShr, fastSpecBit, fastDivPow2, fastModPow2, "
    "fastClearBit) = the specification, all arguments",
    # round 7
    "<IBig as BitTest>::bit_len as REGENERATED text (Gen/IntBits.IBig_bit_len: `self.as_sign_repr().1.bit_len()`) = bit length of |x| "
    "(sign ignored), every bit at a position >= bit_len is the sign bit, the bit below is its complement except at x = -2^(L-1); "
    "composed with the executed magnitude model = the driver's `i.bitlen` output (Props/C09BitLen.lean)",
    # round 8
    "two's complement IS the number system of C01's arithmetic (link by import, Props/C09Arith.lean): on the executed models of both properties, "
    "every W >= 1, every canonical operand, every ownership form: -x = !x + 1, x - y = x + !y + 1, !x = (-x) - 1, !!x = x, "
    "(x & y) + (x | y) = x + y, (x ^ y) + (x & y) + (x & y) = x + y (and the last two for the specification functions on all integers: "
    "Proofs/Int/BitsArith.lean)",
]
# empty: every clause has its full theorem about the executed model, and the three pieces round 5 listed as "hand-mirrored only" (Tie A note:
# next_power_of_two_large, Repr::ones heap arm, the `match (self, rhs)` operator dispatch) are regenerated + proved since round 6
FRONTIER = [
]

EXPLANATION = ("Theorems (all W >= 1, all lengths, canonical operands): the IBig sign tables composed with the unsigned word loops "
               "and add_one/sub_one produce, bit for bit (Mathlib Int.testBit), the AND/OR/XOR/NOT of the two's-complement "
               "operands and canonical results; mixed UBig/IBig AND equals the signed AND; << is *2^n; UBig >> is div 2^n in both "
               "implementations; IBig >> is floor division by 2^n; bit(n) on UBig/IBig is the n-th two's-complement bit; "
               "trailing_zeros/trailing_ones return the unique k with 2^k | x (resp. x+1) and odd quotient, without panics; "
               "ones(n) = 2^n-1 and canonical; clear_high_bits = mod 2^n, split_bits = (mod, div), bit_len = floor(log2)+1; set_bit/clear_bit "
               "change exactly bit n; count_ones = popcount, count_zeros = bit_len - popcount; is_power_of_two <=> 2^k; "
               "next_power_of_two = least power of two >= x; IBig::trailing_ones of -v = trailing zeros of v-1. "
               "Round 4: the helpers of math.rs and the inline arms of every operation with a usize argument are regenerated from the "
               "Rust text over overflow-checking machine integers with truncating casts and proved total + equal to the hand model for "
               "EVERY usize argument (so `(a + (b-1)) / b`, a guard after `as u32`, a clamp after a cast no longer check); the two "
               "mirrors of shift.rs (bit model / division model) are proved to be one model; the driver evaluates the specification for "
               "counts up to usize::MAX through guarded functions proved equal to it; for a count beyond the operand the required "
               "results (0 / -1 / the operand / the sign bit) are stated as a theorem (beyond_the_length). "
"Round 5: the word loops of shift.rs, the heap arms of the shifts, set_bit, clear_high_bits, the & | ^ and_not loops, the "
               "trailing scans and the floor-correction test are regenerated from the Rust text (loops as folds selected by the loop header, "
               "slice accesses checked, usize arithmetic checked) and proved equal to the model's definitions; the primitive-operand and "
               "mixed UBig/IBig macro bodies are regenerated and proved to compute the operator on the converted values; mixed | and ^ "
               "now have their theorem (mixed_or_xor). "
               "For the three defects repaired during this work (754b193, 94ebcdb, 283f2ad) a separately kept model of the old "
               "code is proved correct exactly outside the defect class and wrong on the witness.")
ASSUMPTIONS = ["machine-word primitives (&,|,^,!,<<,>>, leading/trailing_zeros, count_ones, checked_next_power_of_two) "
               "behave as their documented contracts on Nat",
               "usize/isize are 64 bits on the host that runs the harness",
               "regenerated machine-integer text (Gen/MathHelpers, Gen/BitsSmall): an operation that overflows is `none` (debug-build "
               "panic semantics); `2*WORD_BITS < 2^32` (a double-word bit count fits u32) for the cast-carrying arms",
               "IBig::bit_len is specified as the bit length of |x| (2 of the 3 characterisations in dashu_base::BitTest's doc; "
               "the third, 'index of the top 0 bit plus one', disagrees with them at x = -2^k)"]

THEOREMS = ["Dashu.Props.C09." + n for n in [
    "spec_bit_is_testBit", "int_determined_by_bits", "spec_and_bits", "spec_or_bits", "spec_xor_bits", "spec_not_bits",
    "ibig_and", "ibig_or", "ibig_xor", "ibig_not", "ibig_and_value", "ibig_or_value", "ibig_xor_value", "mixed_and",
    "and_with_nonneg_fits", "ubig_and_or_xor", "shl_exact", "ibig_shl_exact", "shr_exact", "ibig_shr_floor",
    "ibig_shr_asis_outside_defect", "ibig_shr_asis_counterexample", "ubig_bit", "ibig_bit", "trailing_zeros",
    "trailing_count_unique", "trailing_ones", "trailing_ones_asis_outside_defect", "trailing_ones_asis_counterexample",
    "ones_exact", "ones_asis_counterexample", "clear_high_bits", "split_bits", "bit_len", "set_bit", "clear_bit", "count_ones",
    "count_zeros", "is_power_of_two", "next_power_of_two", "trailing_ones_negative", "driver_specs",
    "primitive_forms", "primitive_types_ok", "spec_tz_total", "driver_specs_huge", "beyond_the_length"]] + [
    "Dashu.Props.GenBits." + n for n in ["gen_ibig_bitand", "gen_ibig_bitor", "gen_ibig_bitxor",
                                         "gen_ibig_bitand_bits", "gen_ibig_bitor_bits", "gen_ibig_bitxor_bits"]] + [
    "Dashu.Props.GenMath." + n for n in ["gen_bit_len", "gen_ceil_log2", "ceilDiv_spec", "gen_ceil_div", "gen_ceil_div_usize",
                                         "gen_round_up", "gen_round_up_usize", "gen_ones_word", "gen_ones_dword",
                                         "gen_ones_word_out_of_domain", "gen_shl_dword", "gen_shr_word",
                                         "shrBits_step_is_shr_word"]] + [
    "Dashu.Props.GenBitsSmall." + n for n in ["gen_shr_dword", "gen_are_dword_low_bits_nonzero", "gen_bit_small",
                                              "gen_clear_bit_small", "gen_clear_high_bits_small", "gen_split_bits_small",
                                              "gen_heap_indices", "gen_clear_high_bits_large_n_words", "gen_ones_inline"]] + [
    "Dashu.Props.C09Shift." + n for n in ["shlBits_eq_shlLoop", "shlBits_eq_shlInPlace", "mathShlDword_eq", "shrBits_eq_shrLoop",
                                          "shrBits_eq_shrInPlace", "div_kernels_are_generated"]] + [
    "Dashu.Props.GenShift." + n for n in ["gen_shl_step", "forWords_shl", "gen_shl_in_place", "gen_shr_step", "forWordsRev_shr",
                                          "gen_shr_in_place_with_carry", "gen_shr_in_place_one_word",
                                          "gen_shr_in_place_one_word_empty", "gen_shr_in_place", "gen_loops_are_the_bit_model"]] + [
    "Dashu.Props.GenBitsPrim." + n for n in ["gen_ubig_and_prim", "gen_ibig_and_prim", "gen_ubig_op_prim",
                                             "gen_ibig_op_prim_unsigned", "gen_ibig_op_prim_signed"]] + [
    "Dashu.Props.GenScans." + n for n in ["trailing_zeros_eq", "trailing_ones_eq", "tz_scan", "gen_trailing_zeros_large", "to_scan",
                                          "gen_trailing_ones_large", "gen_trailing_zeros_large_shifted_by_one",
                                          "gen_trailing_zeros_large_shifted_by_one_empty",
                                          "gen_are_slice_low_bits_nonzero", "gen_bit_large", "gen_bit_len_large",
                                          "sum_checked_eq", "gen_count_ones_large", "gen_count_zeros_large_partial", "gen_count_zeros_large",
                                          "gen_is_power_of_two_large", "tzLarge_le", "tzLargeShiftedByOne_succ_le",
                                          "gen_trailing_ones_neg_large", "gen_trailing_ones_neg_large_empty"]] + [
    "Dashu.Props.GenBitsMixed." + n for n in ["core_or", "core_xor", "gen_mixed_or_xor", "ubig_as_ibig", "mixed_or_xor"]] + [
    "Dashu.Props.C09." + n for n in ["ibig_trailing_zeros_bits", "ibig_trailing_ones_bits"]] + [
    "Dashu.Props.GenShiftHeap." + n for n in ["gen_shl_one_spilled", "gen_shl_dword_spilled", "gen_shl_dword_spilled_arms",
                                              "gen_shl_large_ref", "gen_shl_large", "gen_shr_large", "gen_shr_large_ref",
                                              "gen_shr_heap_forms", "gen_shl_dword_repr"]] + [
    "Dashu.Props.GenBitsHeap." + n for n in ["gen_with_bit_dword_spilled", "gen_with_bit_large", "gen_clear_high_bits_large",
                                             "gen_clear_bit_large", "gen_split_bits_large", "gen_set_bit_small", "gen_set_bit"]] + [
    "Dashu.Props.GenBitOpsHeap." + n for n in ["gen_bitand_large", "gen_bitor_large", "gen_bitxor_large", "gen_and_not_large",
                                               "gen_large_dword", "gen_large_dword_short", "gen_heap_heap_arms"]] + [
    "Dashu.Props.GenReprOnes." + n for n in ["gen_repr_ones", "gen_repr_ones_boundary"]] + [
    "Dashu.Props.GenBitDispatch." + n for n in ["lowest_dword_eq", "lowest_dword_short", "zipAnd_comm", "zipOr_comm", "zipXor_comm",
                                                "bitand_comm", "bitor_comm", "bitxor_comm", "gen_bitand_dispatch", "gen_bitor_dispatch",
                                                "gen_bitxor_dispatch", "gen_and_not_dispatch"]] + [
    "Dashu.Props.GenNextPow2." + n for n in ["skip_zero", "gen_next_power_of_two_large", "gen_next_power_of_two_large_empty",
                                             "gen_next_power_of_two"]] + [
    "Dashu.Props.GenIntBits." + n for n in ["gen_ibig_bit", "gen_ibig_trailing_zeros", "gen_ibig_trailing_ones", "gen_ibig_not",
                                            "gen_ibig_not_bits", "specK_meets", "modelK_meets", "model_ibig_bit",
                                            "model_ibig_trailing"]] + [
    "Dashu.Props.GenShiftDispatch." + n for n in ["gen_shl_dispatch", "gen_shr_dispatch"]] + [
    "Dashu.Props.C09BitLen." + n for n in ["gen_ibig_bit_len", "sign_bits_above", "top_bit_below", "gen_ibig_bit_len_sign_bits",
                                           "specK_meets_bit_len", "modelK_meets_bit_len", "model_ibig_bit_len"]] + [
    "Dashu.Props.C09Arith." + n for n in ["scanon_is_wf", "neg_is_not_plus_one", "sub_is_add_not_plus_one", "not_is_neg_minus_one",
                                          "not_not_and_not_neg", "neg_bits", "and_plus_or_is_add", "xor_plus_carries_is_add",
                                          "neg_of_int"]]

# Tie A: the IBig bit-operator sign tables are regenerated from integer/src/bits.rs on every run
# (lean/Dashu/Gen/Glue.lean) and proved equal to the same specification as the hand model's tables
USES_GEN = True
GEN_PROPS = ["Dashu.Props.GenBits"]
GEN_AUDIT = ["Dashu.Audit.GenBits"]
# Tie A, typed translator: the sign handling of `IBig >> usize` (rounding toward −∞) regenerated from shift_ops.rs = floor shift
GEN_PROPS += ["Dashu.Props.GenIntOps"]
GEN_AUDIT += ["Dashu.Audit.GenIntOps"]
# Tie A, checked machine integers: the helpers of integer/src/math.rs (bit_len, ceil_log2, ceil_div(_usize), round_up(_usize),
# ones_word, ones_dword, shl_dword, shr_word) regenerated statement by statement over overflow-checking operations; proved
# total on their domain, equal to their specification and to the definitions the hand model uses (ceilDiv, onesN, bitLenNat,
# mathShlDword, the word step of shrBits)
GEN_PROPS += ["Dashu.Props.GenMath"]
GEN_AUDIT += ["Dashu.Audit.GenMath"]
# Tie A, checked machine integers with truncating casts: the inline (`Small(dword)`) arms of every bit operation that takes a
# user-supplied usize (shr_dword, are_dword_low_bits_nonzero, bit, clear_bit, clear_high_bits, split_bits) regenerated and
# proved equal to the hand model's arm for EVERY usize argument
GEN_PROPS += ["Dashu.Props.GenBitsSmall"]
GEN_AUDIT += ["Dashu.Audit.GenBitsSmall"]
# the two mirrors of shift.rs / math.rs (bit model, division model) are one model, and its word kernels are the regenerated text
GEN_PROPS += ["Dashu.Props.C09Shift"]
GEN_AUDIT += ["Dashu.Audit.C09Shift"]
# Tie A, word loops: integer/src/shift.rs in full (shl_in_place, shr_in_place_with_carry, shr_in_place, shr_in_place_one_word) —
# loop header (direction), loop body, early return, initial carry, result — regenerated over checked machine integers and proved
# equal to the hand mirrors (Div.shlInPlace / shrInPlaceWithCarry / shrInPlace) and to the bit model's shlBits / shrBits
GEN_PROPS += ["Dashu.Props.GenShift"]
GEN_AUDIT += ["Dashu.Audit.GenShift"]
# Tie A, primitive-typed forms: the ten `fn` bodies of impl_binop_with_primitive / impl_commutative_binop_with_primitive /
# impl_binop_assign_with_primitive (integer/src/helper_macros.rs, regenerated in Gen/FormsGlue.lean over abstract callees), with the
# callees interpreted by C09's / C06's models, ARE the hand model's ubigAndPrim / ubigOpPrim / ibigAndPrimU / ibigOpPrimU / ibigOpPrimS
GEN_PROPS += ["Dashu.Props.GenBitsPrim"]
GEN_AUDIT += ["Dashu.Audit.GenBitsPrim"]
# Tie A, word scans: trailing_zeros_large / trailing_zeros_large_shifted_by_one / trailing_ones_large of integer/src/bits.rs — scan
# loops, CHECKED slice accesses (none = index out of bounds), the all-ones early exit, index arithmetic and casts — regenerated and
# proved equal to tzLarge / tzLargeShiftedByOne / toScanFixed, panics included (the historical trailing_ones_large fails the theorem)
GEN_PROPS += ["Dashu.Props.GenScans"]
GEN_AUDIT += ["Dashu.Audit.GenScans"]
# the clause "mixed UBig/IBig forms = converting both operands to IBig first" for | and ^: regenerated forwarding bodies
# (forward_ubig_ibig_binop_to_repr / forward_ibig_ubig_binop_to_repr, Gen/FormsGlue) composed with the regenerated sign tables (Gen/Glue)
# = OR / XOR of the values; and the same for the hand model the driver runs
GEN_PROPS += ["Dashu.Props.GenBitsMixed"]
GEN_AUDIT += ["Dashu.Audit.GenBitsMixed"]
# Tie A, heap arms of << / >>: shl_one_spilled, shl_dword_spilled, shl_large_ref, shl_large (for every buffer capacity), shr_large of
# integer/src/shift_ops.rs — buffer statements, the calls of the regenerated loops / math::shl_dword, `&mut buffer[shift_words..]`,
# the early returns — regenerated and proved equal to shlDword's spilled arms / shlLarge / shrLarge of the hand model
GEN_PROPS += ["Dashu.Props.GenShiftHeap"]
GEN_AUDIT += ["Dashu.Audit.GenShiftHeap"]
# Tie A, heap arms of set_bit / clear_high_bits: with_bit_dword_spilled, with_bit_large, clear_high_bits_large of integer/src/bits.rs
GEN_PROPS += ["Dashu.Props.GenBitsHeap"]
GEN_AUDIT += ["Dashu.Audit.GenBitsHeap"]
# Tie A, word loops of the unsigned bit operators: bitand_large, bitor_large, bitxor_large, and_not_large, *_large_dword of bits.rs
GEN_PROPS += ["Dashu.Props.GenBitOpsHeap"]
GEN_AUDIT += ["Dashu.Audit.GenBitOpsHeap"]
# Tie A, Repr::ones of repr.rs IN FULL (round 6): inline arms, lo_words / hi_bits, the checked allocation request, push_repeat::<{ Word::MAX }>,
# the conditional top word and the transmute into the heap value (no normalisation) = reprOnes (the executed model) for every usize n
GEN_PROPS += ["Dashu.Props.GenReprOnes"]
GEN_AUDIT += ["Dashu.Audit.GenReprOnes"]
# Tie A, operator dispatch (round 6): the sixteen impls BitAnd|BitOr|BitXor|AndNot<TypedRepr|TypedReprRef> for TypedRepr|TypedReprRef of bits.rs —
# match arms, lowest_dword shortcuts, callee + operand order, `len0 <= len1` / `>=` operand choice, `rhs.op(self)` forwarding — regenerated over the
# regenerated word loops (Gen/BitOpsHeap) and proved equal to TRepr.bitand / bitor / bitxor / andNot (the executed model) in every ownership form
GEN_PROPS += ["Dashu.Props.GenBitDispatch"]
GEN_AUDIT += ["Dashu.Audit.GenBitDispatch"]
# Tie A, next_power_of_two (round 6): next_power_of_two_large (the skip_while / iter.next() / for-in-iter statements recognised as a whole, every
# constant read from the source; CHECKED sub-slice and last_mut().unwrap()) and the method TypedRepr::next_power_of_two (incl. the spilled inline arm)
# = nextPow2Large / TRepr.nextPow2 (the executed model) on every non-empty buffer
GEN_PROPS += ["Dashu.Props.GenNextPow2"]
GEN_AUDIT += ["Dashu.Audit.GenNextPow2"]
# Tie A, typed translator (round 6): the sign-level bit functions of IBig — IBig::trailing_zeros, IBig::trailing_ones, <IBig as BitTest>::bit
# (the trailing-zeros trick with `n.cmp(&zeros)`), Not for IBig / &IBig — regenerated over the record GluePrelude.BitK of the magnitude-level methods;
# for every record meeting their specification: bit = Int.testBit, trailing_zeros / trailing_ones = 2-adic valuation of x / x + 1, !x = -x - 1
GEN_PROPS += ["Dashu.Props.GenIntBits"]
GEN_AUDIT += ["Dashu.Audit.GenIntBits"]
# Tie A, << / >> (round 6): shl_dword itself (inline test `rhs <= leading_zeros`, `dword == 1`; Props/GenShiftHeap.gen_shl_dword_repr) and the four
# impls Shl<usize> / Shr<usize> for TypedRepr / TypedReprRef (zero arm, callee per operand kind, owned vs borrowed) = TRepr.shl / TRepr.shr
GEN_PROPS += ["Dashu.Props.GenShiftDispatch"]
GEN_AUDIT += ["Dashu.Audit.GenShiftDispatch"]
# Tie A, typed translator (round 7): `<IBig as BitTest>::bit_len` (Gen/IntBits.IBig_bit_len, the one regenerated definition of that area without a
# theorem in round 6) = bit length of |x| for every record meeting bit_len's specification; two's-complement reading (all bits from bit_len on are the
# sign bit; the bit below is its complement except at x = -2^(L-1)); link: the executed magnitude model meets it and the composition is what the driver
# prints for `i.bitlen`
GEN_PROPS += ["Dashu.Props.C09BitLen"]
GEN_AUDIT += ["Dashu.Audit.C09BitLen"]
# LINK C09 <-> C01 (round 8): the two's-complement identities between C09's executed bit models and C01's executed + / - / unary - (kernels by
# import: Props.C09.ibig_not / ibig_and / ibig_or / ibig_xor, Props.C01.i_add_exact / i_sub_exact / i_neg_exact / of_int_exact): -x = !x + 1,
# x - y = x + !y + 1, !x = (-x) - 1, !!x = x, (x & y) + (x | y) = x + y, (x ^ y) + (x & y) + (x & y) = x + y; SCanon (C09) is SRepr.WF (C01).
# Imports Props/C01 (which is over the regenerated Gen/Int glue), hence rebuilt on every run
GEN_PROPS += ["Dashu.Props.C09Arith"]
GEN_AUDIT += ["Dashu.Audit.C09Arith"]

LEVEL_TEXT = ("Machine-checked Lean 4 theorems, for every word size and operand length, that the sign-case tables of & | ^ ! "
              "(also as regenerated from integer/src/bits.rs on every run) "
              "(magnitude-minus-one tricks over the unsigned word loops), <<, >> (IBig: floor division via the shifted-out-bits "
              "correction), bit tests on both signs, trailing_zeros/trailing_ones scans, ones(n), clear_high_bits, split_bits and "
              "bit_len compute exactly what infinite two's complement prescribes (stated bit by bit with Mathlib's Int.testBit, "
              "or as mod/div/2-adic valuation) and return canonical representations; the hand-written model is tied to /repo on "
              "every run by differential execution of model and real code over operands of exactly 0..9 (thorough: ..100) words in "
              "all the boundary patterns of the code, every sign pair, every call form, shift counts/bit positions at all "
              "multiples of the word size and beyond the length. Every operation named in the property (incl. set_bit/clear_bit, "
              "count_ones/zeros, is/next_power_of_two, trailing_ones of negatives) has its refinement theorem; the primitive-operand "
              "forms are proved equal to the operator on the converted values (using C06's conversion models) incl. the "
              "no-panic fact of `& -> uN`. Tie A (regenerated on every run, theorems re-checked): the IBig sign tables, the sign "
              "handling of IBig >>, the ten arithmetic helpers of math.rs and the six inline arms taking a usize — the latter two "
              "over overflow-checking machine integers with truncating casts, for every usize argument. Round 5 added, as regenerated text "
              "proved equal to the executed model: all of shift.rs (word loops incl. their direction and carry hand-over), the heap arms "
              "of << / >> (shl_one_spilled, shl_dword_spilled, shl_large(_ref) for every capacity, shr_large, shr_large_ref with its "
              "slice-pattern shortcuts), the heap arms of set_bit / clear_high_bits, the word loops of & | ^ and_not (+ the *_dword forms), "
              "the three trailing scans and are_slice_low_bits_nonzero with CHECKED slice accesses (panics included), the ten "
              "primitive-operand macro bodies and the sixteen UBig/IBig forwarding bodies (composed with the regenerated sign tables). "
              "Round 6 added Repr::ones in full (inline arms, push_repeat, conditional top word, transmute without normalisation) and the "
              "TypedRepr-level dispatch of & | ^ and_not (sixteen impls: match arms, lowest_dword shortcuts, operand order, length test, "
              "commutative forwarding) and next_power_of_two (method + next_power_of_two_large, its iterator statements recognised as a whole with "
              "every constant read from the source) as regenerated text proved equal to the executed model: the three pieces that round 5 left "
              "hand-mirrored only are closed. Also round 6: the heap arm of trailing_ones_neg, shl_dword itself (inline test and arm selection), the "
              "four Shl/Shr<usize> impls on TypedRepr/TypedReprRef, TypedRepr::set_bit (inline arm + method), and the sign-level functions of IBig "
              "(trailing_zeros, trailing_ones, BitTest::bit with its trailing-zeros trick, Not for IBig/&IBig) through the typed translator over a "
              "record of the magnitude-level methods — proved to compute Int.testBit / the 2-adic valuations / -x-1 for every record meeting the "
              "methods' specification, which the executed magnitude model is proved to meet (modelK_meets). "
              "Round 7: IBig::bit_len, the last regenerated sign-level function without a theorem, = bit length of |x| with its two's-complement "
              "reading (sign bits from bit_len on) and the link to the executed model (Props/C09BitLen). "
              "Round 8: link to C01's proved arithmetic kernel — C09's ! & | ^ composed with C01's + - neg satisfy -x = !x + 1, x - y = x + !y + 1, "
              "(x & y) + (x | y) = x + y, (x ^ y) + 2 (x & y) = x + y on the executed models, all signs and lengths (Props/C09Arith). "
              "Shift counts / bit positions up to usize::MAX are driven through every operation that is cheap there, and through the "
              "allocating ones (<<, set_bit, ones) in the two classes that are cheap (zero operand; request above Buffer::MAX_CAPACITY "
              "-> AllocTooMuch). 571 listed code arms (arm(case)) are all reached by both tiers.")
LEVEL_NOTE = ("Trusted: Lean kernel; axioms propext/Classical.choice/Quot.sound; the correspondence harness and generators "
              "(sampling) for the tie model<->code; machine-word primitives at their documented contracts; operands assumed "
              "canonical (producer side is C05/C17). Items listed under frontier_kernels are decided by the correspondence "
              "against an independently computed specification, not by a theorem.")
TECHNIQUE = "Lean 4 refinement proofs (bit-extensionality via Nat.testBit / Int.testBit, all W) + differential correspondence model vs real code"

# one audit module for all Tie-A / link theorem modules (one Lean start instead of eight: keeps the quick tier inside its budget on
# a loaded machine); it prints the axioms of exactly the theorems of the per-module audit files listed above
GEN_AUDIT = ["Dashu.Audit.C09Gen"]


if __name__ == "__main__":
    import sys
    _h = arm_histogram(sys.argv[1] if len(sys.argv) > 1 else "quick")
    for _k in sorted(_h):
        print("%7d  %s" % (_h[_k], _k))
    print("arms reached: %d of %d listed; NOT reached: %s; reached but not listed: %s"
          % (len(set(_h) & ALL_ARMS), len(ALL_ARMS), sorted(ALL_ARMS - set(_h)), sorted(set(_h) - ALL_ARMS)))

