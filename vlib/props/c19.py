"""C19 — results do not depend on word size, build features or serialization medium (DESIGN §8 C19)."""
import importlib, json, os, random, re, sys
from vlib import core, cfgbuild
from vlib.core import Case
from vlib.gens import hx, dec, nat_pattern, PATTERNS, signed

GROUP = "cfg"
LEAN_PROPS = "Dashu.Props.C19"
LEAN_AUDIT = "Dashu.Audit.C19"
GEN_PROPS = ["Dashu.Props.C19Wire", "Dashu.Props.C19Arch", "Dashu.Props.C19NT", "Dashu.Props.C19Mod", "Dashu.Props.C19ModInv"]
GEN_AUDIT = ["Dashu.Audit.C19Wire", "Dashu.Audit.C19Arch", "Dashu.Audit.C19NT", "Dashu.Audit.C19Mod", "Dashu.Audit.C19ModInv"]
USES_GEN = True
JOBS = 12
READY = True

REFINED = ["serde UBig/IBig binary (LE bytes, sign in the length parity) encode/decode; the payload is C07's word-level to_le_bytes for every W",
           "serde binary arms of ALL six types at the word level (Model/Serde/NumW.lean: words_to_le_bytes::<false>(as_words()) / from_le_bytes of the "
           "build's word size, RBig's reduce over C12's mirrored Lehmer gcd and C02's mirrored division; executed by the driver for sd.* pc / de.* pc at "
           "W = 64 and W = 32) = the W-free encoders / decoders, for every word size that is a multiple of 8 (Props/C19Wire)",
           "postcard varint / zig-zag / length-prefixed bytes", "serde_json string quoting (plain characters)",
           "UBig/IBig/RBig/Relaxed text round trip (Display -> JSON string -> from_str_with_radix_prefix [+ reduce])",
           "Repr<B>/FBig text round trip (Display -> JSON string -> from_str_native), bases 2..36, on C08's proved printer/parser model",
           "RBig/Relaxed binary + text decode: reduce / reduce2 canonical",
           "Repr<B>/FBig binary + text decode: Repr::new normalisation canonical",
           "word-size independence of + - * sqr (C01), / % div_rem (C02), & | ^ << >> (C09), print / parse / LE bytes (C07) as corollaries",
           "word-size independence of the number theory of C12 (Props/C19NT, link by import): gcd of UBig / IBig with the Lehmer loop mirrored, gcd_ext "
           "(same g, each build's cofactors meet the Bezout identity - the pair itself is not fixed by the property), sqrt_rem (also with Zimmermann's "
           "kernels and any exact primitive roots of the two builds), nth_root, cbrt_rem, IBig nth_root / sqrt / cbrt, ilog (the two builds' estimators may "
           "differ): same value or same panic for any two word sizes (even where the square-root normalisation needs it)",
           "word-size independence of modular arithmetic (Props/C19Mod, link to C13 by import): the ConstDivisor rings two builds construct for one modulus "
           "(different kind / shift / raw values) give the same residue for reduce, + - *, neg, dbl, sqr, pow (every exponent); inv answers in one iff in the "
           "other; new(0) panics in both",
           "VALUE of the modular inverse and quotient across word sizes (Props/C19ModInv, link to C13's inv_spec / div_spec + uniqueness of the solution "
           "of x*c = t (mod m) below m for gcd(c, m) = 1): inv is None in both builds or Some with the same residue; a / b panics NonInvertible in both or "
           "answers with the same residue",
           "architecture layer integer/src/arch/** REGENERATED (Tie A, Gen/ArchAdd.lean): add_with_carry / sub_with_borrow of generic/add.rs and of the "
           "x86 / x86_64 intrinsic files, the arch/*/mod.rs module tables, the Word types, the cfg_if selection chain; proved = the carry arithmetic of the "
           "word-level models for every W, intrinsic = generic at 32 / 64 bits, two W-bit steps = one 2W-bit step, tables consistent (Props/C19Arch); "
           "digits.rs: constants regenerated and SWAR routine proved for every W by C07 (Gen/TextLow, Props/C07)",
           "log2_fp8 / ceil_log2_fp8 (no_std estimator): table + both functions, all u16 inputs"]
FRONTIER = ["std/no_std and debug/release independence: no model-level statement is possible - features and profile do not occur in any model "
            "definition (they change which Rust code is compiled, not a parameter of it); decided by replaying every property's generator in 3 (quick) / 8 "
            "(thorough) builds",
            "integer / float / rational kernels below the frontier of the properties that own them (linked by import: C01, C02, C07, C09, C12 theorems are "
            "composed, not re-proved; C12's hypothesis that the u64 table/Newton square root never overflows is inherited by the mirrored sqrt statement as "
            "`PrimSqrtExact`; float / rational arithmetic (C03, C04) have no word-size corollary here yet; C13 is composed too since round 7, with the value of inv and / since round 8); Repr::new normalisation and reduce2's trailing_zeros / shifts are used at their C05 / C09 contracts in the serde decoders",
            "log2 estimators: the f32 steps around the no_std table and the std f32::log2 path are replicated with Lean's compiled Float32 "
            "(not in the kernel: no kernel-level model of IEEE binary32 log2 exists); every pair of bounds is decided exactly per call, and a property-level "
            "judge accepts other valid bounds",
            "x86 intrinsics _addcarry_u32/u64, _subborrow_u32/u64: modelled from the Intel SDM (Model/Arch/Prelude.lean), executed natively by the 64-bit builds",
            "arch/*/ntt.rs (NTT prime tables per word size): owned by C01's multiplication model; only the file selection is regenerated here",
            "serde_json / postcard themselves (modelled from their sources)",
            "clause `reject malformed input with an error`: binary decoders proved (…_decode_canonical); the text path of floats (exponent literal at "
            "the edge of isize: an error since /repo 5997fe0) is compared case by case, not proved"]
RULE = ("clause 1: the case generators of C01, C02, C09, C05, C07, C08, C06, C12, C13, C03, C10, C04, C14 (integer ring / division / "
        "bits / comparison / text / conversions / number theory / modular / float and rational arithmetic / cross-type), sampled per "
        "run (+ operands sized in 32-bit words around the word-count thresholds), wrapped as `cfgall <group>/<op> …`: every configuration of the run evaluates the case, the front demands byte-"
        "identical answers, and the answer is compared with the Lean model at W=64 and W=32 (which must agree). clause 3: "
        "values of every type (sizes around the inline/heap boundary and the 1/2/3-byte varint length boundaries, both sign/"
        "parity combinations, non-reduced inputs, significands with factors of the base, exponents up to the isize range) "
        "through json and postcard, plus malformed streams: every prefix of valid streams, over-long / overflowing varints, "
        "huge lengths, leading zero bytes, negative zero, zero denominators, unnormalised significands, precision smaller "
        "than the significand, extreme exponents, trailing bytes; JSON: escapes, non-strings, unterminated, trailing text, "
        "radix prefixes, signs, underscores, every float notation. clause 2: log2_bounds of u8..u128/UBig/IBig at powers of "
        "two +-1, table boundaries and random values in each build, bounds decided exactly. Directed: formatting in EVERY radix 2..36 of values with every digit count from digits_per_word to the maximum of a word / "
        "double word for W = 32 and 64 (least, least+1, greatest, random: the fixed digit buffers of PreparedWord / PreparedDword); 65..131-bit "
        "integers -> f32/f64 at the rounding boundary.  Foreign ops unknown to exec_cfg / drive_cfg are probed and left out (logged); extreme-argument "
        "cases (>= 2^31) whose result size is proportional to the argument (model refuses or does not answer in 4 s) are left out (resource limits "
        "counted in words differ by word size: AllocTooMuch vs the allocator's OutOfMemory); Debug text and s32.* host-f32 probes are not values; float types whose base is not a `Word` of a 32-bit-word build (base >= 2^32), "
        "`f.norm` of a significand that is a double word in one build only, and `qp.pow` / `qp.prog` (exponents placed on the 64-bit allocation guard) "
        "are left out. "
        "Non-trivial := not a `cfg.self`"
        " probe; distinct := distinct case lines.")
EXPLANATION = ("Theorems: word-size independence of the integer ops as corollaries of the all-W refinement theorems of "
               "C01/C02; the serde byte and text formats are W-free functions of the value with decode(encode x) = x for "
               "UBig, IBig, RBig, Relaxed, Repr, FBig (binary) and UBig/IBig (text); every decoder returns a canonical value or "
               "an error on arbitrary input; the binary serde arms at the word level (what a W-bit build executes) equal the W-free ones for every W = 8k, for all six types; "
               "the regenerated add_with_carry / sub_with_borrow of every arch module equal the carry arithmetic of the models and each other across "
               "word sizes; the no_std log2 table estimator brackets log2 on all 65 280 inputs (kernel "
               "decision). Tie: the same case files are evaluated by the harness built as {64,32-bit words} x {std,no_std} x "
               "{dev,release} (3 configurations quick, 8 thorough), compared with each other byte for byte and with the model.")
ASSUMPTIONS = ["usize/isize are 64 bits on the host (force_bits changes Word, not the pointer width): postcard length and "
               "exponent varints are modelled as u64/i64",
               "serde_json and postcard 1.1.3 behave as read from their sources (string escapes, varint limits)",
               "the x86 intrinsics _addcarry_uN / _subborrow_uN compute what the Intel SDM documents (ADC / SBB)"]
LEVEL_TEXT = ("Machine-checked Lean 4 theorems that dashu's serialized forms are functions of the mathematical value only (no "
              "word size in their definition), decode to the value encoded, and that every decoder yields a canonical value or "
              "an error for arbitrary byte/token streams; word-size independence of integer arithmetic, gcd / roots / ilog (C12) and modular arithmetic (C13, including the value of inv and /) as corollaries of the "
              "for-all-W refinement theorems; word-level serde encoders / decoders of all six types proved equal to the W-free ones; the architecture layer "
              "(add_with_carry / sub_with_borrow, module tables, selection chain) regenerated from source and proved; an exhaustive kernel-checked table theorem for the no_std log2 estimator. The "
              "model is tied to /repo by running identical case files through harness binaries built in 3 (quick) / 8 "
              "(thorough) build configurations, diffed against each other and against the model.")
LEVEL_NOTE = ("Trusted: Lean kernel; axioms propext/Classical.choice/Quot.sound; the harness, generators and the sampling of "
              "inputs for the model<->code tie; the third-party media (serde_json, postcard) as modelled from their sources; "
              "float text round trip and the kernels below the frontier of C01/C02/C07/C09 are explored, not proved.")
TECHNIQUE = "Lean 4 proofs (encode/decode inversion, canonicity of decoders, kernel decision over u16) + differential runs across build configurations"

_info = {}


def _tier():
    t = os.environ.get("VERIF_TIER", "quick")
    if "--tier" in sys.argv:
        i = sys.argv.index("--tier")
        if i + 1 < len(sys.argv):
            t = sys.argv[i + 1]
    return t if t in ("quick", "thorough") else "quick"


def pre_build():
    """build the worker in every configuration of the tier; the front binary finds them through
    DASHU_CFG_MANIFEST"""
    confs = list(cfgbuild.QUICK) if _tier() == "quick" else list(cfgbuild.ALL)
    confs.append(cfgbuild.UNSUPPORTED)
    mpath, info = cfgbuild.build(confs, jobs=5)
    core.ENV["DASHU_CFG_MANIFEST"] = mpath
    _info.update(info)
    return info


def nontrivial(c):
    return "cfg.self" not in c.args


# ---------------------------------------------------------------------------------- property-level judge (clause 2)

def _f32_value(bits):
    """exact value of a finite f32 bit pattern as a Fraction, None for inf/nan"""
    from fractions import Fraction
    sign = -1 if bits >> 31 else 1
    e = (bits >> 23) & 0xff
    m = bits & 0x7fffff
    if e == 0xff:
        return None
    if e == 0:
        return sign * Fraction(m, 1 << 149)
    return sign * Fraction((1 << 23) | m) * Fraction(2) ** (e - 150)

def _encloses(lb, ub, x):
    """lb <= log2(x) <= ub for f32 bit patterns, decided with 150-digit decimal arithmetic and a 1e-100 margin
    (None = too close to call)"""
    import decimal
    if x == 0:
        return lb == 0xff800000 and ub == 0xff800000
    vl, vu = _f32_value(lb), _f32_value(ub)
    if vl is None or vu is None:
        return False
    ctx = decimal.Context(prec=200)
    L = ctx.divide(ctx.ln(decimal.Decimal(x)), ctx.ln(decimal.Decimal(2)))
    eps = decimal.Decimal(10) ** -100
    dl = ctx.subtract(L, ctx.divide(decimal.Decimal(vl.numerator), decimal.Decimal(vl.denominator)))
    du = ctx.subtract(ctx.divide(decimal.Decimal(vu.numerator), decimal.Decimal(vu.denominator)), L)
    if x & (x - 1) == 0:          # power of two: log2 is the integer, equality is allowed
        k = x.bit_length() - 1
        return vl <= k <= vu
    if abs(dl) < eps or abs(du) < eps:
        return None
    return dl > 0 and du > 0

def judge(c, impl, model):
    """clause 2 promises *bounds*, not particular bounds: when an estimator answers differently from the Lean
    replica but its bounds still enclose log2 exactly on the input, the property holds there (the correspondence of
    the replica is what broke)"""
    try:
        if c.op != "cfg" or len(c.args) < 3 or not c.args[1].startswith("lg.") or not impl.startswith("ok "):
            return None
        op, a = c.args[1], c.args[2:]
        body = impl[3:].strip()
        if op == "lg.range":
            lo, hi = int(a[0][2:]), int(a[1][2:])
            items = body.split(",")
            if len(items) != hi - lo:
                return None
            for x, it in zip(range(lo, hi), items):
                l, u = it.split(":")
                if _encloses(int(l, 16), int(u, 16), x) is not True:
                    return None
            return "holds"
        x = abs(int(a[-1].lstrip("-"), 16))
        l, u = body.split(" ")[:2]
        return "holds" if _encloses(int(l, 16), int(u, 16), x) is True else None
    except Exception:
        return None


# ---------------------------------------------------------------------------------- findings of other properties

def _other_finding(c, impl, model):
    for f in core.load_findings():
        if f["property"] == "C19":
            continue
        m = f["match"]
        ops = m["op"] if isinstance(m["op"], list) else [m["op"]]
        if c.op not in ops:
            continue
        try:
            if all(core._cond(w, c, impl, model) for w in m.get("when", [])):
                return True
        except Exception:
            continue
    return False

def inherited(args, impl, model, op):
    """a disagreement between implementation and model that is recorded for the property owning the inner op.
    Either every configuration shows it identically, or the configurations differ only because each of them
    shows a recorded finding of that property or the model's answer (e.g. a `debug_assert!` recorded for C06/C16
    fires in dev builds while release builds return the value)"""
    if impl.startswith("build-failed"):
        return False
    inner = args if op == "cfgall" else args[1:]
    if not inner:
        return False
    c = Case(inner[0].split("/")[-1], inner[1:])      # `<group>/<op>` -> the op as its property knows it
    if impl.startswith("config-disagree "):
        parts = [p.split("=", 1) for p in impl[len("config-disagree "):].split(" || ")]
        if not parts or any(len(p) != 2 for p in parts):
            return False
        answers = [a for _, a in parts]
        # a *value* difference between configurations is never inherited: all `ok …` answers must coincide
        oks = set(a for a in answers if a.startswith("ok "))
        if len(oks) > 1:
            return False
        return all(a == model or _other_finding(c, a, model) for a in answers)
    return _other_finding(c, impl, model)


def foreign_uniform(args, impl, model):
    """an op of another property (`<group>/<op>`) on which every configuration gives the same answer and the
    owning property's model gives another one: C19's claim (independence from the configuration) holds on this
    input; whether the common answer is right is the owning property's question"""
    inner = args if (args and "/" in args[0]) else args[1:]
    if not inner or "/" not in inner[0]:
        return False
    if impl.startswith(("config-disagree", "build-failed", "crash", "bad-", "hang", "missing")):
        return False
    return "!model-" not in model and not model.startswith("bad-")


# ---------------------------------------------------------------------------------- input classes of the C19 findings

# (the input classes of the C19 findings repaired in /repo - serde zero denominator / infinity / precision / binary exponent
# overflow (78fd274, 9f519ab), text-path exponent overflow (5997fe0), usize / isize arithmetic on extreme precisions and exponents
# (5768014, ee43486), convert_base `exponent * n` (1349a4b) - are gone: their witnesses stay in corpus/C19 and must agree)


def kf_const_prec(args, impl, model):
    """input class of the C19 finding `FBig::from_parts_const infers a precision that depends on the word size`: `bits/f.norm d:<B>
    <signif> d:<exp>` with B not a power of two, the significand m (factors of B removed) below 2^64 with d digits and
    B^d > 2^64 - 1: the digit loop `while let Some(next) = pow.checked_mul(B)` stops one short when B^d does not fit the
    DoubleWord (u64 with 32-bit words), so 32-bit-word builds answer precision d - 1 and 64-bit-word builds d.  Only the `pc:`
    field may differ, and exactly like that."""
    try:
        inner = args if (args and "/" in args[0]) else args[1:]
        if len(inner) != 4 or inner[0] != "bits/f.norm" or not impl.startswith("config-disagree "):
            return False
        B = int(inner[1][2:]); m = abs(int(inner[2], 16))
        if B < 3 or B >= 2 ** 32 or B & (B - 1) == 0 or m == 0:
            return False
        while m % B == 0:
            m //= B
        d = digits_in(m, B)
        if m >= 2 ** 64 or B ** d < 2 ** 64:
            return False
        parts = [p.split("=", 1) for p in impl[len("config-disagree "):].split(" || ")]
        rest = set()
        for conf, ans in parts:
            f = ans.split(" ")
            if len(f) != 5 or f[0] != "ok" or f[4] != "routes-agree" or f[3] != "pc:%d" % (d - 1 if conf.startswith("w32-") else d):
                return False
            rest.add((f[1], f[2]))
        return len(rest) == 1
    except Exception:
        return False


# ---------------------------------------------------------------------------------- python side encoders

def le_bytes(n):
    return n.to_bytes((n.bit_length() + 7) // 8, "little")

def varint(n):
    out = bytearray()
    while True:
        b = n & 0x7F
        n >>= 7
        if n:
            out.append(b | 0x80)
        else:
            out.append(b)
            return bytes(out)

def zigzag(z):
    return 2 * z if z >= 0 else -2 * z - 1

def pc_bytes(b):
    return varint(len(b)) + b

def pc_u(n):
    return pc_bytes(le_bytes(n))

def pc_i(z):
    if z == 0:
        return pc_bytes(b"")
    b = le_bytes(abs(z))
    if (z > 0 and len(b) % 2 == 1) or (z < 0 and len(b) % 2 == 0):
        b += b"\0"
    return pc_bytes(b)

def sb(b):
    if isinstance(b, str):
        b = b.encode()
    return "s:" + bytes(b).hex()

def digits_in(n, B):
    n = abs(n); k = 0
    while n:
        n //= B; k += 1
    return k

def strip_base(s, e, B):
    if s == 0:
        return 0, 0
    while s % B == 0:
        s //= B; e += 1
    return s, e

FLOAT_BASES = [2, 10, 16, 7]
IMAX = 2 ** 63 - 1
IMIN = -2 ** 63


def int_values(rng, tier):
    """magnitudes around the inline/heap boundary (both word sizes), byte-length parities, and the
    payload lengths where the postcard length prefix grows (127/128, 16383/16384 bytes)"""
    vals = [0, 1, 2, 127, 128, 255, 256, 65535, 65536, 2 ** 31, 2 ** 32 - 1, 2 ** 32, 2 ** 63, 2 ** 64 - 1, 2 ** 64,
            2 ** 64 + 1, 2 ** 96, 2 ** 127, 2 ** 128 - 1, 2 ** 128, 2 ** 128 + 1, 2 ** 192, 2 ** 200 + 0b10111]
    for nbytes in [1, 2, 3, 7, 8, 9, 15, 16, 17, 23, 24, 25, 126, 127, 128, 129, 255, 256]:
        vals.append((1 << (8 * nbytes)) - 1)
        vals.append(1 << (8 * nbytes - 1))
        vals.append(rng.getrandbits(8 * nbytes) | (1 << (8 * nbytes - 8)))
    big = [16383, 16384, 16385] if tier == "thorough" else [16383, 16384]
    for nbytes in big:
        vals.append(rng.getrandbits(8 * nbytes) | (1 << (8 * nbytes - 1)))
    n = 40 if tier == "quick" else max(40, int(600 * _SCALE))
    for _ in range(n):
        vals.append(nat_pattern(rng, rng.choice([1, 1, 2, 2, 3, 3, 4, 5, 8, 17, 33]), rng.choice(PATTERNS)))
        vals.append(rng.getrandbits(rng.randrange(1, 300)))
    return vals


def gen_serde_values(rng, tier):
    vals = int_values(rng, tier)
    for v in vals:
        for m in ("pc", "json"):
            if m == "json" and v.bit_length() > 40000:
                continue
            yield Case("cfgall", ["sd.u", m, hx(v)])
            yield Case("cfgall", ["sd.i", m, hx(v)])
            yield Case("cfgall", ["sd.i", m, hx(-v)])
    # rationals: reduced and non-reduced inputs, unit denominators, powers of two
    small = [v for v in vals if v.bit_length() <= 1100]
    n = 120 if tier == "quick" else max(120, int(2500 * _SCALE))
    for _ in range(n):
        a = signed(rng, rng.choice(small)); b = rng.choice(small) or 1
        r = rng.random()
        if r < 0.2:
            g = rng.getrandbits(rng.randrange(1, 70)) | 1
            a *= g; b *= g
        elif r < 0.4:
            a <<= rng.randrange(0, 70); b <<= rng.randrange(0, 70)
        elif r < 0.5:
            b = 1
        elif r < 0.55:
            a = 0
        for m in ("pc", "json"):
            yield Case("cfgall", ["sd.q", m, hx(a), hx(b)])
            yield Case("cfgall", ["sd.x", m, hx(a), hx(b)])
    # floats
    n = 60 if tier == "quick" else max(60, int(800 * _SCALE))
    for B in FLOAT_BASES:
        sigs = [0, 1, -1, B, -B, B * B, B ** 5 * 3, B ** 3 + 1, 2 ** 64, -(2 ** 64), 2 ** 128 - 1, B ** 40, -(B ** 40) * 7]
        for _ in range(n):
            s = rng.getrandbits(rng.randrange(1, 260))
            if rng.random() < 0.4:
                s *= B ** rng.randrange(1, 30)
            sigs.append(signed(rng, s))
        for s in sigs:
            for m in ("pc", "json"):
                if m == "pc":
                    e = rng.choice([0, 1, -1, 5, -5, 63, 64, -64, -65, 127, 128, 300, -300, 8191, 8192, -8192, -8193,
                                    2 ** 31, -2 ** 31, 2 ** 62, -2 ** 62, IMAX - 200, IMIN + 200, rng.randrange(-10 ** 6, 10 ** 6)])
                else:
                    e = rng.choice([0, 1, -1, 2, -2, 5, -5, 17, -17, 40, -40, 100, -100, 300, -300,
                                    -digits_in(s, B), -digits_in(s, B) + 1, -digits_in(s, B) - 1])
                ns, ne = strip_base(s, e, B)
                if not (IMIN <= ne <= IMAX):
                    continue
                d = digits_in(ns, B)
                yield Case("cfgall", ["sd.r", m, dec(B), hx(s), dec(e)])
                p = rng.choice([0, d, d, d + 1, d + 7, 2 * d + 3, 127, 128, 2 ** 32, 2 ** 63])
                if p != 0 and p < d:
                    p = d
                yield Case("cfgall", ["sd.f", m, dec(B), hx(s), dec(e), dec(p)])
        for sg in "+-":
            for m in ("pc", "json"):
                yield Case("cfgall", ["sd.rinf", m, dec(B), sg])
                yield Case("cfgall", ["sd.finf", m, dec(B), sg])


def gen_float_full_precision(rng, tier):
    """FBig with a limited precision that is exactly used up (digits == precision) and a significand just below a power of the base
    (B^k - c, small c; k = 24 / 53 at base 2 are f32::MAX / f64::MAX): the decoder's test `digits > precision`
    (float/src/third_party/serde.rs fbig_from_fields) must count digits exactly - a log2 estimate (`digits_ub`) reaches k + 1 on
    these.  Binary medium (where the precision is a field), the JSON text for balance, and the raw postcard stream."""
    ks = list(range(1, 50)) + [53, 64, 65, 100, 128, 129, 200, 256]
    for B in FLOAT_BASES:
        for k in ks:
            for c in (1, 2, 3, B + 1):
                s = B ** k - c
                if s <= 0 or s % B == 0:
                    continue
                d = digits_in(s, B)
                e = rng.choice([0, 1, -1, -k, -k + 1, 7, -7, 104, 971, -1074, 300, -300])
                if rng.random() < 0.5:
                    s = -s
                yield Case("cfgall", ["sd.f", "pc", dec(B), hx(s), dec(e), dec(d)])
                yield Case("cfgall", ["de.f", "pc", dec(B), sb(pc_i(s) + varint(zigzag(e)) + varint(d))])
                if rng.random() < 0.3:
                    yield Case("cfgall", ["sd.f", "json", dec(B), hx(s), dec(e), dec(d)])
                if d > 1 and rng.random() < 0.3:     # one digit too few: must be refused
                    yield Case("cfgall", ["de.f", "pc", dec(B), sb(pc_i(s) + varint(zigzag(e)) + varint(d - 1))])


def gen_json_control_digits(rng, tier):
    """text decoding (JSON strings) with the bytes that a case fold `byte | 0x20` maps onto digits and letters: 0x10..0x19 (-> '0'..'9')
    and the neighbours of the folded ranges (0x0f, 0x1a, '@', '`', '[', '{'), as \\u00XX escapes in every digit position of the integer,
    rational and float grammars: every one of them must be refused (integer/src/radix.rs digit_from_ascii_byte)."""
    def emit(t, stream):
        if isinstance(t, tuple):
            return Case("cfgall", ["de." + t[0], "json", dec(t[1]), sb(stream)])
        return Case("cfgall", ["de." + t, "json", sb(stream)])
    def js(text):
        out = bytearray(b'"')
        for ch in text:
            o = ord(ch)
            if o < 0x20 or ch in '"\\':
                out += ("\\u%04x" % o).encode()
            else:
                out += ch.encode()
        return bytes(out + b'"')
    odd = [chr(x) for x in range(0x0f, 0x1b)] + ["@", "`", "[", "{"]
    types = ["u", "i", "q", "x"] + [("r", B) for B in FLOAT_BASES] + [("f", B) for B in FLOAT_BASES]
    for ch in odd:
        texts = [ch, "1" + ch, ch + "3", "-" + ch, "0x" + ch, "1_" + ch, "1/" + ch, ch + "/2", "1." + ch, ch + ".5", ch + "e5", "1e" + ch, "1e-" + ch,
                 "0x1." + ch + "p3", ch * 3]
        for text in texts:
            for t in types:
                yield emit(t, js(text))


def mutate(rng, b):
    """byte-level damage of a valid stream"""
    b = bytearray(b)
    r = rng.random()
    if not b:
        return bytes([rng.randrange(256)])
    if r < 0.3:
        i = rng.randrange(len(b)); b[i] = rng.randrange(256)
    elif r < 0.5:
        i = rng.randrange(len(b) + 1); b[i:i] = bytes([rng.choice([0, 0x80, 0xff, rng.randrange(256)])])
    elif r < 0.7:
        del b[rng.randrange(len(b))]
    elif r < 0.85:
        b += bytes(rng.randrange(256) for _ in range(rng.randrange(1, 4)))
    else:
        b[0] = rng.choice([0x80, 0xff, 0x7f, 0])
    return bytes(b)


def gen_decode_pc(rng, tier):
    types = ["u", "i", "q", "x"] + [("r", B) for B in FLOAT_BASES] + [("f", B) for B in FLOAT_BASES]
    def emit(t, stream):
        if isinstance(t, tuple):
            return Case("cfgall", ["de." + t[0], "pc", dec(t[1]), sb(stream)])
        return Case("cfgall", ["de." + t, "pc", sb(stream)])
    bad_varints = [b"", b"\x80", b"\xff\xff", b"\x80\x00", b"\x81\x80\x00", b"\xff" * 9 + b"\x01", b"\xff" * 9 + b"\x02",
                   b"\xff" * 9 + b"\x7f", b"\xff" * 10, b"\x80" * 9 + b"\x01", b"\x80" * 10 + b"\x01", b"\xff" * 11,
                   b"\x80" * 9 + b"\x00", b"\xff\xff\xff\xff\x0f", b"\xff\xff\xff\xff\xff\xff\xff\xff\x7f"]
    for t in types:
        for v in bad_varints:
            yield emit(t, v)
            yield emit(t, v + b"\x01\x02\x03")
    # integers: leading (most significant) zero bytes, negative zero, parity, trailing bytes, truncation
    payloads = [b"", b"\0", b"\0\0", b"\0\0\0", b"\1", b"\1\0", b"\1\0\0", b"\0\1", b"\xff", b"\xff\0", b"\xff\xff\0\0\0",
                bytes(range(1, 9)), bytes(range(1, 10)), bytes(range(1, 17)), bytes(range(1, 18)), b"\0" * 16 + b"\1",
                b"\0" * 17 + b"\1", b"\1" + b"\0" * 40, b"\0" * 127, b"\0" * 128, b"\xab" * 127, b"\xab" * 128, b"\xab" * 129]
    for p in payloads:
        s = pc_bytes(p)
        for t in ("u", "i"):
            yield emit(t, s)
            yield emit(t, s + b"\x07")
            if len(s) > 1:
                yield emit(t, s[:-1])
    vals = [0, 1, 255, 256, 2 ** 64 - 1, 2 ** 64, 2 ** 128, 2 ** 130 + 12345, rng.getrandbits(200), rng.getrandbits(1030)]
    # rationals: zero denominators (with zero / non-zero numerators), unreduced, negative zero numerator
    for n in [0, 1, -1, 2, -2, 6, -6, 255, 2 ** 64, -2 ** 64, 2 ** 128 + 2, -(2 ** 70) * 3, rng.getrandbits(190)]:
        for d in [0, 1, 2, 3, 4, 6, 256, 2 ** 64, 2 ** 128, 3 * 2 ** 70, rng.getrandbits(130) | 1]:
            for t in ("q", "x"):
                yield emit(t, pc_i(n) + pc_u(d))
    # non-reduced with an ODD common factor: RBig must come out in lowest terms (reduce), Relaxed keeps it (reduce2)
    for n, d in [(6, 9), (-15, 35), (21, 49), (9, 3), (-45, 75), (3 * (2 ** 64 + 13), 7 * (2 ** 64 + 13)), (-(3 ** 50), 3 ** 48 * 5),
                 (30, 105), (12, 18), (-(2 ** 70) * 9, 2 ** 3 * 27)]:
        for t in ("q", "x"):
            yield emit(t, pc_i(n) + pc_u(d))
    for t in ("q", "x"):
        yield emit(t, pc_bytes(b"\0") + pc_u(5))             # -0 / 5
        yield emit(t, pc_bytes(b"\0") + pc_u(0))             # -0 / 0
        yield emit(t, pc_bytes(b"\6\0") + pc_bytes(b"\4\0\0"))  # leading zero bytes
        yield emit(t, pc_i(3))                                # missing denominator
        yield emit(t, pc_i(3) + pc_u(4) + b"\1\1")           # trailing
    # floats: unnormalised significands, zero significand with exponents, precision below the digits, extreme exponents
    for B in FLOAT_BASES:
        for s in [0, 1, -1, B, -B, B ** 3, 5 * B ** 7, -(B ** 20) * 3, 12345, -12345, 2 ** 64, B ** 70 + 1, B ** 70]:
            for e in [0, 1, -1, 2, -2, 100, -100, IMAX, IMAX - 1, IMAX - 2, IMAX - 25, IMIN, IMIN + 1, 2 ** 40]:
                body = pc_i(s) + varint(zigzag(e))
                yield emit(("r", B), body)
                ns, ne = strip_base(s, e, B)
                d = digits_in(ns, B)
                for p in sorted({0, 1, d, max(d - 1, 0), d + 1, 2 ** 64 - 1}):
                    yield emit(("f", B), body + varint(p))
            yield emit(("r", B), pc_i(s))                     # exponent missing
            yield emit(("f", B), pc_i(s) + varint(zigzag(3)))  # precision missing
            yield emit(("f", B), pc_i(s) + varint(zigzag(3)) + b"\xff" * 9 + b"\x02")  # precision overflows u64
            yield emit(("r", B), pc_i(s) + b"\xff" * 9 + b"\x01")        # exponent = i64::MIN (zig-zag of u64::MAX)
            yield emit(("r", B), pc_i(s) + b"\xfe" + b"\xff" * 8 + b"\x01")  # exponent = i64::MAX
        yield emit(("r", B), pc_bytes(b"\0") + varint(zigzag(4)))   # -0 significand
        yield emit(("r", B), pc_bytes(b"\0\0\0") + varint(zigzag(1)))
    # every prefix of some valid streams, and random damage
    valid = []
    for v in vals:
        valid.append(("u", pc_u(v))); valid.append(("i", pc_i(-v))); valid.append(("i", pc_i(v)))
        valid.append(("q", pc_i(-v) + pc_u(v + 1))); valid.append(("x", pc_i(v) + pc_u(2 * v + 2)))
        for B in FLOAT_BASES:
            valid.append((("r", B), pc_i(-v) + varint(zigzag(-77))))
            valid.append((("f", B), pc_i(v) + varint(zigzag(12345)) + varint(400)))
    for t, s in valid:
        if len(s) <= 40:
            for k in range(len(s)):
                yield emit(t, s[:k])
        else:
            for k in sorted({0, 1, 2, len(s) // 2, len(s) - 1}):
                yield emit(t, s[:k])
    n = 300 if tier == "quick" else max(300, int(6000 * _SCALE))
    for _ in range(n):
        t, s = rng.choice(valid)
        yield emit(t, mutate(rng, s))
    for _ in range(n // 3):
        t, _ = rng.choice(valid)
        yield emit(t, bytes(rng.randrange(256) for _ in range(rng.randrange(0, 12))))


INT_TEXTS = ["0", "1", "-1", "+1", "-0", "+0", "00", "007", "-007", "123456789012345678901234567890", "1_000", "_1", "1_",
             "_", "__", "", "-", "+", "--1", "+-1", "-+1", "++1", " 1", "1 ", "0x", "0x_", "0xff", "0XFF", "0xFF", "-0xff",
             "+0b101", "0b102", "0o17", "0o18", "0x1_0", "ff", "1e3", "1.0", "12a", "١", "0x-1", "0b", "0o", "١٢٣", "1/1",
             "340282366920938463463374607431768211456", "-340282366920938463463374607431768211455", "18446744073709551616",
             "0x10000000000000000", "0b" + "1" * 130, "-0o" + "7" * 50, "9" * 400]
RATIO_TEXTS = ["6/9", "-15/35", "21/49", "9/3", "15/-5", "0x9/0x1b", "-0b1111/0b100011", "30/105", "1000000007000000021/3000000021000000063",
               "1/2", "-1/2", "1/-2", "-1/-2", "+1/+2", "2/4", "6/4", "0/5", "0/0", "1/0", "-1/0", "5/0", "0/1", "-0/1", "-0/0",
               "1/", "/2", "/", "1//2", "1/2/3", "0x10/0x20", "0x10/20", "0x10/0b1", "10/0x20", "0b11/0b110", "1_0/2_0", "1 /2",
               "1/ 2", "7", "-7", "4/2", "4/6", "1/1", "12345678901234567890123/456", "256/1024", "-1024/256", "3/0x0", "0x0/0x0",
               "0b0/0b0", "1/_", "_/1", "1/+0", "1/-0", "0/-0", "-4/-6", "4/00", "18446744073709551616/36893488147419103232",
               "340282366920938463463374607431768211456/4", "0x1/0x0", "-0x4/0x0", "8/0", "12/00"]
FLOAT_TEXTS = ["0", "-0", "1", "-1", "+1", "1.", ".5", "-.5", ".", "-.", "1.5", "1.50", "01.5", "001.500", "1_0.0_1", "1.+5", "+1.+5",
               "1.-5", "--1", "-+1", "+-1", "++1", "1e5", "1E5", "1e-5", "1e+5", "1e", "1e+", "1e-", "e5", ".e5", "1.e5", "1@5", "1@-5",
               "1@", "@1", "1.5@2", "1e5e6", "1e5.5", "inf", "-inf", "+inf", "nan", "1b3", "101b3", "1.01b-2", "1B3", "1o3", "7.7o-1",
               "1h3", "f.fh2", "F.Fh-2", "0x1p3", "0x1.8p3", "0x1.8P-3", "0x.8p0", "0x8.p0", "0x.p0", "0xp0", "0x1.8", "0x1", "0X1P1",
               "0x1_0.0_8p1", "1.8p3", "1p3", "-0x1.8p3", "0x-1p3", "0x1p", "0x1p+", "0x1@3", "0x1.8@3", "10", "100", "1000e-3", "100e100",
               "0.001", "0.0010", "123456789.123456789", "1e9223372036854775807", "10e9223372036854775807", "100e9223372036854775806",
               "1e-9223372036854775808", "1.5e-9223372036854775808", "0.5e-9223372036854775808", "1e9223372036854775808",
               "1e-9223372036854775809", "1.5e9223372036854775807", "1e99999999999999999999", "0e5", "0.0e5", "0e9223372036854775807",
               "-0.0e-5", "1 ", " 1", "1e 5", "1_e5", "1e_5", "1e5_", "_1", "1_", "_", "_._", "1._", "_.1", "z", "1.z", "ab.cd", "AB.CD@1",
               "6.6", "0.1", "0.3", "10.01", "1" + "0" * 50, "0." + "0" * 50 + "1", "9" * 60 + "." + "9" * 60]

def json_str(s):
    return json.dumps(s, ensure_ascii=False).encode()

def json_variants(rng, text):
    q = json_str(text)
    yield q
    r = rng.random()
    if r < 0.15:
        yield b" \t\n\r" + q + b" \n"
    elif r < 0.25:
        yield q + b" x"
    elif r < 0.35:
        yield q[:-1]
    elif r < 0.45 and text:
        # escape one character as \uXXXX
        i = rng.randrange(len(text))
        yield b'"' + text[:i].encode() + ("\\u%04x" % ord(text[i])).encode() + text[i + 1:].encode() + b'"'
    elif r < 0.5:
        yield b'"' + text.encode() + b'\\"'
    elif r < 0.55:
        yield text.encode()                      # bare token: number / identifier, not a string


def gen_decode_json(rng, tier):
    def emit(t, stream):
        if isinstance(t, tuple):
            return Case("cfgall", ["de." + t[0], "json", dec(t[1]), sb(stream)])
        return Case("cfgall", ["de." + t, "json", sb(stream)])
    generic = [b"", b" ", b"null", b"123", b"-5", b"1.5", b"true", b"[]", b'["1"]', b"{}", b'{"a":"1"}', b'"', b'""', b'"\\', b'"\\"',
               b'"\\x31"', b'"\\u00"', b'"\\u0031"', b'"\\u0031\\u0032"', b'"\\ud800"', b'"\\udc00"', b'"\\ud83d\\ude00"',
               b'"1\x00"', b'"1\n"', b'"1\\n"', b'"\\/"', b'"1\\/2"', b'"1" "2"', b'"1",', b'\xef\xbb\xbf"1"', b'"1"\x00', b'"\xff"',
               b'"\xc3\xa9"', b"'1'", b'"1\\t"', b'"\\b1"', b'"\\f"', b'"\\r"', b'"\\\\"', b'"\\u002d5"', b'"\\u002D5"', b'"\\u00e9"']
    types = ["u", "i", "q", "x"] + [("r", B) for B in FLOAT_BASES] + [("f", B) for B in FLOAT_BASES]
    for t in types:
        for g in generic:
            yield emit(t, g)
    for text in INT_TEXTS + RATIO_TEXTS[:12]:
        for t in ("u", "i", "q", "x"):
            for s in json_variants(rng, text):
                yield emit(t, s)
    for text in RATIO_TEXTS:
        for t in ("q", "x"):
            for s in json_variants(rng, text):
                yield emit(t, s)
    for text in FLOAT_TEXTS + INT_TEXTS[:30]:
        for B in FLOAT_BASES:
            for k in ("r", "f"):
                for s in json_variants(rng, text):
                    yield emit((k, B), s)
    # random texts over the alphabets of the grammars
    n = 300 if tier == "quick" else max(300, int(8000 * _SCALE))
    alpha_i = "0123456789" * 3 + "_+-xbo af"
    alpha_q = alpha_i + "//"
    alpha_f = "0123456789" * 3 + "..eE@pPbBhHoO+-_x a"
    for _ in range(n):
        L = rng.randrange(1, 12)
        yield emit(rng.choice(["u", "i"]), json_str("".join(rng.choice(alpha_i) for _ in range(L))))
        yield emit(rng.choice(["q", "x"]), json_str("".join(rng.choice(alpha_q) for _ in range(L))))
        yield emit((rng.choice("rf"), rng.choice(FLOAT_BASES)), json_str("".join(rng.choice(alpha_f) for _ in range(L))))


# ---------------------------------------------------------------------------------- clause 1

# ops whose arguments are machine words of the build, or whose answer is about the representation (word counts,
# which dispatch route was taken, the words fed to a hasher) rather than about the value
# (`s32.*`: C10's probes of the host's binary32 arithmetic and of f32 log2 bounds - not values of dashu numbers;
# `u.dbg` / `i.dbg`: `{:?}` prints all digits of an inline value and `head..tail` of a heap value - which one a 65..128-bit
# number is depends on the word size by design; it is a diagnostic of the representation, not a value)
# `qp.pow`, `qp.prog` (C04, round 6): driven at exponents placed around Buffer::MAX_CAPACITY of the 64-bit-word build (a limit counted in words);
# with 32-bit words the same exponents pass the guard and reach the allocator - a resource limit, not a value (owner's request)
W_DEPENDENT = re.compile(r"^(cd\.|w\.|k\.|nm\.)|ismultipleconst|frompartsconst|routes|hashfeed|^c\.ones$|^[ui]\.dbg$|^s32\.|^qp\.(pow|prog)$")
LOG2B = re.compile(r"log2b")                       # answers differ between the std and the no_std estimator
NOSTD_LOG2B = ("p.log2b", "p.log2brange", "p.flog2b", "u.log2b")   # the ones C12's driver models for the no_std build

# (property module, cases per run in the quick tier, in the thorough tier); the group (= which exec_<group> /
# drive_<group> dispatch chain evaluates the op) is the module's GROUP
WRAP = [("c01", 700, 8000), ("c02", 700, 8000), ("c09", 400, 5000), ("c05", 300, 3000), ("c07", 400, 5000), ("c08", 300, 3000),
        ("c06", 400, 5000), ("c12", 400, 5000), ("c13", 400, 5000), ("c03", 300, 4000), ("c10", 300, 3000), ("c04", 400, 4000),
        ("c14", 300, 3000)]
GROUPS = ("int", "div", "bits", "text", "conv", "nt", "float", "ratio", "cross")

_SCALE = 1.0

class _GenTimeout(Exception):
    pass

def _collect(gen_fn, seconds):
    """list(gen_fn()) with a wall-clock limit (a neighbour's generator driven by a different random stream than
    its own check uses may not terminate, e.g. a rejection-sampling loop); returns what was produced so far"""
    import signal
    out = []
    def on_alarm(signum, frame):
        raise _GenTimeout()
    old = signal.signal(signal.SIGALRM, on_alarm)
    signal.setitimer(signal.ITIMER_REAL, seconds)
    try:
        for c in gen_fn():
            out.append(c)
    except _GenTimeout:
        core.log("C19: a wrapped generator did not finish within %ds; using the %d cases produced so far" % (seconds, len(out)))
    finally:
        signal.setitimer(signal.ITIMER_REAL, 0)
        signal.signal(signal.SIGALRM, old)
    return out


def _drop_unknown_ops(name, group, flat):
    """a neighbour's generator may be ahead of its harness / driver ops (builders work concurrently): an op that the
    model driver of this group does not know (`bad-op` on every one of up to three sample cases) is left out of the
    cross-configuration replay and named in the log, instead of turning the whole check into a machinery error"""
    import tempfile, shutil
    model_exe = os.path.join(core.LEAN, ".lake", "build", "bin", "drive_" + GROUP)
    if not os.path.exists(model_exe):
        return flat
    samples = {}
    for op, args in flat:
        samples.setdefault(op, [])
        if len(samples[op]) < 3:
            samples[op].append(args)
    probe = [Case("cfgall", [group + "/" + op] + list(a)) for op, al in samples.items() for a in al]
    if not probe:
        return flat
    import hashlib
    tdir = os.path.join(core.CACHE, "harness-target")
    if core.REPO != "/repo":
        tdir += "-alt-" + hashlib.sha1(core.REPO.encode()).hexdigest()[:10]
    impl_exe = os.path.join(tdir, "debug", "exec_" + GROUP)
    sides = [("drive_" + GROUP, model_exe, "model")]
    if os.path.exists(impl_exe) and core.ENV.get("DASHU_CFG_MANIFEST"):
        sides.append(("exec_" + GROUP, impl_exe, "impl"))
    known = set(samples)
    for label, exe, side in sides:
        wd = tempfile.mkdtemp(prefix="verif-c19probe-")
        try:
            path = os.path.join(wd, "cases.txt")
            core.write_cases(path, probe)
            got = core.run_side(exe, path, len(probe), 60, side)
        except Exception as e:
            core.log("C19: probing the ops of %s with %s failed (%s); nothing dropped" % (name, label, e))
            continue
        finally:
            shutil.rmtree(wd, ignore_errors=True)
        ok = set()
        for i, c in enumerate(probe):
            if not got.get(i, "missing").startswith("bad-op"):
                ok.add(c.args[0].split("/", 1)[1])
        unknown = sorted(known - ok)
        if unknown:
            core.log("C19: ops of %s unknown to %s (generator ahead of the harness / driver?), left out of the replay: %s"
                     % (name, label, " ".join(unknown)))
        known &= ok
    return [(op, args) for op, args in flat if op in known]


def _big_arg(args):
    for a in args:
        if a.startswith("d:") and a[2:].lstrip("-").isdigit() and abs(int(a[2:])) >= 2 ** 31:
            return True
    return False


def _drop_model_hangs(name, group, flat):
    """extreme machine-integer arguments (shift counts, exponents, bit indices >= 2^31, ROUND4 addendum E1) are replayed
    wherever the call is cheap.  Where the result would need memory proportional to the argument the real builds refuse
    (`AllocTooMuch` when the word count exceeds Buffer::MAX_CAPACITY = usize::MAX / WORD_BITS - a limit counted in
    words, so the 32-bit-word build passes the guard for twice as many bits and then fails in the allocator,
    `OutOfMemory`, host dependent) and the model at W = 32 would compute the number: not a value, nothing to compare.
    Those cases are recognised by running the model on the extreme-argument cases first with a short per-case time
    limit, in parallel shards; what does not answer is left out (count and ops logged)."""
    import tempfile, shutil
    from concurrent.futures import ThreadPoolExecutor
    model_exe = os.path.join(core.LEAN, ".lake", "build", "bin", "drive_" + GROUP)
    idx = [i for i, (op, args) in enumerate(flat) if _big_arg(args)]
    if not idx or not os.path.exists(model_exe):
        return flat
    jobs = 8
    shards = [idx[j::jobs] for j in range(jobs)]
    wd = tempfile.mkdtemp(prefix="verif-c19hang-")
    bad = set()
    def do(j):
        sh = shards[j]
        if not sh:
            return []
        path = os.path.join(wd, "cases.%d.txt" % j)
        core.write_cases(path, [Case("cfgall", [group + "/" + flat[i][0]] + list(flat[i][1])) for i in sh])
        got = core.run_side(model_exe, path, len(sh), 4, "model")
        def refused(ans):
            # (round 6: the `bits` chain has C09's huge-count front end - at one word size the request exceeds MAX_CAPACITY
            # (`panic AllocTooMuch`), at the other it stays below the guard and the driver declines to build the number
            # (`bad-op … huge-count-below-the-capacity-guard`): the same resource-limit class as a hang)
            return (ans.startswith(("hang", "crash", "missing", "panic AllocTooMuch", "panic OutOfMemory"))
                    or "huge-count-below-the-capacity-guard" in ans
                    or (ans.startswith("required: the same answer") and ("=panic AllocTooMuch" in ans or "=panic OutOfMemory" in ans)))
        return [sh[k] for k in range(len(sh)) if refused(got.get(k, "missing"))]
    try:
        with ThreadPoolExecutor(max_workers=jobs) as ex:
            for r in ex.map(do, range(jobs)):
                bad.update(r)
    except Exception as e:
        core.log("C19: hang probe of %s failed (%s); nothing dropped" % (name, e))
        return flat
    finally:
        shutil.rmtree(wd, ignore_errors=True)
    if bad:
        core.log("C19: %d extreme-argument cases of %s (of %d) refused (AllocTooMuch) or not answered by the model within 4 s (result "
                 "size proportional to the argument), left out of the replay: ops %s" % (len(bad), name, len(idx), " ".join(sorted(set(flat[i][0] for i in bad)))))
    return [x for i, x in enumerate(flat) if i not in bad]


def _word_typed(op, args):
    """`f.norm d:<B> <signif> d:<exp>` (C05): the base is a `Word` const generic - a base >= 2^32 does not exist in a build with
    32-bit words; and the op probes `FBig::from_parts_const` only when |signif| fits a `DoubleWord` of the build (prints `pc:-`
    otherwise), so for 2^64 <= |signif| < 2^128 the answer is about the word size by construction of the op.  Everything else
    (|signif| < 2^64, base < 2^32) is replayed: there the inferred precision must not depend on the word size."""
    try:
        if op == "f.norm":
            return int(args[0][2:]) >= 2 ** 32 or abs(int(args[1], 16)) >= 2 ** 64
        # a float argument `f:<B>:…` in a base >= 2^32, or a target base >= 2^32 of with_base / with_base_and_precision (C08, round 6:
        # bases near the top of the 64-bit Word range): the base is a `Word` const generic, such a type does not exist with 32-bit words
        for a in args:
            if a.startswith("f:") and int(a.split(":")[1]) >= 2 ** 32:
                return True
        if op.startswith("f.with_base") and args and args[0].startswith("d:") and int(args[0][2:]) >= 2 ** 32:
            return True
    except Exception:
        return True
    return False


def wrap_other(rng, tier, confs):
    """every property's case generator, replayed in every configuration: `cfgall <group>/<op> …` (all builds
    byte-identical and equal to the model at both word sizes); the log2_bounds family per configuration"""
    for name, kq, kt in WRAP:
        k = kq if tier == "quick" else kt
        k = max(150, int(k * _SCALE))
        try:
            M = importlib.import_module("vlib.props." + name)
            group = M.GROUP
            if group not in GROUPS:
                continue
            sub = random.Random(rng.getrandbits(64))
            cases = _collect(lambda: M.generate(sub, "quick" if (tier == "quick" or _SCALE < 0.5) else "thorough"),
                             (60 if _SCALE >= 0.5 else 25) if tier == "quick" else 600)
        except Exception as e:                       # a broken neighbour must not disable C19
            core.log("C19: generator of %s unavailable (%s)" % (name, e))
            continue
        flat = []
        for c in cases:
            op, args = c.op, c.args
            if op == "ns" and len(args) >= 2:        # C12's own no_std replay: take the inner op, every configuration asks it itself
                op, args = args[1], args[2:]
            if W_DEPENDENT.search(op) or any(a.startswith("w:") or "words:" in a for a in args):
                continue
            if _word_typed(op, args):
                continue
            if any(len(a) <= 6 and "dbg" in a for a in args):      # `{:?}` / `{:#?}` elide digits by word-sized chunks: about the representation
                continue
            if tier == "quick" and sum(len(a) for a in args) > 12000:
                continue
            flat.append((op, args))
        flat = _drop_unknown_ops(name, group, flat)
        if len(flat) > k:
            flat = sub.sample(flat, k)
        flat = _drop_model_hangs(name, group, flat)
        for op, args in flat:
            if LOG2B.search(op):
                for conf in confs:
                    if "-nostd-" in conf and op not in NOSTD_LOG2B:
                        continue
                    yield Case("cfg", [conf, group + "/" + op] + args)
            else:
                yield Case("cfgall", [group + "/" + op] + args)


def gen_conv_directed(rng, tier):
    """conversions of 65..131-bit integers to f32 / f64 at the rounding boundary: these magnitudes are inline double
    words with 64-bit words but heap values with 32-bit words, so the two builds take different functions
    (`to_f32_small` vs `to_f32_nontrivial`).  Exact ties, ties plus one low bit at every kind of position (bit 0, word
    boundaries of both word sizes, just below the round bit), all-ones below the round bit; plus C06's own
    single-bit boundary probes for these lengths."""
    own = []
    for ty, p in (("f32", 24), ("f64", 53)):
        for n in list(range(65, 72)) + [80, 95, 96, 97, 100, 120, 126, 127, 128, 129, 130, 131]:
            for top in ((1 << (p - 1)) | 1, (1 << (p - 1)), (1 << p) - 1, (1 << p) - 2, (1 << (p - 1)) | rng.getrandbits(p - 1)):
                base = top << (n - p)
                rb = 1 << (n - p - 1)
                lows = {0, 1, 2, 30, 31, 32, 33, 62, 63, 64, 65, n - p - 2, n - p - 3}
                pats = [base, base | rb, base | (rb - 1), base | rb | (rb - 1)]
                pats += [base | rb | (1 << j) for j in lows if 0 <= j < n - p - 1]
                pats += [base | (1 << j) for j in lows if 0 <= j < n - p - 1]
                for x in pats:
                    own.append(Case("cfgall", ["conv/u.to_" + ty, hx(x)]))
                    if rng.random() < 0.4:
                        own.append(Case("cfgall", ["conv/i.to_" + ty, hx(-x)]))
    if tier == "quick" and len(own) > 1200:
        own = rng.sample(own, 1200)
    yield from own
    try:
        c06 = importlib.import_module("vlib.props.c06")
        sub = random.Random(rng.getrandbits(64))
        keep = []
        for c in c06.gen_boundary(sub, "quick"):
            if c.op in ("u.to_f32", "i.to_f32", "u.to_f64", "i.to_f64") and 65 <= int(c.args[0].lstrip("-"), 16).bit_length() <= 131:
                keep.append(c)
        if tier == "quick" and len(keep) > 500:
            keep = sub.sample(keep, 500)
        for c in keep:
            yield Case("cfgall", ["conv/" + c.op] + c.args)
    except Exception as e:
        core.log("C19: C06 boundary generator unavailable (%s)" % e)


def gen_text_directed(rng, tier):
    """formatting (`in_radix` Display, UBig and IBig) of the values that are an inline word / double word in one
    word size and take the next routine in the other (`fmt/non_power_two.rs` PreparedWord / PreparedDword /
    PreparedMedium, `fmt/power_two.rs`), in EVERY radix 2..36 and for both word sizes W = 32, 64: for each digit
    count L from digits_per_word (the always-filled group) up to the maximal digit count of a W-bit word, and from
    2*digits_per_word up to the maximal digit count of a 2W-bit double word (the fixed digit buffers
    MAX_WORD_DIGITS_NON_POW_2 / MAX_DWORD_DIGITS_NON_POW_2 are sized for exactly that maximum; the three digit loops of
    PreparedDword::new stop on `p1 == 0 && p2 == 0` / `p2 != 0`): the least, least+1, greatest and a random value with
    L digits that still fits the word / double word, plus the all-ones word / double word and the value one above it."""
    out = []
    for Wb in (32, 64):
        for r in range(2, 37):
            d, p = 0, 1
            while p * r <= (1 << Wb) - 1:
                p *= r; d += 1
            for bits, lo_d in ((Wb, d), (2 * Wb, 2 * d)):
                top = (1 << bits) - 1
                L = max(lo_d - 1, 1)
                while r ** (L - 1) <= top:
                    lo, hi = r ** (L - 1), min(r ** L - 1, top)
                    vals = {lo, min(lo + 1, hi), hi, rng.randrange(lo, hi + 1), min(2 * lo, hi), min(2 * lo + rng.getrandbits(60) % lo, hi)}
                    for v in vals:
                        out.append((r, v))
                    L += 1
                out.append((r, top)); out.append((r, top + 1)); out.append((r, top - 1))
    for r, v in out:
        t = "r%d" % r
        if rng.random() < 0.35:
            yield Case("cfgall", ["text/i.fmt", t, 0, rng.choice(["-", "+", "#"]), "none", hx(-v)])
        else:
            yield Case("cfgall", ["text/u.fmt", t, 0, rng.choice(["-", "-", "#"]), "none", hx(v)])


def words32(rng, tier):
    """operands whose length in *32-bit* words sits on the word-count thresholds of mul / div /
    add (24, 32, 192, …) — in 64-bit builds these are half as many words, so each build takes a
    different algorithm for the same mathematical input"""
    sz = [1, 2, 3, 4, 5, 6, 23, 24, 25, 31, 32, 33, 47, 48, 49, 63, 64, 65, 95, 96, 97, 191, 192, 193, 383, 384, 385]
    if tier == "thorough":
        sz += [767, 768, 769, 1025, 2049]
    n = 400 if tier == "quick" else max(400, int(6000 * _SCALE))
    for _ in range(n):
        na = rng.choice(sz); nb = rng.choice(sz)
        a = nat_pattern(rng, na, rng.choice(PATTERNS), 32)
        b = nat_pattern(rng, nb, rng.choice(PATTERNS), 32)
        op = rng.choice(["u.add", "u.sub", "u.mul", "i.add", "i.sub", "i.mul", "u.divrem", "i.divrem", "u.sqr",
                         "u.rem", "i.div", "u.div"])
        if op == "u.sub" and a < b:
            a, b = b, a
        if op == "u.sqr":
            yield Case("cfgall", [op, hx(a)])
        elif op.startswith("i."):
            yield Case("cfgall", [op, hx(signed(rng, a)), hx(signed(rng, b))])
        else:
            yield Case("cfgall", [op, hx(a), hx(b)])


def gen_log2(rng, tier, confs):
    """clause 2: log2_bounds of u8..u128 / UBig / IBig in each configuration (the std and the no_std
    estimator give different bounds, so every configuration is asked separately)"""
    vals = [0, 1, 2, 3, 4, 5, 6, 7, 9, 15, 16, 17, 18, 31, 33, 127, 129, 254, 255, 256, 257, 353, 354, 355, 0x1fe, 0x1ff, 0x200,
            0x201, 0x3ff, 0x401, 0x407f, 0x4080, 0x4081, 0x7fff, 0x8001, 0xff00, 0xfffe, 0xffff, 0x10001, 0x10002, 0x1ffff,
            0xffffff, 0x1000001, 0x1fffffe, 0x1ffffff, 0x2000001]
    for k in range(2, 128):
        vals += [(1 << k) - 1, (1 << k) + 1, 1 << k]
        if k >= 16:
            vals += [(0x8000 << (k - 15)) + 1, (0x8000 << (k - 15)) + (1 << (k - 15)) - 1, (0x8001 << (k - 15)), (0xffff << (k - 15)) | ((1 << (k - 15)) - 1),
                     (0xff7f << (k - 15)) | 1]
    n = 150 if tier == "quick" else max(150, int(3000 * _SCALE))
    for _ in range(n):
        vals.append(rng.getrandbits(rng.randrange(1, 129)))
    vals = sorted(set(v for v in vals if v < 2 ** 128))
    big = []
    for w in (1, 2, 3, 4, 5, 8, 17, 40):
        for _ in range(3 if tier == "quick" else 20):
            for W in (32, 64):
                big.append(nat_pattern(rng, w, rng.choice(PATTERNS), W))
    big += [2 ** 64, 2 ** 64 + 1, 2 ** 128 - 1, 2 ** 128, 2 ** 128 + 1, 2 ** 192 - 1, 2 ** 4096, 2 ** 4096 + 1, 2 ** 30000 - 1]
    if tier == "quick":
        sample = rng.sample(vals, min(len(vals), 260))
    elif _SCALE < 1.0:
        sample = rng.sample(vals, min(len(vals), max(260, int(len(vals) * _SCALE))))
    else:
        sample = vals
    for conf in confs:
        for lo in range(0, 65536, 4096):
            yield Case("cfg", [conf, "lg.range", dec(lo), dec(lo + 4096)])
        for v in sample:
            for ty, bits in (("u8", 8), ("u16", 16), ("u32", 32), ("u64", 64), ("u128", 128)):
                if v < (1 << bits) and (v >= (1 << (bits // 2)) or rng.random() < 0.2 or bits == 8):
                    yield Case("cfg", [conf, "lg.p", ty, hx(v)])
        for v in big + (sample if tier == "thorough" else sample[:80]):
            yield Case("cfg", [conf, "lg.u", hx(v)])
            yield Case("cfg", [conf, "lg.i", hx(-v)])


def _load_scale():
    """the volume of the *random* parts of the run (the replay quotas of the other properties' generators, random serde values
    and damaged streams) is scaled down when the machine is overloaded (1-minute load average above two runnable processes
    per core), so that the check stays within its time budget when ~20 builds and checks share the machine; the directed
    classes, the corpus and the malformed-stream tables are never thinned.  VERIF_C19_SCALE overrides."""
    try:
        if os.environ.get("VERIF_C19_SCALE"):
            return max(0.02, min(1.0, float(os.environ["VERIF_C19_SCALE"])))
        per_core = os.getloadavg()[0] / max(1, os.cpu_count() or 1)
    except Exception:
        return 1.0
    if per_core <= 2.0:
        return 1.0
    return max(0.03, (2.0 / per_core) ** 2)      # the slowdown is itself ~ per_core: keep the wall time from growing with the load


def generate(rng, tier):
    global _SCALE
    _SCALE = _load_scale()
    if _SCALE < 1.0:
        core.log("C19: machine overloaded (load average %.0f on %d cores): random volume scaled to %.0f%%"
                 % (os.getloadavg()[0], os.cpu_count() or 1, 100 * _SCALE))
    confs = list(cfgbuild.QUICK) if tier == "quick" else list(cfgbuild.ALL)
    eff = tier
    if tier == "thorough" and _SCALE < 0.15:
        # heavily overloaded machine: the thorough tier keeps what defines it (all eight build configurations, leanchecker)
        # and runs the quick tier's case volume over them
        eff = "quick"
        core.log("C19: thorough tier on an overloaded machine: quick-tier case volume over all %d configurations" % len(confs))
    for c in confs + [cfgbuild.UNSUPPORTED]:
        yield Case("cfg", [c, "cfg.self"], nontrivial=False)
    yield from gen_log2(rng, eff, confs)
    yield from gen_serde_values(rng, eff)
    yield from gen_decode_pc(rng, eff)
    yield from gen_decode_json(rng, eff)
    yield from gen_float_full_precision(rng, eff)
    yield from gen_json_control_digits(rng, eff)
    yield from words32(rng, eff)
    yield from gen_conv_directed(rng, eff)
    yield from gen_text_directed(rng, eff)
    yield from wrap_other(rng, eff, confs)
