"""C06 — conversions are lossless or refused; lossy ones are correctly rounded and say so (DESIGN §8 C06)."""
import os, re
from vlib.core import Case
from vlib.gens import *

GROUP = "conv"
LEAN_PROPS = "Dashu.Props.C06"
LEAN_AUDIT = "Dashu.Audit.C06"

FMT = {
    "f32": dict(N=32, MB=23, EB=8, mty="i32"),
    "f64": dict(N=64, MB=52, EB=11, mty="i64"),
}
UNSIGNED = {"u8": 8, "u16": 16, "u32": 32, "u64": 64, "u128": 128, "usize": 64}
SIGNED = {"i8": 8, "i16": 16, "i32": 32, "i64": 64, "i128": 128, "isize": 64}


def prim(ty, v):
    return "p:%s:%s" % (ty, hx(v))


def tree_is_fixed():
    """True once base/src/bit.rs no longer contains the defective sticky masks / underflow threshold
    (then the `*.asis` ops, which tie the model of the *pinned* encode to the code, are not generated)."""
    try:
        src = open("/repo/base/src/bit.rs").read()
    except OSError:
        return False
    return not ("(mantissa & 0x7f) != 0" in src or "(mantissa & 0x3ff) != 0" in src
                or "top_bit < -125 - 23" in src)


# ------------------------------------------------------------------ encode / decode (direct)

def _qmin(f):
    return 1 - (2 ** (f["EB"] - 1) - 1) - f["MB"]


def cut_mantissas(rng, L, k, per=3):
    """naturals of exactly L bits whose low k bits (the part a rounding at position k discards) are
    boundary / tie / near-tie / random patterns, with even and odd kept parts"""
    out = []
    if L <= 0:
        return out
    keptbits = L - k
    lows = [0]
    if k >= 1:
        half = 1 << (k - 1)
        lows += [half, (1 << k) - 1, 1 if k > 1 else half]
        if k >= 2:
            lows += [half - 1, half + 1, half >> 1, half + (half >> 1), half | 1]
        if k >= 3:
            lows += [half >> 2, half + (half >> 2), (half >> 1) + 1, rng.getrandbits(k), rng.getrandbits(k) | half,
                     rng.getrandbits(k - 1)]
    if keptbits <= 0:
        # everything is discarded: the top bit is inside the discarded part
        for lo in lows + [rng.getrandbits(L) for _ in range(per)]:
            v = (lo & ((1 << L) - 1)) | (1 << (L - 1))
            out.append(v)
        out.append(1 << (L - 1))
        return out
    tops = [1 << (keptbits - 1), (1 << keptbits) - 1]
    if keptbits >= 2:
        tops += [(1 << (keptbits - 1)) | 1, (1 << keptbits) - 2]
        for _ in range(per):
            tops.append(rng.getrandbits(keptbits - 1) | (1 << (keptbits - 1)))
    for t in tops:
        for lo in lows:
            out.append((t << k) | lo)
    return out


def gen_encode(rng, tier, fixed):
    quick = tier == "quick"
    for name, f in FMT.items():
        N, MB = f["N"], f["MB"]
        p = MB + 1
        qmin = _qmin(f)
        emax1 = 2 ** (f["EB"] - 1)          # 128 / 1024: values are < 2^emax1
        mty = f["mty"]
        cases = []

        def emit(a, e, neg=None):
            if not (-32768 <= e <= 32767) or a > (1 << (N - 1)):
                return
            if a == (1 << (N - 1)):
                m = -a
            else:
                m = -a if (neg if neg is not None else rng.random() < 0.35) else a
            cases.append((m, e))

        # (i) all exponents x boundary mantissas
        erange = range(qmin - N - 6, emax1 + 6)
        for e in erange:
            if quick and rng.random() < 0.6:
                continue
            for a in [1, 3, (1 << (N - 1)) - 1, 1 << (N - 2), (1 << (N - 1)), (1 << p) - 1, (1 << p) + 1, 1 << MB]:
                if quick and rng.random() < 0.5:
                    continue
                emit(a, e)
            emit(rng.getrandbits(N - 1) | 1, e)
        # (ii) normal range: every mantissa length, cut at L - p
        for L in range(1, N + 1):
            k = max(L - p, 0)
            ms = cut_mantissas(rng, L, k, per=1 if quick else 3)
            for a in ms:
                for t in ([qmin + p, 0, emax1] if quick else [qmin + p, qmin + p + 1, -3, 0, 1, emax1 - 1, emax1]):
                    emit(a, t - L)
        # (iii) subnormal band and below: cut position k = qmin - e
        for L in range(1, N + 1):
            for k in range(0, L + 3):
                if quick and rng.random() < 0.5:
                    continue
                e = qmin - k
                for a in cut_mantissas(rng, L, min(k, L), per=1 if quick else 2):
                    if quick and rng.random() < 0.6:
                        continue
                    emit(a, e)
        # (iv) threshold top bits
        for L in [1, 2, p - 1, p, p + 1, N - 2, N - 1]:
            for t in [qmin - 2, qmin - 1, qmin, qmin + 1, qmin + 2, qmin + MB, qmin + p, qmin + p + 1,
                      emax1 - 1, emax1, emax1 + 1, emax1 + 2]:
                for a in [1 << (L - 1), (1 << L) - 1, (1 << (L - 1)) | 1]:
                    emit(a, t - L, neg=False)
                    emit(a, t - L, neg=True)
        # (v) exponent extremes
        for e in [32767, 32766, 32767 - N, 32767 - N + 1, 32767 - N - 1, 32700, 20000, 2000, -2000, -20000,
                  -32768, -32767]:
            for a in [1, 2, 3, (1 << (N - 1)) - 1, 1 << (N - 1), rng.getrandbits(N - 2) | 1]:
                emit(a, e)
        # (vi) random
        for _ in range(300 if quick else 20000):
            L = rng.randrange(1, N)
            a = rng.getrandbits(L) | (1 << (L - 1))
            t = rng.choice([rng.randrange(qmin - 4, qmin + p + 4), rng.randrange(qmin - 4, emax1 + 4),
                            rng.randrange(emax1 - 3, emax1 + 3)])
            emit(a, t - L)
        emit(0, 0); emit(0, 5); emit(0, -32768)
        cases.append((0, 7))
        seen = set()
        for m, e in cases:
            if (m, e) in seen:
                continue
            seen.add((m, e))
            yield Case(name + ".encode", [prim(mty, m), prim("i16", e)])
            if not fixed:
                yield Case(name + ".encode.asis", [prim(mty, m), prim("i16", e)])


def float_patterns(rng, name, n):
    f = FMT[name]
    MB, EB = f["MB"], f["EB"]
    W = 1 + EB + MB
    out = []
    emaxf = (1 << EB) - 1
    for s in (0, 1):
        for E in [0, 1, 2, emaxf - 2, emaxf - 1, emaxf, (1 << (EB - 1)) - 1, (1 << (EB - 1)), (1 << (EB - 1)) + MB,
                  (1 << (EB - 1)) - 1 + MB + 1, (1 << (EB - 1)) - 2]:
            for M in [0, 1, (1 << MB) - 1, 1 << (MB - 1), (1 << (MB - 1)) | 1, rng.getrandbits(MB)]:
                out.append((s << (W - 1)) | (E << MB) | M)
    for _ in range(n):
        out.append(rng.getrandbits(W))
    return out


def gen_decode(rng, tier):
    n = 200 if tier == "quick" else 5000
    for name in FMT:
        for b in float_patterns(rng, name, n):
            yield Case(name + ".decode", ["p:%s:%x" % (name, b)])
            yield Case(name + ".roundtrip", ["p:%s:%x" % (name, b)])


# ------------------------------------------------------------------ primitive <-> big integers

def prim_range(ty):
    if ty in UNSIGNED:
        return 0, (1 << UNSIGNED[ty]) - 1
    b = SIGNED[ty]
    return -(1 << (b - 1)), (1 << (b - 1)) - 1


def gen_prim(rng, tier):
    n = 3 if tier == "quick" else 40
    for ty in list(UNSIGNED) + list(SIGNED):
        lo, hi = prim_range(ty)
        bits = UNSIGNED.get(ty) or SIGNED[ty]
        vals = {0, 1, hi, hi - 1, lo, hi >> 1, (hi >> 1) + 1, 1 << (bits // 2)}
        if lo < 0:
            vals |= {-1, lo + 1, -(1 << (bits // 2))}
        for _ in range(n):
            vals.add(rng.randrange(lo, hi + 1))
            vals.add(rng.randrange(lo, hi + 1) >> rng.randrange(0, bits))
        for v in sorted(vals):
            if lo <= v <= hi:
                for k in "uir":
                    yield Case(k + ".from", [prim(ty, v)])
        # big -> primitive: in range, at the edges, one past, word/dword/heap boundaries
        xs = {0, 1, hi, hi + 1, hi - 1, lo, lo - 1, lo + 1, 2 * hi + 1, 2 * hi + 2, -hi, -hi - 1, -hi - 2,
              (1 << 64) - 1, 1 << 64, (1 << 64) + 1, (1 << 127) - 1, 1 << 127, (1 << 127) + 1,
              (1 << 128) - 1, 1 << 128, (1 << 128) + 1, (1 << 128) + hi, (1 << 192) + 5, (1 << 64) + hi}
        for _ in range(n):
            xs.add(rng.randrange(lo, hi + 1))
            xs.add(nat_pattern(rng, rng.choice([1, 2, 3, 4]), rng.choice(PATTERNS)))
            xs.add(hi + 1 + rng.getrandbits(rng.randrange(1, 140)))
        for x in sorted(xs):
            if x >= 0:
                yield Case("u.to", [ty, hx(x)])
            yield Case("i.to", [ty, hx(x)])
            yield Case("i.to", [ty, hx(-x)])
    yield Case("u.from", ["p:bool:0"]); yield Case("u.from", ["p:bool:1"])
    yield Case("i.from", ["p:bool:0"]); yield Case("i.from", ["p:bool:1"])
    for x in [0, 1, -1, (1 << 128) - 1, -(1 << 128), 1 << 200, -(1 << 200) - 1]:
        yield Case("i.to.ubig", [hx(x)])
        if x >= 0:
            yield Case("u.to.ibig", [hx(x)])


# ------------------------------------------------------------------ big integers <-> floats

def gen_int_float(rng, tier, fixed):
    quick = tier == "quick"
    xs = set()
    ks = list(range(0, 1101))
    if quick:
        ks = [k for k in ks if k < 70 or k in (103, 104, 127, 128, 129, 130, 191, 192, 193, 970, 971, 1022, 1023, 1024, 1025, 1100)
              or rng.random() < 0.08]
    for k in ks:
        xs |= {1 << k, (1 << k) - 1, (1 << k) + 1}
        for p in (24, 53):
            if k >= p:
                h = 1 << (k - p)          # half ulp of 2^k
                xs |= {(1 << k) + h, (1 << k) + h - 1, (1 << k) + h + 1, (1 << k) + 3 * h, (1 << k) + 3 * h - 1,
                       (1 << k) + 3 * h + 1, (1 << (k + 1)) - h, (1 << (k + 1)) - h - 1, (1 << (k + 1)) - h + 1}
                if k - p >= 2:
                    xs |= {(1 << k) + (h >> 1), (1 << k) + h + (h >> 1), (1 << k) + (h >> 2), (1 << k) + h + (h >> 2)}
    # every bit length x {boundary, tie, near tie, random} at the rounding position
    for n in (range(1, 200) if quick else range(1, 1100)):
        if quick and n > 140 and rng.random() < 0.7:
            continue
        for p in (24, 53):
            for a in cut_mantissas(rng, n, max(n - p, 0), per=1):
                if quick and rng.random() < 0.7:
                    continue
                xs.add(a)
    xs |= {0, 1, 2, (1 << 128) - 1, (1 << 128) - 2, (1 << 128) - (1 << 74), (1 << 128) - (1 << 74) - 1, (1 << 128) - (1 << 75),
           (1 << 128) - (1 << 103), (1 << 128) - (1 << 103) - 1, (1 << 128) - (1 << 104), (1 << 1024) - (1 << 970),
           (1 << 1024) - (1 << 970) - 1, (1 << 1024) - (1 << 971), (1 << 1024) - 1, 1 << 1024, (1 << 2000) + 1}
    for x in sorted(xs):
        for ty in ("f32", "f64"):
            sgn = rng.random()
            if sgn < 0.6:
                yield Case("u.to_" + ty, [hx(x)])
                if not fixed:
                    yield Case("u.to_%s.asis" % ty, [hx(x)])
            else:
                v = -x if rng.random() < 0.6 else x
                yield Case("i.to_" + ty, [hx(v)])
                if not fixed:
                    yield Case("i.to_%s.asis" % ty, [hx(v)])
    # exact-or-refused
    for ty, p in (("f32", 24), ("f64", 53)):
        ys = set()
        for k in range(0, 70 if quick else 140):
            ys |= {1 << k, (1 << k) + 1, (1 << k) - 1, 3 << k, (1 << k) + (1 << max(k - p + 1, 0)), (1 << k) + (1 << max(k - p, 0))}
        ys |= {0, (1 << p) - 1, 1 << p, (1 << p) + 1, (1 << p) + 2, (1 << (p + 1)), (1 << (p + 1)) + 2, 1 << 200, 1 << 1030}
        for y in sorted(ys):
            yield Case("u.tryto_" + ty, [hx(y)])
            yield Case("i.tryto_" + ty, [hx(-y if rng.random() < 0.5 else y)])
    # float -> integer
    for ty in ("f32", "f64"):
        f = FMT[ty]
        MB, EB = f["MB"], f["EB"]
        W = 1 + EB + MB
        bias = (1 << (EB - 1)) - 1
        pats = set(float_patterns(rng, ty, 100 if quick else 3000))
        for s in (0, 1):
            for E in list(range(bias - 3, bias + MB + 4)) + [bias + 63, bias + 64, bias + 127, bias + 128, 1, 0]:
                for M in [0, 1, 1 << (MB - 1), (1 << MB) - 1, 1 << max(0, min(MB - 1, bias + MB - E)),
                          1 << max(0, min(MB - 1, bias + MB - E - 1)), rng.getrandbits(MB)]:
                    if 0 <= E < (1 << EB):
                        pats.add((s << (W - 1)) | (E << MB) | M)
        for b in sorted(pats):
            a = "p:%s:%x" % (ty, b)
            yield Case("u.from_" + ty, [a]); yield Case("i.from_" + ty, [a])
            if not fixed_from_float():
                yield Case("u.from_%s.asis" % ty, [a]); yield Case("i.from_%s.asis" % ty, [a])


def fixed_from_float():
    try:
        src = open("/repo/integer/src/convert.rs").read()
    except OSError:
        return False
    return "result >>= (-exp) as usize;" not in src


def generate(rng, tier):
    fixed = tree_is_fixed()
    yield from gen_encode(rng, tier, fixed)
    yield from gen_decode(rng, tier)
    yield from gen_prim(rng, tier)
    yield from gen_int_float(rng, tier, fixed)


def nontrivial(c):
    return True


REFINED = []
FRONTIER = []
RULE = ""
EXPLANATION = ""
ASSUMPTIONS = []
LEVEL_TEXT = ""
LEVEL_NOTE = ""
TECHNIQUE = ""
