"""C06 — conversions are lossless or refused; lossy ones are correctly rounded and say so (DESIGN §8 C06)."""
import os, re
from vlib.core import Case
from vlib.gens import *

GROUP = "conv"
LEAN_PROPS = "Dashu.Props.C06"
LEAN_AUDIT = "Dashu.Audit.C06"

FMT = {
    "f32": dict(N=32, MB=23, EB=8, mty="i32"),
    "f64": dict(N=64, MB=52, EB=11, mty="i64"),
}
UNSIGNED = {"u8": 8, "u16": 16, "u32": 32, "u64": 64, "u128": 128, "usize": 64}
SIGNED = {"i8": 8, "i16": 16, "i32": 32, "i64": 64, "i128": 128, "isize": 64}


def prim(ty, v):
    return "p:%s:%s" % (ty, hx(v))


def tree_is_fixed():
    """True once base/src/bit.rs no longer contains the defective sticky masks / underflow threshold
    (then the `*.asis` ops, which tie the model of the *pinned* encode to the code, are not generated)."""
    try:
        src = open("/repo/base/src/bit.rs").read()
    except OSError:
        return False
    return not ("(mantissa & 0x7f) != 0" in src or "(mantissa & 0x3ff) != 0" in src
                or "top_bit < -125 - 23" in src)


# ------------------------------------------------------------------ encode / decode (direct)

def _qmin(f):
    return 1 - (2 ** (f["EB"] - 1) - 1) - f["MB"]


def cut_mantissas(rng, L, k, per=3):
    """naturals of exactly L bits whose low k bits (the part a rounding at position k discards) are
    boundary / tie / near-tie / random patterns, with even and odd kept parts"""
    out = []
    if L <= 0:
        return out
    keptbits = L - k
    lows = [0]
    if k >= 1:
        half = 1 << (k - 1)
        lows += [half, (1 << k) - 1, 1 if k > 1 else half]
        if k >= 2:
            lows += [half - 1, half + 1, half >> 1, half + (half >> 1), half | 1]
        if k >= 3:
            lows += [half >> 2, half + (half >> 2), (half >> 1) + 1, rng.getrandbits(k), rng.getrandbits(k) | half,
                     rng.getrandbits(k - 1)]
    if keptbits <= 0:
        # everything is discarded: the top bit is inside the discarded part
        for lo in lows + [rng.getrandbits(L) for _ in range(per)]:
            v = (lo & ((1 << L) - 1)) | (1 << (L - 1))
            out.append(v)
        out.append(1 << (L - 1))
        return out
    tops = [1 << (keptbits - 1), (1 << keptbits) - 1]
    if keptbits >= 2:
        tops += [(1 << (keptbits - 1)) | 1, (1 << keptbits) - 2]
        for _ in range(per):
            tops.append(rng.getrandbits(keptbits - 1) | (1 << (keptbits - 1)))
    for t in tops:
        for lo in lows:
            out.append((t << k) | lo)
    return out


def gen_encode(rng, tier, fixed):
    quick = tier == "quick"
    for name, f in FMT.items():
        N, MB = f["N"], f["MB"]
        p = MB + 1
        qmin = _qmin(f)
        emax1 = 2 ** (f["EB"] - 1)          # 128 / 1024: values are < 2^emax1
        mty = f["mty"]
        cases = []

        def emit(a, e, neg=None):
            if not (-32768 <= e <= 32767) or a > (1 << (N - 1)):
                return
            if a == (1 << (N - 1)):
                m = -a
            else:
                m = -a if (neg if neg is not None else rng.random() < 0.35) else a
            cases.append((m, e))

        # (i) all exponents x boundary mantissas
        erange = range(qmin - N - 6, emax1 + 6)
        for e in erange:
            if quick and rng.random() < 0.6:
                continue
            for a in [1, 3, (1 << (N - 1)) - 1, 1 << (N - 2), (1 << (N - 1)), (1 << p) - 1, (1 << p) + 1, 1 << MB]:
                if quick and rng.random() < 0.5:
                    continue
                emit(a, e)
            emit(rng.getrandbits(N - 1) | 1, e)
        # (ii) normal range: every mantissa length, cut at L - p
        for L in range(1, N + 1):
            k = max(L - p, 0)
            ms = cut_mantissas(rng, L, k, per=1 if quick else 3)
            for a in ms:
                for t in ([qmin + p, 0, emax1] if quick else [qmin + p, qmin + p + 1, -3, 0, 1, emax1 - 1, emax1]):
                    emit(a, t - L)
        # (iii) subnormal band and below: cut position k = qmin - e
        for L in range(1, N + 1):
            for k in range(0, L + 3):
                if quick and rng.random() < 0.5:
                    continue
                e = qmin - k
                for a in cut_mantissas(rng, L, min(k, L), per=1 if quick else 2):
                    if quick and rng.random() < 0.6:
                        continue
                    emit(a, e)
        # (iv) threshold top bits
        for L in [1, 2, p - 1, p, p + 1, N - 2, N - 1]:
            for t in [qmin - 2, qmin - 1, qmin, qmin + 1, qmin + 2, qmin + MB, qmin + p, qmin + p + 1,
                      emax1 - 1, emax1, emax1 + 1, emax1 + 2]:
                for a in [1 << (L - 1), (1 << L) - 1, (1 << (L - 1)) | 1]:
                    emit(a, t - L, neg=False)
                    emit(a, t - L, neg=True)
        # (v) exponent extremes
        for e in [32767, 32766, 32767 - N, 32767 - N + 1, 32767 - N - 1, 32700, 20000, 2000, -2000, -20000,
                  -32768, -32767]:
            for a in [1, 2, 3, (1 << (N - 1)) - 1, 1 << (N - 1), rng.getrandbits(N - 2) | 1]:
                emit(a, e)
        # (vi) random
        for _ in range(300 if quick else 150000):
            L = rng.randrange(1, N)
            a = rng.getrandbits(L) | (1 << (L - 1))
            t = rng.choice([rng.randrange(qmin - 4, qmin + p + 4), rng.randrange(qmin - 4, emax1 + 4),
                            rng.randrange(emax1 - 3, emax1 + 3)])
            emit(a, t - L)
        emit(0, 0); emit(0, 5); emit(0, -32768)
        cases.append((0, 7))
        seen = set()
        for m, e in cases:
            if (m, e) in seen:
                continue
            seen.add((m, e))
            yield Case(name + ".encode", [prim(mty, m), prim("i16", e)])
            if not fixed:
                yield Case(name + ".encode.asis", [prim(mty, m), prim("i16", e)])


def float_patterns(rng, name, n):
    f = FMT[name]
    MB, EB = f["MB"], f["EB"]
    W = 1 + EB + MB
    out = []
    emaxf = (1 << EB) - 1
    for s in (0, 1):
        for E in [0, 1, 2, emaxf - 2, emaxf - 1, emaxf, (1 << (EB - 1)) - 1, (1 << (EB - 1)), (1 << (EB - 1)) + MB,
                  (1 << (EB - 1)) - 1 + MB + 1, (1 << (EB - 1)) - 2]:
            for M in [0, 1, (1 << MB) - 1, 1 << (MB - 1), (1 << (MB - 1)) | 1, rng.getrandbits(MB)]:
                out.append((s << (W - 1)) | (E << MB) | M)
    for _ in range(n):
        out.append(rng.getrandbits(W))
    return out


def gen_decode(rng, tier):
    n = 200 if tier == "quick" else 40000
    for name in FMT:
        for b in float_patterns(rng, name, n):
            yield Case(name + ".decode", ["p:%s:%x" % (name, b)])
            yield Case(name + ".roundtrip", ["p:%s:%x" % (name, b)])


# ------------------------------------------------------------------ primitive <-> big integers

def prim_range(ty):
    if ty in UNSIGNED:
        return 0, (1 << UNSIGNED[ty]) - 1
    b = SIGNED[ty]
    return -(1 << (b - 1)), (1 << (b - 1)) - 1


def gen_prim(rng, tier):
    n = 3 if tier == "quick" else 150
    for ty in list(UNSIGNED) + list(SIGNED):
        lo, hi = prim_range(ty)
        bits = UNSIGNED.get(ty) or SIGNED[ty]
        vals = {0, 1, hi, hi - 1, lo, hi >> 1, (hi >> 1) + 1, 1 << (bits // 2)}
        if lo < 0:
            vals |= {-1, lo + 1, -(1 << (bits // 2))}
        for _ in range(n):
            vals.add(rng.randrange(lo, hi + 1))
            vals.add(rng.randrange(lo, hi + 1) >> rng.randrange(0, bits))
        for v in sorted(vals):
            if lo <= v <= hi:
                for k in "uir":
                    yield Case(k + ".from", [prim(ty, v)])
        # big -> primitive: in range, at the edges, one past, word/dword/heap boundaries
        xs = {0, 1, hi, hi + 1, hi - 1, lo, lo - 1, lo + 1, 2 * hi + 1, 2 * hi + 2, -hi, -hi - 1, -hi - 2,
              (1 << 64) - 1, 1 << 64, (1 << 64) + 1, (1 << 127) - 1, 1 << 127, (1 << 127) + 1,
              (1 << 128) - 1, 1 << 128, (1 << 128) + 1, (1 << 128) + hi, (1 << 192) + 5, (1 << 64) + hi}
        for _ in range(n):
            xs.add(rng.randrange(lo, hi + 1))
            xs.add(nat_pattern(rng, rng.choice([1, 2, 3, 4]), rng.choice(PATTERNS)))
            xs.add(hi + 1 + rng.getrandbits(rng.randrange(1, 140)))
        for x in sorted(xs):
            if x >= 0:
                yield Case("u.to", [ty, hx(x)])
            yield Case("i.to", [ty, hx(x)])
            yield Case("i.to", [ty, hx(-x)])
    yield Case("u.from", ["p:bool:0"]); yield Case("u.from", ["p:bool:1"])
    yield Case("i.from", ["p:bool:0"]); yield Case("i.from", ["p:bool:1"])
    for x in [0, 1, -1, (1 << 128) - 1, -(1 << 128), 1 << 200, -(1 << 200) - 1]:
        yield Case("i.to.ubig", [hx(x)])
        if x >= 0:
            yield Case("u.to.ibig", [hx(x)])


# ------------------------------------------------------------------ big integers <-> floats

def gen_int_float(rng, tier, fixed):
    quick = tier == "quick"
    xs = set()
    ks = list(range(0, 1101))
    if quick:
        ks = [k for k in ks if k < 70 or k in (103, 104, 127, 128, 129, 130, 191, 192, 193, 970, 971, 1022, 1023, 1024, 1025, 1100)
              or rng.random() < 0.08]
    for k in ks:
        xs |= {1 << k, (1 << k) - 1, (1 << k) + 1}
        for p in (24, 53):
            if k >= p:
                h = 1 << (k - p)          # half ulp of 2^k
                xs |= {(1 << k) + h, (1 << k) + h - 1, (1 << k) + h + 1, (1 << k) + 3 * h, (1 << k) + 3 * h - 1,
                       (1 << k) + 3 * h + 1, (1 << (k + 1)) - h, (1 << (k + 1)) - h - 1, (1 << (k + 1)) - h + 1}
                if k - p >= 2:
                    xs |= {(1 << k) + (h >> 1), (1 << k) + h + (h >> 1), (1 << k) + (h >> 2), (1 << k) + h + (h >> 2)}
    # every bit length x {boundary, tie, near tie, random} at the rounding position
    for n in (range(1, 200) if quick else range(1, 1100)):
        if quick and n > 140 and rng.random() < 0.7:
            continue
        for p in (24, 53):
            for a in cut_mantissas(rng, n, max(n - p, 0), per=1 if quick else 3):
                if quick and rng.random() < 0.7:
                    continue
                xs.add(a)
    xs |= {0, 1, 2, (1 << 128) - 1, (1 << 128) - 2, (1 << 128) - (1 << 74), (1 << 128) - (1 << 74) - 1, (1 << 128) - (1 << 75),
           (1 << 128) - (1 << 103), (1 << 128) - (1 << 103) - 1, (1 << 128) - (1 << 104), (1 << 1024) - (1 << 970),
           (1 << 1024) - (1 << 970) - 1, (1 << 1024) - (1 << 971), (1 << 1024) - 1, 1 << 1024, (1 << 2000) + 1}
    for x in sorted(xs):
        for ty in ("f32", "f64"):
            sgn = rng.random()
            if sgn < 0.6:
                yield Case("u.to_" + ty, [hx(x)])
                if not fixed:
                    yield Case("u.to_%s.asis" % ty, [hx(x)])
            else:
                v = -x if rng.random() < 0.6 else x
                yield Case("i.to_" + ty, [hx(v)])
                if not fixed:
                    yield Case("i.to_%s.asis" % ty, [hx(v)])
    # exact-or-refused
    for ty, p in (("f32", 24), ("f64", 53)):
        ys = set()
        for k in range(0, 70 if quick else 140):
            ys |= {1 << k, (1 << k) + 1, (1 << k) - 1, 3 << k, (1 << k) + (1 << max(k - p + 1, 0)), (1 << k) + (1 << max(k - p, 0))}
        ys |= {0, (1 << p) - 1, 1 << p, (1 << p) + 1, (1 << p) + 2, (1 << (p + 1)), (1 << (p + 1)) + 2, 1 << 200, 1 << 1030}
        for y in sorted(ys):
            yield Case("u.tryto_" + ty, [hx(y)])
            yield Case("i.tryto_" + ty, [hx(-y if rng.random() < 0.5 else y)])
    # float -> integer
    for ty in ("f32", "f64"):
        f = FMT[ty]
        MB, EB = f["MB"], f["EB"]
        W = 1 + EB + MB
        bias = (1 << (EB - 1)) - 1
        pats = set(float_patterns(rng, ty, 100 if quick else 20000))
        for s in (0, 1):
            for E in list(range(bias - 3, bias + MB + 4)) + [bias + 63, bias + 64, bias + 127, bias + 128, 1, 0]:
                for M in [0, 1, 1 << (MB - 1), (1 << MB) - 1, 1 << max(0, min(MB - 1, bias + MB - E)),
                          1 << max(0, min(MB - 1, bias + MB - E - 1)), rng.getrandbits(MB)]:
                    if 0 <= E < (1 << EB):
                        pats.add((s << (W - 1)) | (E << MB) | M)
        for b in sorted(pats):
            a = "p:%s:%x" % (ty, b)
            yield Case("u.from_" + ty, [a]); yield Case("i.from_" + ty, [a])
            if not fixed_from_float():
                yield Case("u.from_%s.asis" % ty, [a]); yield Case("i.from_%s.asis" % ty, [a])


def single_bit_patterns(n, p, positions):
    """n-bit naturals built around the rounding position of a p-bit format: kept part (even / odd last bit, all
    ones) x round bit {1 = tie, 0} x ONE extra set bit at position j (just above / just below the tie), and the
    mirror image: everything below the round bit set except ONE cleared bit at j.  `positions` = candidate js."""
    out = []
    if n <= p + 1:
        return out
    k = n - p                      # discarded bits; round bit at k-1
    tops = [1 << (p - 1), (1 << (p - 1)) | 1, (1 << p) - 1, (1 << p) - 2]
    below = (1 << (k - 1)) - 1
    for t in tops:
        for rb in (1, 0):
            base = (t << k) | (rb << (k - 1))
            out.append(base)
            out.append(base | below)
            for j in positions:
                if 0 <= j < k - 1:
                    out.append(base | (1 << j))
                    out.append(base | (below & ~(1 << j)))
    return out


def boundary_positions(n, p, full):
    """bit positions adjacent to every internal boundary of to_fNN_nontrivial / encode for an n-bit integer:
    the round bit (n-p-1) and below, the 31/63-bit window (n-31, n-63) +-2, encode's own sticky boundaries inside
    the window, word boundaries 64k, 64k+-1, and the bottom"""
    if full:
        return list(range(0, max(n - p - 1, 0)))
    js = {0, 1, 2}
    for c in (n - p - 1, n - p - 2, n - p - 3, n - 31, n - 63, n - 24, n - 53):
        for d in (-3, -2, -1, 0, 1, 2):
            js.add(c + d)
    for w in range(64, n + 1, 64):
        js |= {w - 2, w - 1, w, w + 1}
    return sorted(j for j in js if 0 <= j < n - p - 1)


BOUNDARY_LENGTHS = [25, 26, 27, 32, 33, 54, 55, 56, 63, 64, 65, 66, 67, 68, 69, 70, 127, 128, 129, 130, 131, 191, 192, 193,
                    255, 256, 257, 500, 1023, 1024, 1025]


def gen_boundary(rng, tier):
    """single-bit probes of every sticky / guard / window boundary (quick tier too)"""
    quick = tier == "quick"
    # big integers -> floats
    for n in BOUNDARY_LENGTHS + ([] if quick else list(range(71, 127, 7)) + [320, 321, 640, 700, 1000]):
        for ty, p in (("f32", 24), ("f64", 53)):
            if ty == "f32" and n > 131:
                continue
            pos = boundary_positions(n, p, full=(n <= 131) or not quick and n <= 257)
            for x in single_bit_patterns(n, p, pos):
                r = rng.random()
                if r < 0.7:
                    yield Case("u.to_" + ty, [hx(x)])
                else:
                    yield Case("i.to_" + ty, [hx(-x if r < 0.9 else x)])
    # rationals: the quotient carries the pattern; the bits below the guard bits come from the quotient (dyadic
    # denominators) or only from the remainder (odd denominators)
    for ty, p in (("f32", 24), ("f64", 53)):
        for n in [p + 1, p + 2, p + 3, p + 4, p + 5, p + 6, p + 8, p + 12, 64, 65, 66, 128, 129, 130] + ([] if quick else [191, 192, 193, 300]):
            if n <= p + 1:
                continue
            pos = boundary_positions(n, p, full=(n <= p + 12) or not quick)
            pats = single_bit_patterns(n, p, pos)
            for x in pats:
                e = rng.choice([0, 0, 0, 3, 70, 140, 149 + n, 1074 + n, 1070 + n - p])
                yield Case("r.to_" + ty, [hx(signed(rng, x)), hx(1 << e)])
            # remainder-only sticky: floor(num/den) is exactly the tie / the all-ones-below pattern
            for x in pats[:: max(1, len(pats) // 40)] + single_bit_patterns(n, p, []):
                for d in (3, 7, (1 << 64) + 13):
                    for delta in (1, d - 1, d // 2):
                        yield Case("r.to_" + ty, [hx(signed(rng, x * d + delta)), hx(d << rng.choice([0, 0, 5, 130]))])
    # encode: single bit at every position below the round bit for the normal cut, boundary positions for subnormal cuts
    for name, f in FMT.items():
        N, MB = f["N"], f["MB"]; p = MB + 1; qmin = _qmin(f); mty = f["mty"]
        for L in range(p + 2, N):
            for a in single_bit_patterns(L, p, range(0, L - p - 1)):
                for t in ([0, qmin + p + 1] if quick else [0, 1, qmin + p, qmin + p + 1, 2 ** (f["EB"] - 1)]):
                    yield Case(name + ".encode", [prim(mty, signed(rng, a)), prim("i16", t - L)])
        for L in range(2, N):
            for k in range(2, L + 1):
                if quick and rng.random() < 0.7:
                    continue
                kept = L - k
                for j in {0, 1, k - 2, k - 3, (k - 1) // 2}:
                    if 0 <= j < k - 1:
                        for rb in (0, 1):
                            a = (1 << (L - 1)) | (rb << (k - 1)) | (1 << j)
                            if kept >= 2 and rng.random() < 0.5:
                                a |= 1 << k
                            yield Case(name + ".encode", [prim(mty, signed(rng, a)), prim("i16", qmin - k)])


def fixed_from_float():
    try:
        src = open("/repo/integer/src/convert.rs").read()
    except OSError:
        return False
    return "z < (-exp) as usize" in src


# ------------------------------------------------------------------ rationals

def rat_cases(rng, tier):
    """(num, den) with quotients of 24/25/26, 53/54/55 bits, ties and near ties at the rounding position,
    the subnormal band and the overflow threshold, non-dyadic denominators"""
    quick = tier == "quick"
    out = []
    dens = [1, 2, 3, 5, 7, 10, 12, 1 << 20, (1 << 20) + 1, 3 << 40, (1 << 64) - 1, (1 << 64) + 13, (1 << 130) + 1, 10 ** 25]
    for p in (24, 53):
        for qbits in (p - 1, p, p + 1, p + 2, p + 3):
            for _ in range(2 if quick else 60):
                den = rng.choice(dens + [rng.getrandbits(rng.randrange(2, 140)) | 1])
                for q in cut_mantissas(rng, qbits + 3, 3 + max(qbits - p, 0), per=1):
                    if quick and rng.random() < 0.75:
                        continue
                    # quotient q/8 exactly, plus tiny perturbations of the numerator (non-representable tails)
                    for delta in (0, 1, -1):
                        num = q * den + delta
                        if num > 0:
                            e = rng.choice([0, 0, 1, -1, 40, -40, 100, -100, -126 - p, -149 - qbits, -1022 - qbits, -1074 - qbits,
                                            127 - qbits, 128 - qbits, 1023 - qbits, 1024 - qbits, -1074 - qbits - 4, -140 - qbits])
                            n2, d2 = (num << e, den * 8) if e >= 0 else (num, (den * 8) << -e)
                            out.append((n2 if rng.random() < 0.7 else -n2, d2))
    for _ in range(100 if quick else 40000):
        nb, db = rng.randrange(1, 200), rng.randrange(1, 200)
        out.append((signed(rng, rng.getrandbits(nb) | 1), rng.getrandbits(db) | 1 << (db - 1)))
    out += [(0, 1), (1, 1), (-1, 1), (1, 3), (-1, 3), (22, 7), (5, 1), (1 << 40, 1), (1 << 24, 1), ((1 << 24) + 1, 1), (3, 2),
            (-3, 2), (1, 1 << 149), (1, 1 << 150), (3, 1 << 151), (1, 1 << 1074), (1, 1 << 1075), (3, 1 << 1076),
            ((1 << 128) - (1 << 103), 1), ((1 << 128) - (1 << 103) - 1, 1), ((1 << 1024) - (1 << 970), 1), (1 << 1024, 3), (1 << 2000, 1),
            (1, 1 << 2000), (100663301, 4), (33554435, 2), (6248, 5)]
    return out


def gen_ratio(rng, tier, asis_ratio):
    quick = tier == "quick"
    for num, den in rat_cases(rng, tier):
        a = [hx(num), hx(den)]
        for ty in ("f32", "f64"):
            yield Case("r.to_" + ty, a)
            if asis_ratio:
                yield Case("r.to_%s.asis" % ty, a)
            yield Case("r.to_%s_fast" % ty, a)
            if rng.random() < 0.3:
                yield Case("r.tryto_" + ty, a)
        if rng.random() < 0.3:
            yield Case("r.to_int", a)
    # exact-or-refused conversions of rationals
    import math
    for num, den in [(0, 1), (5, 1), (-5, 1), (1, 3), (-1, 3), (7, 2), (255, 1), (256, 1), (-128, 1), (-129, 1), (1 << 64, 1), (1 << 200, 1),
                     ((1 << 64) - 1, 1), (1, 1)] + [(signed(rng, rng.getrandbits(rng.randrange(1, 140))), rng.choice([1, 1, 1, 3, 4, 10]))
                                                     for _ in range(20 if quick else 2000)]:
        if math.gcd(num, den) != 1 and den != 1:
            continue
        a = [hx(num), hx(den)]
        yield Case("r.to.ibig", a); yield Case("r.to.ubig", a); yield Case("r.to_int", a)
        for ty in list(UNSIGNED) + list(SIGNED):
            if rng.random() < (0.3 if quick else 1.0):
                yield Case("r.to", [ty] + a)
        for ty in ("f32", "f64"):
            yield Case("r.tryto_" + ty, a)
    for k in range(0, 70 if quick else 200, 1):
        for ty in ("f32", "f64"):
            yield Case("r.tryto_" + ty, [hx(1 << k), "1"])
            yield Case("r.tryto_" + ty, [hx((1 << k) + 1), hx(1 << rng.randrange(0, 80))])
            yield Case("r.tryto_" + ty, ["1", hx(1 << (k * 17 % 1100))])
    for ty in ("f32", "f64"):
        for b in float_patterns(rng, ty, 60 if quick else 20000):
            yield Case("r.from_" + ty, ["p:%s:%x" % (ty, b)])
    yield Case("r.from.ibig", [hx(-12345)])
    # RBig::to_float
    modes = ["Zero", "Away", "Up", "Down", "HalfEven", "HalfAway"]
    for _ in range(150 if quick else 40000):
        B = rng.choice([2, 10, 10, 16, 3])
        prec = rng.choice([1, 2, 3, 5, 8, 20])
        # quotient with `extra` digits beyond the precision and a tie / near tie tail
        extra = rng.choice([0, 1, 2, 3, 6])
        den = rng.choice([1, 3, 7, B, B ** 3, 2 * B + 1, rng.getrandbits(40) | 1])
        head = rng.randrange(B ** (prec - 1), B ** prec)
        tail = rng.choice([0, B ** extra // 2, B ** extra // 2 - 1, B ** extra // 2 + 1, rng.randrange(0, B ** extra), B ** extra - 1]) if extra else 0
        num = (head * B ** extra + tail) * den + rng.choice([0, 0, 1, -1, den // 2])
        if num <= 0:
            continue
        sh = rng.choice([0, 0, 3, -3, 20, -20])
        if sh >= 0:
            num *= B ** sh
        else:
            den *= B ** -sh
        yield Case("r.to_float", [dec(B), rng.choice(modes), hx(signed(rng, num)), hx(den), dec(prec)])
    yield Case("r.to_float", [dec(10), "HalfAway", hx(6248), "5", dec(2)])
    yield Case("r.to_float", [dec(10), "HalfAway", "0", "1", dec(3)])


# ------------------------------------------------------------------ floats of any base

def gen_float(rng, tier):
    quick = tier == "quick"
    modes = ["Zero", "Away", "Up", "Down", "HalfEven", "HalfAway"]
    # binary floats: exact mirror of encode's domain, long significands (first rounding to 24/53 bits)
    for _ in range(300 if quick else 60000):
        ty = rng.choice(["f32", "f64"])
        f = FMT[ty]; p = f["MB"] + 1; qmin = _qmin(f); emax1 = 2 ** (f["EB"] - 1)
        L = rng.choice([1, 2, p - 1, p, p + 1, p + 2, p + 3, 2 * p, 2 * p + 1, 100, 200])
        k = rng.choice([0, 1, 2, 3, max(L - p, 0), max(L - p, 0) + 1, max(L - p, 0) + 2])
        k = min(k, L)
        ms = cut_mantissas(rng, L, k, per=1)
        s = rng.choice(ms)
        t = rng.choice([qmin - 2, qmin - 1, qmin, qmin + 1, qmin + 2, qmin + 5, qmin + p - 1, qmin + p, qmin + p + 1, 0, 1, emax1 - 1, emax1, emax1 + 1,
                        rng.randrange(qmin - 3, qmin + p + 3)])
        e = t - L
        s = signed(rng, s)
        if ty == "f32":
            md = rng.choice(modes)
            yield Case("f.to_f32", [dec(2), md, hx(s), dec(e)])
            yield Case("f.to_f32.code", [dec(2), md, hx(s), dec(e)])      # mirrored model of the code as it is
            yield Case("fr.to_f32", [dec(2), hx(s), dec(e)])
            yield Case("fr.to_f32.code", [dec(2), hx(s), dec(e)])
            yield Case("f.tryto_f32", [hx(s), dec(e)])
        else:
            md = rng.choice(["HalfAway", "Zero"])
            yield Case("f.to_f64", [dec(2), md, hx(s), dec(e)])
            yield Case("f.to_f64.code", [dec(2), md, hx(s), dec(e)])
            yield Case("f.tryto_f64", [hx(s), dec(e)])
    # exponent boundaries of into_f32_internal / into_f64_internal (`exponent >= 128|1024`, `exponent < -149-24|-1074-53`)
    # and of encode's regimes, with significands of exactly p-1, p, p+1, p+2 bits (odd: already normalised)
    for ty in ("f32", "f64"):
        f = FMT[ty]; p = f["MB"] + 1; qmin = _qmin(f); emax1 = 2 ** (f["EB"] - 1)
        for L in (1, 2, p - 1, p, p + 1, p + 2, p + 3):
            sigs = {(1 << L) - 1, (1 << (L - 1)) | 1, rng.getrandbits(L) | (1 << (L - 1)) | 1}
            if L > p:
                k = L - p
                sigs |= {((1 << (p - 1)) << k) | (1 << (k - 1)) | 1, (((1 << p) - 1) << k) | (1 << (k - 1)) | 1,
                         ((1 << (p - 1)) << k) | ((1 << (k - 1)) - 1) | 1}
            for sg in sorted(sigs):
                Lv = min(L, p)
                for ve in [qmin - p - 2, qmin - p - 1, qmin - p, qmin - p + 1, qmin - Lv - 1, qmin - Lv, qmin - Lv + 1, qmin - 1, qmin,
                           emax1 - Lv - 1, emax1 - Lv, emax1 - Lv + 1, emax1 - 2, emax1 - 1, emax1, emax1 + 1]:
                    e = ve - max(L - p, 0)
                    s2 = signed(rng, sg)
                    if ty == "f32":
                        md = rng.choice(modes)
                        yield Case("f.to_f32", [dec(2), md, hx(s2), dec(e)]); yield Case("f.to_f32.code", [dec(2), md, hx(s2), dec(e)])
                        yield Case("fr.to_f32", [dec(2), hx(s2), dec(e)]); yield Case("fr.to_f32.code", [dec(2), hx(s2), dec(e)])
                        yield Case("f.tryto_f32", [hx(s2), dec(e)])
                    else:
                        yield Case("f.to_f64", [dec(2), "HalfAway", hx(s2), dec(e)]); yield Case("f.to_f64.code", [dec(2), "HalfAway", hx(s2), dec(e)])
                        yield Case("f.tryto_f64", [hx(s2), dec(e)])
    # decimals d * 10^e, |e| <= 400 (and bases 16, 3)
    for _ in range(300 if quick else 40000):
        B = rng.choice([10, 10, 10, 16, 3])
        nd = rng.choice([1, 1, 2, 4, 8, 15, 16, 17, 18, 20, 40])
        s = rng.randrange(B ** (nd - 1), B ** nd) if nd > 1 else rng.randrange(1, B)
        if s % B == 0:
            s += 1
        e = rng.choice([0, 0, -1, 1, -nd, -nd + 1, -7, 7, 22, 23, -22, 30, 38, 39, -45, -46, 308, -308, -323, -324, -400, 400,
                        rng.randrange(-400, 401), rng.randrange(-30, 31)])
        if B != 10:
            e = max(-60, min(60, e))
        s = signed(rng, s)
        yield Case("f.to_f64", [dec(B), "HalfAway", hx(s), dec(e)])
        if rng.random() < 0.5:
            yield Case("f.to_f32", [dec(B), rng.choice(modes), hx(s), dec(e)])
        if rng.random() < 0.3:
            yield Case("fr.to_f32", [dec(B), hx(s), dec(e)])
    for s, e in [(4899, -7), (1, 30), (1323, -7), (1, -1), (3, 0), (123, -2), (5, -324), (25, -325), (17976931348623157, 292), (17976931348623159, 292)]:
        yield Case("f.to_f64", [dec(10), "HalfAway", hx(s), dec(e)])
        yield Case("f.to_f32", [dec(10), "HalfEven", hx(s), dec(e)])
        if base_code_ok(10, s, e):
            yield Case("f.to_f64.code", [dec(10), "HalfAway", hx(s), dec(e)])
            yield Case("f.to_f32.code", [dec(10), "HalfEven", hx(s), dec(e)])
    yield from gen_float_base(rng, tier)
    # to_int family and exact-or-refused conversions
    for _ in range(300 if quick else 60000):
        B = rng.choice([2, 10, 10, 16, 3])
        nd = rng.choice([1, 2, 3, 5, 9, 20, 40])
        s = rng.randrange(1, B ** nd)
        if s % B == 0:
            s += 1
        # fractional digits: none, some, all, more than the significand has (value < 1)
        e = rng.choice([0, 1, 5, -1, -2, -nd + 1, -nd, -nd - 1, -nd - 5, rng.randrange(-nd - 3, 6)])
        if rng.random() < 0.35 and e < 0:
            # exact halves / near halves in the fraction
            fr = B ** (-e)
            half = fr // 2
            s = (s // fr) * fr + rng.choice([half, half + 1, max(half - 1, 0), 0, 1, fr - 1])
            if s == 0:
                s = 1
        s = signed(rng, s)
        yield Case("f.to_int", [dec(B), rng.choice(modes), hx(s), dec(e)])
        if rng.random() < 0.3:
            yield Case("fr.to_int", [dec(B), hx(s), dec(e)])
        if rng.random() < 0.5:
            yield Case("f.try.ibig", [dec(B), hx(s), dec(e)])
            yield Case("f.try.ubig", [dec(B), hx(s), dec(e)])
            yield Case("f.to.rbig", [dec(B), hx(s), dec(e)])
    for ty in list(UNSIGNED) + list(SIGNED):
        lo, hi = prim_range(ty)
        for B in (2, 10):
            for v in [0, 1, hi, hi + 1, lo, lo - 1, hi >> 1, 2 * hi + 2, 4 * hi + 4]:
                yield Case("f.try", [ty, dec(B), hx(v), dec(0)])
            # non-integers clearly inside / clearly outside the range
            yield Case("f.try", [ty, dec(B), hx(B + 1), dec(-1)])
            yield Case("f.try", [ty, dec(B), hx(-(B + 1)), dec(-1)])
            yield Case("f.try", [ty, dec(B), hx((hi + 1) * 8 * B + 1), dec(-1)])
            yield Case("f.try", [ty, dec(B), hx(3), dec(2)])
    for ty in ("f32", "f64"):
        for b in float_patterns(rng, ty, 60 if quick else 20000):
            yield Case("f.from_" + ty, ["p:%s:%x" % (ty, b)])
    for v in [0, 1, -1, 1000, -1000, 1 << 70, 10 ** 30, -(16 ** 20), 3 ** 50]:
        for B in (2, 10, 16, 3):
            yield Case("f.from.ibig", [dec(B), hx(v)])
    for num, den in [(1, 4), (1, 3), (-7, 8), (22, 7), (5, 1), (3, 1000), (1, 1 << 70)]:
        for B in (2, 10):
            yield Case("f.from.rbig", [dec(B), hx(num), hx(den)])
    for which in ["to_f32", "to_f64", "repr.to_f64", "to_int", "try.ibig", "try.ubig", "try.u8", "try.i64", "to.rbig", "tryto_f32", "tryto_f64"]:
        for sg in "+-":
            yield Case("f.inf", [which, sg])


def small_exp_threshold():
    """THRESHOLD_SMALL_EXP of Context::convert_base, read from the source (the Lean side uses the regenerated
    Dashu.Gen.float_THRESHOLD_SMALL_EXP)"""
    try:
        m = re.search(r"const THRESHOLD_SMALL_EXP: isize = (\d+);", open("/repo/float/src/convert.rs").read())
        return int(m.group(1)) if m else 38
    except OSError:
        return 38


def base_code_ok(B, s, e):
    """True when `convert_base::<B, 2>` of FBig::from_parts(s, e) stays on a mirrored branch (B a power of two, or
    |normalised exponent| <= THRESHOLD_SMALL_EXP); otherwise it goes through ln/exp and the `.code` op is not defined"""
    if B & (B - 1) == 0 or s == 0:
        return True
    while s % B == 0:
        s //= B
        e += 1
    return abs(e) <= small_exp_threshold()


def gen_float_base(rng, tier):
    """FBig::<R,B>::to_f32/to_f64, Repr::<B>::to_f32 for B in {10, 3, 16}: every branch of Context::convert_base that is
    mirrored (`.code` ops: real code vs mirrored algorithm, digit for digit, including the debug assertion of
    into_fNN_internal after a (p+1)-bit quotient of repr_div) beside the single-rounding specification"""
    quick = tier == "quick"
    modes = ["Zero", "Away", "Up", "Down", "HalfEven", "HalfAway"]
    T = small_exp_threshold()

    def emit(B, s, e):
        if s == 0 or not base_code_ok(B, s, e):
            return
        s = signed(rng, s)
        md = rng.choice(modes)
        yield Case("f.to_f64.code", [dec(B), "HalfAway", hx(s), dec(e)])
        yield Case("f.to_f64", [dec(B), "HalfAway", hx(s), dec(e)])
        yield Case("f.to_f32.code", [dec(B), md, hx(s), dec(e)])
        yield Case("f.to_f32", [dec(B), md, hx(s), dec(e)])
        if rng.random() < 0.4:
            yield Case("fr.to_f32.code", [dec(B), hx(s), dec(e)])
            yield Case("fr.to_f32", [dec(B), hx(s), dec(e)])

    for B in (10, 3, 16):
        # the odd cofactor of the denominator B^k after Repr::<2>::new strips the factors of two
        odd = {10: 5, 3: 3, 16: 1}[B]
        # (i) every exponent of the small-exponent window (both ends +-1: the ln/exp branch is filtered out), short and
        #     long significands: exp >= 0 multiplies; exp < 0 divides by repr_div (q = 0 / short q / long q) or, for a
        #     dividend longer than precision + divisor digits, by the long-dividend path
        for e in range(-T - 1, T + 2):
            if quick and rng.random() < 0.5:
                continue
            for nd in ([1, 3, 8, 17, 40] if quick else [1, 2, 3, 5, 8, 12, 16, 17, 20, 30, 40, 60]):
                sg = rng.randrange(B ** (nd - 1), B ** nd) if nd > 1 else rng.randrange(1, B)
                if sg % B == 0:
                    sg += 1
                yield from emit(B, sg, e)
        # (ii) exactly representable quotients and exact ties: s = m * odd^k, exponent -k  =>  value = m / 2^k (B = 10),
        #      m / 1 (B = 3: only k = 0) — m with p-1, p, p+1 (tie), p+2 bits, odd; the first `r.is_zero()` exit of repr_div
        for p in (24, 53):
            for L in (1, 2, p - 1, p, p + 1, p + 2, p + 3, 2 * p + 1):
                for k in ([0, 1, 7, 20, T] if quick else [0, 1, 2, 5, 7, 13, 20, 27, 30, T - 1, T]):
                    for m in [(1 << L) - 1, (1 << (L - 1)) | 1, rng.getrandbits(L) | (1 << (L - 1)) | 1]:
                        if B == 16:
                            yield from emit(B, m, -k)
                        elif m % odd != 0:
                            yield from emit(B, m * odd ** k, -k)
                            # one unit beside the exact / tie value (remainder-only information)
                            yield from emit(B, m * odd ** k + rng.choice([1, -1, 2]), -k)
        # (iii) q = 0 in repr_div (|significand| below the stripped denominator) and the boundary num.digits = p + den.digits
        #       (+-1 bit) between repr_div and the long-dividend path
        for k in ([3, 11, 25, T] if quick else [1, 2, 3, 7, 11, 19, 25, 31, T - 1, T]):
            if B == 16:
                continue
            den = odd ** k
            db = den.bit_length()
            for p in (24, 53):
                for nb in (1, max(db - 1, 1), db, db + 1, p + db - 1, p + db, p + db + 1, p + db + 2):
                    for sg in [(1 << nb) - 1, (1 << (nb - 1)) | 1, rng.getrandbits(nb) | (1 << (nb - 1)) | 1]:
                        if sg % B == 0:
                            sg += 1
                        yield from emit(B, sg, -k)
        # (iv) the f32 / f64 overflow edge and (f32, base 10/3) the lowest normal binades reachable inside the window
        for sg, e in [(34028234, 31), (34028235, 31), (34028236, 31), (340282346638528859811704183484516925440, 0),
                      (340282356779733661637539395458142568448, 0), (11754944, -45), (1, -T), (9, -T), (1, T), (17976931348623157, T - 16)]:
            if sg % B != 0:
                yield from emit(B, sg, e)


TO_FLOAT_MODES = ["Zero", "Away", "Up", "Down", "HalfEven", "HalfAway"]
USIZE_MAX = (1 << 64) - 1


def _digits(n, B):
    d = 0
    while n:
        n //= B
        d += 1
    return d


def gen_to_float_code(rng, tier):
    """`Repr::to_float` (RBig and Relaxed) and `From<Repr> for FBig`, MIRRORED (`.code` ops: real code vs mirrored algorithm,
    significand / exponent / precision / flag) beside the single-rounding specification op `r.to_float`.  Classes from the
    branch conditions of the routine: precision 0 (assertion), zero numerator, the no-shift test `num_digits >= precision +
    den_digits` at -1/0/+1 and far on both sides, B == 2 (shift) vs other bases (power), remainder zero / non-zero, every
    mode x sign x {just below, at, just above} the half of the FIRST rounding, quotients of p and p+1 digits (second rounding
    inside convert_int), first-rounding carries (99..9.x), the double-rounding traps (last quotient digit B/2 reached by the
    first rounding), B^k, B^k +- 1 and k^n +- 1 operands of every digit length, Relaxed representations with a common odd
    factor, extreme precisions (E1)."""
    quick = tier == "quick"
    out = []

    def emit(B, md, num, den, prec, spec=True):
        if den <= 0:
            return
        a = [dec(B), md, hx(num), hx(den), dec(prec)]
        out.append(Case("r.to_float.code", a))
        out.append(Case("rx.to_float.code", a))
        if spec and prec > 0:
            out.append(Case("r.to_float", a))

    bases = [2, 10, 16, 3]
    # (a) the no-shift boundary and both sides: numerator of nd+1 digits, denominator of dd+1 digits, precision p with
    #     nd - dd - p in {-3 .. 3}; remainder zero (den | num) and non-zero
    for B in bases:
        for p in ([1, 2, 3, 7] if quick else [1, 2, 3, 4, 5, 7, 8, 16, 20, 33]):
            for dd in ([0, 1, 5] if quick else [0, 1, 2, 5, 9, 20]):
                for delta in (-3, -1, 0, 1, 3) if quick else range(-4, 5):
                    nd = p + dd + delta
                    if nd < 0:
                        continue
                    for _ in range(1 if quick else 3):
                        den = rng.randrange(B ** dd, B ** (dd + 1))
                        num = rng.randrange(B ** nd, B ** (nd + 1))
                        md = rng.choice(TO_FLOAT_MODES)
                        emit(B, md, signed(rng, num), den, p)
                        # exact quotient with the same digit counts where possible
                        qx = max(num // den, 1)
                        emit(B, md, signed(rng, qx * den), den, p)
                    # digit-count extremes of both operands: B^k, B^(k+1) - 1
                    for num in (B ** nd, B ** (nd + 1) - 1, B ** nd + 1):
                        for den in (B ** dd, B ** (dd + 1) - 1, B ** dd + 1):
                            if quick and rng.random() < 0.6:
                                continue
                            emit(B, rng.choice(TO_FLOAT_MODES), signed(rng, num), den, p)
    # (b) both roundings steered: quotient = head (p digits) . d (one extra digit) . fraction, fraction in {0, just below /
    #     at / just above 1/2, tiny, almost 1}; d in {0, 1, B/2 - 1, B/2, B/2 + 1, B - 1}; heads {10..0, 99..9, even, odd}
    for B in bases:
        for p in ([1, 2, 5] if quick else [1, 2, 3, 5, 8, 19]):
            heads = {B ** (p - 1), B ** p - 1, rng.randrange(B ** (p - 1), B ** p) | 1, (rng.randrange(B ** (p - 1), B ** p) // 2) * 2 or B ** (p - 1)}
            heads = {h for h in heads if B ** (p - 1) <= h < B ** p}
            for head in sorted(heads):
                for extra in (0, 1, 2):
                    ds = [0] if extra == 0 else sorted({0, 1, B // 2 - 1, B // 2, B // 2 + 1, B - 1} & set(range(B)))
                    for d in ds:
                        mids = [0] if extra < 2 else [0, B - 1, B // 2]
                        for mid in mids:
                            qint = head if extra == 0 else (head * B + d if extra == 1 else (head * B + d) * B + mid)
                            for den in ([3, 2 * B + 1, 7 * B] if quick else [1, 3, 7, B, 2 * B + 1, B ** 3, 7 * B, (1 << 64) + 13]):
                                half_lo, half_hi = (den - 1) // 2, den // 2 + 1
                                fracs = {0, 1, den - 1, half_lo, half_hi}
                                if den % 2 == 0:
                                    fracs.add(den // 2)
                                for fr in sorted(f for f in fracs if 0 <= f < den):
                                    if quick and rng.random() < 0.55:
                                        continue
                                    num = qint * den + fr
                                    sh = rng.choice([0, 0, 1, -1, 4, -4])
                                    n2, d2 = (num * B ** sh, den) if sh >= 0 else (num, den * B ** -sh)
                                    emit(B, rng.choice(TO_FLOAT_MODES), signed(rng, n2), d2, p)
    # (c) E2: B^k, B^k +- 1, k^n +- 1 operands of every length over small precisions; Relaxed with a common odd factor
    for B in bases:
        for k in (range(0, 24, 1) if quick else range(0, 70)):
            for num, den in ((B ** k + 1, B ** (k // 2) + 1), (B ** k - 1, 3), (B ** k, B ** (k // 3) * 7), (3 * (B ** k + 1), 3 * 5),
                             (1, B ** k + 1), (B ** k - 1, B ** k + 1), (7 ** (k % 23 + 1) + 1, B ** k)):
                if num <= 0 or (quick and rng.random() < 0.5):
                    continue
                emit(B, rng.choice(TO_FLOAT_MODES), signed(rng, num), den, rng.choice([1, 2, 3, 4, 9, 17]))
    for kb in (range(2, 64, 5) if quick else range(2, 130)):
        k = rng.getrandbits(kb) | (1 << (kb - 1)) | 1
        for n in (2, 3):
            for dlt in (-1, 0, 1):
                emit(rng.choice(bases), rng.choice(TO_FLOAT_MODES), signed(rng, k ** n + dlt), rng.choice([1, k, k + 2, 3 * k]), rng.choice([1, 3, 8, 20, 40]))
    # (d) random
    for _ in range(150 if quick else 30000):
        B = rng.choice(bases)
        emit(B, rng.choice(TO_FLOAT_MODES), signed(rng, rng.getrandbits(rng.randrange(1, 200)) + 1), rng.getrandbits(rng.randrange(1, 150)) + 1,
             rng.choice([1, 2, 3, 5, 10, 30, 64, 65, 128]))
    # (e) E1: precision extremes.  0 -> assertion; 1, W-1, W, W+1, 2W -> values; usize::MAX - k with a one-digit denominator ->
    #     the allocation of the shifted numerator is refused; with a longer denominator and k < its digit count -> the sum
    #     `precision.saturating_add(den_digits)` saturates (round 6, /repo 43925c0; it overflowed before): same refusal, and
    #     k = digit count - 1, digit count, digit count + 1: the sum is usize::MAX exactly / just below.
    #     (2^31 .. 2^63: memory proportional to the precision.)
    for B in bases:
        for num, den in ((0, 1), (1, 3), (-22, 7), (B ** 5 + 1, B ** 2 + 1)):
            for p in (0, 1, 63, 64, 65, 128):
                emit(B, rng.choice(TO_FLOAT_MODES), num, den, p)
        for k in (range(0, 41, 5) if quick else range(0, 41)):          # shift >= 2^64 - 64: every shl / pow path refuses the allocation
            emit(B, rng.choice(TO_FLOAT_MODES), signed(rng, rng.choice([1, 3, B + 1, 12345])), rng.choice([1, B - 1]), USIZE_MAX - k, spec=False)
        for dl in (2, 3, 5, 40, 140):
            den = B ** (dl - 1) + 1                     # ilog = dl - 1
            for k in sorted(set(range(0, dl - 1, 1 if dl < 10 else 17)) | {dl - 2, dl - 1, dl, dl + 1}):
                emit(B, rng.choice(TO_FLOAT_MODES), signed(rng, 3), den, USIZE_MAX - k, spec=False)
    yield from out
    # From<Repr> for FBig (mirrored): precision = max digit count, repr_div branches (exact, q = 0, short q, long q)
    seen = 0
    for c in out:
        if c.op != "r.to_float.code" or c.args[4] == dec(0):
            continue
        seen += 1
        if quick and seen % 5:
            continue
        yield Case("f.from.rbig.code", c.args[:4])
        yield Case("f.from.relaxed.code", c.args[:4])
    for B in bases:
        for num, den in ((0, 1), (1, 4), (1, 3), (-7, 8), (22, 7), (5, 1), (3, 1000), (1, 1 << 70), (B ** 7, B ** 3), (B ** 3, B ** 7), (6, 4), (-12, 8),
                         (B ** 9 - 1, B ** 4 + 1), (1, B ** 9 - 1)):
            for md in TO_FLOAT_MODES:
                yield Case("f.from.rbig.code", [dec(B), md, hx(num), hx(den)])
                yield Case("f.from.relaxed.code", [dec(B), md, hx(num), hx(den)])


ISIZE_MAX = (1 << 63) - 1
ISIZE_MIN = -(1 << 63)


def extreme_exponents(rng, quick):
    """E1 for the `isize` exponent of a float source value: 2^31, 2^32 (+-k), 2^61 (x4 = isize overflow for base 16), 2^62,
    isize::MAX - k and isize::MIN + k (k = 0..130)"""
    es = {1 << 31, (1 << 31) - 1, (1 << 31) + 1, (1 << 32) - 1, 1 << 32, (1 << 32) + rng.randrange(1, 130), (1 << 61) - 1, 1 << 61, (1 << 61) + 1,
          1 << 62, (1 << 62) + 5}
    es |= {-e for e in es}
    ks = [0, 1, 2, 23, 24, 52, 53, 54, 63, 64, 65, 127, 128, 130] if quick else range(0, 131)
    for k in ks:
        es.add(ISIZE_MAX - k)
        es.add(ISIZE_MIN + k)
    return sorted(es)


def gen_extreme_exponent(rng, tier):
    """FBig/Repr -> f32/f64, exact-or-refused f32/f64, to_int for source values whose exponent is an extreme `isize`
    (the value overflows every IEEE format, or is far below the least subnormal): required = the IEEE rounding of the value
    (+-inf / the mode's rounding of a tiny value, flags), evaluated by the driver at a clamped exponent."""
    quick = tier == "quick"
    modes = TO_FLOAT_MODES
    sigs = [1, 3, (1 << 24) - 1, (1 << 53) - 1, (1 << 60) - 1, (1 << 200) + 1]
    for e in extreme_exponents(rng, quick):
        for B in (2, 16, 10, 3):
            for sg in sigs:
                if quick and rng.random() < 0.5:
                    continue
                if sg % B == 0:
                    continue
                s2 = signed(rng, sg)
                yield Case("f.to_f64", [dec(B), "HalfAway", hx(s2), dec(e)])
                md = rng.choice(modes)
                yield Case("f.to_f32", [dec(B), md, hx(s2), dec(e)])
                # round 6: every extreme exponent is decided by the mirrored range test (`rangeExit`) before convert_base, in every
                # base: the `.code` ops (real code vs mirrored code) are defined here as well
                yield Case("f.to_f64.code", [dec(B), "HalfAway", hx(s2), dec(e)])
                yield Case("f.to_f32.code", [dec(B), md, hx(s2), dec(e)])
                if rng.random() < 0.3:
                    yield Case("fr.to_f32", [dec(B), hx(s2), dec(e)])
                    yield Case("fr.to_f32.code", [dec(B), hx(s2), dec(e)])
                if B == 2:
                    yield Case("f.tryto_f32", [hx(s2), dec(e)])
                    yield Case("f.tryto_f64", [hx(s2), dec(e)])
                if e <= -(1 << 40):        # round 6: every exponent whose power B^|e| no allocation can hold (the debug assertion of
                    #                          round_fract materialises it: finding); -2^31 .. -2^33 would take minutes and gigabytes instead
                    yield Case("f.to_int", [dec(B), rng.choice(modes), hx(s2), dec(e)])
                    if rng.random() < 0.3:
                        yield Case("fr.to_int", [dec(B), hx(s2), dec(e)])


def gen_out_of_range(rng, tier):
    """round 6 (/repo 1349a4b): `Repr::exponent_out_of_range(max_exp, min_exp)` decides +-inf / +-0 before any exponent
    arithmetic in FBig/Repr::to_f32/to_f64.  Classes from its two tests, for both formats and every base:
    `exponent >= max_exp` at max_exp - 1 / max_exp / max_exp + 1 and `exponent < 0 && exponent < min_exp - bit_len` at
    min_exp - bit_len + {-2 .. 2}, significands of 1, 2, p-1 .. p+2, 64, 65, 200 bits (all-ones, 10..01, random), both signs,
    every mode of to_f32; base 2 and 16 also through the mirrored `.code` ops on BOTH sides of each boundary (the early exit must
    be unobservable there), bases 10 and 3 through them on the decided side."""
    quick = tier == "quick"
    for ty, max_exp, min_exp, p in (("f32", 128, -149 - 24, 24), ("f64", 1024, -1074 - 53, 53)):
        for B in (2, 16, 10, 3):
            for L in (1, 2, p - 1, p, p + 1, p + 2, 64, 65, 200):
                sigs = sorted({(1 << L) - 1, (1 << (L - 1)) | 1, rng.getrandbits(L) | (1 << (L - 1)) | 1})
                for sg in sigs:
                    if sg % B == 0:
                        sg += 1
                    bl = sg.bit_length()
                    es = [max_exp - 1, max_exp, max_exp + 1] + [min_exp - bl + d for d in (-2, -1, 0, 1, 2)]
                    for e in es:
                        if quick and rng.random() < 0.4:
                            continue
                        s2 = signed(rng, sg)
                        # bases 10 / 3: the mirrored code is defined where the range test decides (before convert_base); beside the
                        # boundary the general path goes through ln/exp (not mirrored)
                        code = B in (2, 16) or e >= max_exp or (e < 0 and e < min_exp - bl)
                        if ty == "f32":
                            md = rng.choice(TO_FLOAT_MODES)
                            yield Case("f.to_f32", [dec(B), md, hx(s2), dec(e)])
                            yield Case("fr.to_f32", [dec(B), hx(s2), dec(e)])
                            if code:
                                yield Case("f.to_f32.code", [dec(B), md, hx(s2), dec(e)])
                                yield Case("fr.to_f32.code", [dec(B), hx(s2), dec(e)])
                            if B == 2:
                                yield Case("f.tryto_f32", [hx(s2), dec(e)])
                        else:
                            yield Case("f.to_f64", [dec(B), "HalfAway", hx(s2), dec(e)])
                            if code:
                                yield Case("f.to_f64.code", [dec(B), "HalfAway", hx(s2), dec(e)])
                            if B == 2:
                                yield Case("f.tryto_f64", [hx(s2), dec(e)])


def ratio_is_fixed():
    try:
        src = open("/repo/rational/src/convert.rs").read()
    except OSError:
        return False
    return "Inexact(man + 1, sign)" not in src


def generate(rng, tier):
    fixed = tree_is_fixed()
    yield from gen_encode(rng, tier, fixed)
    yield from gen_decode(rng, tier)
    yield from gen_prim(rng, tier)
    yield from gen_boundary(rng, tier)
    yield from gen_int_float(rng, tier, fixed)
    yield from gen_ratio(rng, tier, not ratio_is_fixed())
    yield from gen_float(rng, tier)
    yield from gen_to_float_code(rng, tier)
    yield from gen_extreme_exponent(rng, tier)
    yield from gen_out_of_range(rng, tier)


def nontrivial(c):
    # trivial: conversions of 0/±1 and bare powers of two with nothing to round
    vals = [a.split(":")[-1].lstrip("-") for a in c.args if re.fullmatch(r"(p:\w+:)?-?[0-9a-f]+", a)]
    return any(len(v) > 1 or v not in ("0", "1") for v in vals)


READY = True
JOBS = 12
USES_GEN = True        # lean/Dashu/Gen/ConvConsts.lean (vlib/extract.py gen_conv_consts: literal constants of into_fNN_internal, to_f32/to_f64,
                       # impl_conversion_to_float!, Repr::to_f32/to_f64 of dashu-ratio), Gen/Misc.lean (THRESHOLD_SMALL_EXP of convert_base),
                       # Gen/FloatRound*.lean (round_low_part tables behind reprRound), Gen/ConvToFloat.lean (decision expressions + panic sites of Repr::to_float)

THEOREMS = ["Dashu.Props.C06." + n for n in [
    "spec_rounding_is_nearest", "spec_rounding_ties_to_even", "decode_reads_fields_f32", "decode_reads_fields_f64",
    "spec_rational_extends_dyadic", "encode_correct_f32", "encode_correct_f64", "encode_correct_generic",
    "encode_decode_roundtrip_f32", "encode_decode_roundtrip_f64", "encode_asis_f32_counterexample_flag",
    "encode_asis_f32_counterexample_value", "encode_asis_f64_counterexample_flag",
    "encode_asis_f64_counterexample_value", "encode_asis_f32_counterexample_subnormal",
    "encode_asis_f64_counterexample_subnormal", "encode_asis_f32_counterexample_underflow",
    "encode_asis_f32_counterexample_shift_panic", "encode_asis_f64_counterexample_shift_panic",
    "encode_asis_counterexample_exponent_overflow", "sticky_bit_lemma", "ubig_to_f64_correct", "ubig_to_f32_correct",
    "ibig_to_float_sign", "to_f64_small_asis_counterexample", "ubig_try_to_f32_sound", "ubig_try_to_f64_sound",
    "ubig_try_from_float_exact_or_refused", "ibig_try_from_float_exact_or_refused",
    "int_from_float_asis_counterexample", "try_to_unsigned_in_range_iff", "try_from_sign_magnitude_in_range_iff",
    "to_sign_magnitude_exact", "from_unsigned_roundtrip", "rbig_to_f32_correct", "rbig_to_f64_correct",
    "rbig_to_f32_asis_counterexample", "rbig_to_f64_asis_counterexample", "rbig_try_to_ibig_iff",
    "rbig_try_to_ubig_iff", "rbig_try_to_prim_iff", "rbig_to_int_truthful", "rbig_try_from_float_exact",
    "rbig_try_from_float_refuses", "fbig_try_from_float_exact", "fbig_try_to_ibig_iff", "fbig_try_to_ubig_sound",
    "fbig_try_to_prim_iff", "fbig_to_rbig_exact", "rbig_try_to_f32_sound", "rbig_try_to_f64_sound",
    "fbig_to_int_follows_mode", "repr_to_int_truncates", "double_rounding_lemma", "fbig_first_rounding",
    "fbig_to_f64_normal_form", "fbig_to_f32_normal_form", "fbig_to_f64_value_iff", "fbig_to_f32_value_iff",
    "fbig_to_f64_flag_iff", "fbig_to_f32_flag_iff", "fbig_to_f64_bad_regions_inhabited", "rbig_to_f64_fast_normal_form",
    "rbig_to_f32_fast_normal_form", "rbig_to_float_fast_quotient_bound", "rbig_try_to_f32_iff", "rbig_try_to_f64_iff",
    "fbig_try_to_f64_sound", "fbig_try_to_f32_sound", "signed_primitive_roundtrip", "fbig_to_f32_value_iff_every_mode",
    "fbig_to_f32_mode_region_inhabited",
    "rbig_try_to_f32_kind", "rbig_try_to_f64_kind", "rbig_try_to_f32_out_of_bounds_truthful",
    "rbig_try_to_f64_out_of_bounds_truthful", "rbig_try_to_f32_large_dyadic", "rbig_try_to_f64_large_dyadic",
    "fbig_to_f32_flag_iff_every_mode", "fbig_to_f64_flag_iff_every_mode", "fbig_to_float_error_sign_composition",
    "fbig_base_to_f32_normal_form", "fbig_base_to_f64_normal_form", "fbig_base_to_f64_panic_iff",
    "fbig_base_to_f32_panic_iff", "conv_constants_regenerated",
    "rbig_to_float_decisions_regenerated", "rbig_to_float_decisions_unsaturated", "rbig_to_float_saturated_shift",
    "rbig_to_float_precision_zero_panics", "rbig_to_float_zero",
    "rbig_to_float_quotient_stage", "rbig_to_float_correct_when_fits", "rbig_to_float_directed_correct",
    "rbig_to_float_half_modes_counterexample", "fbig_from_rbig_is_one_rounding", "fbig_from_rbig_lossy_counterexample", "fbig_from_ibig_exact", "fbig_from_rbig_source_shape", "rbig_to_float_correct_when_quotient_short",
    "rbig_to_float_correct_when_quotient_exact", "rbig_to_float_nearest_correct_unless_second_tie",
    "fbig_to_float_range_test_regenerated", "fbig_to_f32_range_exit_unobservable", "fbig_to_f64_range_exit_unobservable",
    "fbig_try_to_float_range_exit_unobservable", "fbig_to_float_range_exit_decides", "fbig_to_float_range_overflow_is_required",
    "fbig_to_float_range_underflow_is_required", "fbig_to_float_range_underflow_directed_counterexample",
    "fbig_to_float_range_underflow_every_mode", "rbig_to_float_alloc_refusal_derived"]]
EXTRA_AXIOMS = {}      # bv_decide was NOT needed: encode_correct is an arithmetic proof (propext, Classical.choice, Quot.sound only)

REFINED = [
    "base/src/bit.rs <f32|f64 as FloatEncoding>::encode (every branch: overflow, underflow, subnormal with/without shift-out, normal; "
    "masks and shifts literal) == IEEE round-to-nearest-even + error sign, for all mantissas and ALL exponents (one generic proof over the "
    "block's constants, instantiated for f32 and f64)",
    "base/src/bit.rs <f32|f64>::decode (field extraction, NaN/inf refusal) and encode(decode(x)) == Exact(x)",
    "integer/src/convert.rs to_f64_small / to_f32_small (cast + comparison with the cast back)",
    "integer/src/convert.rs to_f32_nontrivial / to_f64_nontrivial (top bits | sticky -> encode) via the sticky-bit lemma, any length",
    "integer/src/convert.rs TryFrom<f32|f64> for UBig/IBig (decode, sign test, shift, fraction test)",
    "integer/src/convert.rs TryFrom<UBig|IBig> for f32/f64 (bit-length rule): every success is exact (refusals are conservative: 2^25 -> "
    "LossOfPrecision for f32)",
    "rational/src/convert.rs Repr::to_f32/to_f64 (shift to prec+2 bits, long division, sticky, encode) == IEEE rounding of the rational, for "
    "every numerator/denominator (sticky lemma for non-dyadic quotients)",
    "float/src/convert.rs FBig::<R,2>::to_f32 (every mode) / FBig::to_f64 / Repr::<2>::to_f32/to_f64: first rounding through the regenerated "
    "round_low_part tables == magnitude rounding; normal form (bits = IEEE rounding of the first-rounded value); for the round-half-even "
    "path the value is correct IFF not ToFloatBad and the flag truthful IFF not ToFloatFlagBad (closed forms = the finding predicates); for "
    "EVERY mode R of FBig::<R,2>::to_f32 the value equals one rounding in mode R IFF not ModeBad (subnormal result re-rounded half-even)",
    "float/src/convert.rs TryFrom<FBig> for IBig/UBig/uN/iN (any base, sound log2 estimate as oracle), TryFrom<f32|f64> for FBig<_,2>; "
    "rational/src/third_party/dashu_float.rs TryFrom<FBig> for RBig",
    "rational/src/convert.rs TryFrom<RBig> for IBig/UBig/uN/iN (iff integer in range), TryFrom<f32|f64> for RBig (exact), "
    "TryFrom<RBig> for f32/f64 (succeeds IFF exactly representable, returns that float), TryFrom<FBig<_,2>|Repr<2>> for f32/f64 (a success is "
    "exact), RBig::to_int (truncation, Exact iff integer, fraction is the rest)",
    "FBig::to_int / Repr::to_int: re-exported from builder-float's proofs (mode followed, flagged inexact)",
    "rational/src/convert.rs TryFrom<RBig> for f32/f64, the KIND of a refusal: the mirrored conversion equals the value-level "
    "specification ratTryToFloatSpec (which the driver prints as the required result) for every rational in lowest terms, never panics; "
    "an OutOfBounds refusal is truthful (the value rounds to +-inf) and every dyadic value >= 2^128 / 2^1024 is refused with OutOfBounds "
    "(rbig_try_to_f32_kind, ..._out_of_bounds_truthful, ..._large_dyadic)",
    "float/src/convert.rs FBig::<R,2>::to_f32 FLAG for EVERY mode R (directed modes, HalfAway, HalfEven): outside ModeBad the returned "
    "Rounding is the truthful label of the single rounding in mode R IFF not ToFloatFlagBad (fbig_to_f32_flag_iff_every_mode; the true "
    "error sign is the composition of the first rounding's and encode's, fbig_to_float_error_sign_composition, every format)",
    "float/src/convert.rs FBig::<R,B>::to_f32/to_f64, Repr::<B>::to_f32/to_f64 for B != 2 through every branch of "
    "Context::convert_base::<B,2> except ln/exp (B a power of two; |exponent| <= THRESHOLD_SMALL_EXP (regenerated): multiplication, "
    "repr_div, long-dividend path) + into_fNN_internal INCLUDING its debug assertion: mirrored (Model/Conv/Base.lean on builder-text's "
    "convertBase), executed by the driver as the `.code` ops (real code vs mirrored algorithm, bit for bit, panics included); normal form "
    "(bits = IEEE rounding of convert_base's value, which meets the rounding contract at 24/53 bits) and the exact panic region "
    "(convert_base returned prec+1 bits) proved (fbig_base_to_f32/f64_normal_form, ..._panic_iff)",
    "rational/src/third_party/dashu_float.rs Repr::to_float (RBig::to_float, Relaxed::to_float): MIRRORED statement by statement "
    "(Model/Conv/ToFloat.lean: precision assertion, zero, digit counts by ilog, the no-shift test and the shift amount as REGENERATED text, "
    "B == 2 shift / base.pow multiplication, truncated div_rem, first rounding by round_ratio, convert_int = Repr::new + repr_round, "
    "and_then flag, >> shift; since /repo 43925c0 the digit sum is precision.saturating_add(den_digits), regenerated as min(p + dd, 2^64 - 1): "
    "rbig_to_float_decisions_unsaturated / rbig_to_float_saturated_shift) and executed by the driver as `r.to_float.code` / "
    "`rx.to_float.code` (one stored representation each: lowest terms / reduce2) against the real code — significand, exponent, precision, "
    "flag and panics; theorems for ALL inputs: the quotient stage (rbig_to_float_quotient_stage), the result meets the rounding contract of C03 "
    "for the exact value num/den in EVERY directed mode (rbig_to_float_directed_correct: two roundings in the same directed mode are one) and in "
    "every mode whenever the first-rounded quotient fits the precision (rbig_to_float_correct_when_fits), in particular — hypotheses on the "
    "input only — whenever the scaled quotient is below B^p (rbig_to_float_correct_when_quotient_short) or is an integer "
    "(rbig_to_float_correct_when_quotient_exact), and for HalfEven / HalfAway in every even base whenever the second rounding is not an exact "
    "tie (rbig_to_float_nearest_correct_unless_second_tie); the two nearest modes are not always "
    "correct (rbig_to_float_half_modes_counterexample = the recorded finding)",
    "rational/src/third_party/dashu_float.rs From<Repr> for FBig (From<RBig>, From<Relaxed>): mirrored on C03's repr_div "
    "(fbigFromRat, `f.from.rbig.code` / `f.from.relaxed.code`: value and precision, every mode); linked by theorem to C03: it is ONE rounding of "
    "num/den at precision max(digits num, digits den, 1) under the target's mode and lossless iff the dropped flag is Exact "
    "(fbig_from_rbig_is_one_rounding, by Float.reprDiv_contract); kernel-checked lossy instances (fbig_from_rbig_lossy_counterexample)",
    "float/src/convert.rs Repr::exponent_out_of_range and the range test in front of FBig/Repr::to_f32/to_f64 (round 6, /repo 1349a4b): MIRRORED "
    "(Model/Conv/Base.lean exponentOutOfRange CALLS the regenerated decision text; rangeExit; fbigToFloatCode / fbigToFloatBaseCode / "
    "fbigTryToFloatCode are what the `.code` and `tryto` ops execute); PROVED unobservable in base 2 for every mode and both formats: the code with "
    "the test returns bit for bit (value and flag) what the general path returns (fbig_to_f32/f64_range_exit_unobservable, "
    "fbig_try_to_float_range_exit_unobservable), so every theorem about the general path is about the code as it is; call-site literals and "
    "decision text regenerated (fbig_to_float_range_test_regenerated); kernel-computed instances at isize::MAX-7 / isize::MIN "
    "(fbig_to_float_range_exit_decides); and for EVERY base B >= 2 the decided result is the REQUIRED one: Some(true) => +-inf with the truthful "
    "AddOne/SubOne in every mode (fbig_to_float_range_overflow_is_required), Some(false) => +-0 NoOp in HalfEven/HalfAway/Zero "
    "(fbig_to_float_range_underflow_is_required; the away-from-zero directed modes are the recorded finding: "
    "fbig_to_float_range_underflow_directed_counterexample); round 7: the Some(false) arm in EVERY mode and base with no mode hypothesis "
    "(fbig_to_float_range_underflow_every_mode): the required result is +-0 toward zero unless the mode rounds this sign's magnitude up "
    "(Away; Up for s > 0; Down for s < 0), where it is the least subnormal (bits sign + 1) flagged away from zero, independent of e; the "
    "returned bits are the required ones IFF the mode is not one of those three cases (closed form of the recorded finding on this arm)",
    "integer/src/convert.rs try_to_unsigned / unsigned_from_words (all word sizes that are multiples of 8), "
    "integer/src/primitive.rs to_sign_magnitude / try_from_sign_magnitude (all widths), from_unsigned round trip",
    "rational/src/third_party/dashu_float.rs Repr::to_float, the scaling `&numerator << shift` / `&numerator * base.pow(shift)` at shift >= 2^64 - 64 "
    "(round 8, link to the integer side's guarded kernels TRepr.shlChecked / ubigPowGuarded, 64-bit words): refused with the documented allocation panic "
    "for every non-zero numerator (base 2) and for the bases 3, 10, 16 before the numerator is looked at; for numerator 1 nothing is refused below "
    "that shift (rbig_to_float_alloc_refusal_derived) - the driver's up-front AllocTooMuch is no longer only transcribed",
]
FRONTIER = [
    "rational/src/convert.rs to_f32_fast/to_f64_fast: mirrored, normal form and the quotient-level error bound (< 4.5 units of the quotient, "
    "i.e. < 2.5 ulps before encode's correct rounding) are proved; the resulting 3-unit bound on the bit patterns (all regimes incl. "
    "subnormal/overflow) is checked per case",
    "FBig/Repr::to_f32/to_f64 for a base that is no power of two and |exponent| > THRESHOLD_SMALL_EXP (convert_base through ln/exp): spec "
    "only (single rounding of the exact rational value under the documented mode, flags derived from the true error); for the mirrored "
    "branches the SINGLE-rounding value/flag is decided per case against the specification (the code rounds twice: findings)",
    "RBig/Relaxed::to_float in the two NEAREST modes (HalfEven, HalfAway) when the quotient stage leaves a non-zero remainder AND the first-rounded "
    "quotient has more than `precision` digits (scaled quotient >= B^p) AND (the digits dropped by the second rounding are exactly half a unit, "
    "or the base is odd): the "
    "mirrored code rounds twice and is proved wrong on concrete inputs; no closed form of the exact bad region is proved (the finding predicate "
    "re-computes both roundings per case) — the single-rounding value/flag is decided per case against the specification op `r.to_float`",
    "RBig::to_float with 2^22 < shift < 2^64 - 64 digits (memory proportional to the precision): not driven on either side; the allocation "
    "refusal beyond that (AllocTooMuch) is (round 8) DERIVED from the integer side's guarded kernels for 64-bit words and the driven bases "
    "(rbig_to_float_alloc_refusal_derived, Props/C06Alloc.lean: base 2 every non-zero numerator through TRepr.shlChecked; bases 3/10/16 through "
    "ubigPowGuarded; threshold sharp for numerator 1) — still open: a base-generic statement (any B >= 3 through maxExpInWord) and 32-bit words",
]
RULE = ("Structured, built from the branch conditions of the code. encode/decode: ALL exponents (qmin-N-6 .. emax+6, and the i16 extremes) x "
        "mantissa classes {1, 3, 2^k, 2^k-1, 2^p±1, i32/i64 MIN/MAX} plus, for every mantissa length L and every cut position k (normal cut L-p, "
        "every subnormal cut 0..L+2), kept part {10..0, 1..1, even, odd, random} x discarded part {0, 1, half-1, half, half+1, quarter, "
        "half+quarter, all ones, random}; every threshold top_bit ±2. Primitives: every width/sign x {0, ±1, MIN, MAX, MAX+1, MIN-1, word, dword "
        "and heap boundaries, random}. Integers->floats: 2^k, 2^k±1, 2^k + 2^(k-p){,±1}, 2^k + 3·2^(k-p)..., every bit length 1..1100 with the "
        "same cut patterns at p = 24 and 53, overflow thresholds 2^128-2^103.., 2^1024-2^970.., u128::MAX. Floats->integers: all exponents around "
        "the integer/fraction boundary, NaN/±inf/±0/subnormals. Single-bit boundary probes (both tiers): for integer lengths n in {25..27, 32, 33, 54..56, 63..70, 127..131, 191..193, 255..257, 500, "
        "1023..1025}, rational quotients of p+2..p+12, 64..66, 128..130 bits and every encode mantissa length: {even, odd, all-ones kept part} x "
        "{tie, round bit clear} x ONE extra set bit (or one cleared bit in an all-ones tail) at every position below the round bit (all positions "
        "for n <= 131, else those within 3 of the round bit, of the 31/63-bit window n-31/n-63, of encode's sticky boundary, of every word "
        "boundary 64k, and 0..2); for rationals also remainder-only sticky (odd denominators). Rationals: quotients with p-1..p+3 bits x the cut patterns x denominators {1, "
        "small odd, 2^k, 2^64±1, 10^25, random} at exponents in the normal range, the subnormal band, below it and at the overflow edge; "
        "to_float over bases {2,3,10,16} x 6 modes x precisions with tie/near-tie tails. Floats of any base: every exponent boundary of into_fNN_internal and of encode's regimes (±2) x significands of p-1..p+3 bits (all ones, 10..01, ties after the first rounding); binary significands of 1..200 bits "
        "at every regime, decimals d·10^e with |e| <= 400 (1..40 digits), the to_int family with exact halves/near halves. Bases 10, 3, 16 through "
        "every mirrored branch of convert_base::<B,2> (`.code` ops beside the spec ops): every exponent of the small-exponent window -T-1..T+1 x significands of 1..60 digits (multiply / "
        "repr_div with q = 0, short q, long q / long-dividend path), exactly representable quotients and exact ties m·odd^k·B^-k with m of p-1..p+3 and 2p+1 bits and "
        "their +-1 neighbours, dividends of p+den-1..p+den+2 bits (the repr_div / long-path boundary), the f32/f64 overflow edge. "
        "Repr::to_float / From<Repr> for FBig (`.code` ops, RBig and Relaxed separately, beside the spec op): bases {2,3,10,16} x 6 modes x "
        "the no-shift test num_digits - den_digits - precision in -4..4 with exact and inexact quotients and B^k / B^(k+1)-1 / B^k+1 operands; quotients "
        "head(p digits).d.mid with d in {0,1,B/2-1,B/2,B/2+1,B-1} and remainder fractions {0, 1, just below / at / just above 1/2, den-1} (both "
        "roundings steered, carries 99..9, double-rounding traps) over denominators {1,3,7,B,2B+1,B^3,7B,2^64+13}; B^k±1, k^n±1 (k of every bit "
        "length 2..129) operands; precisions 0 (assertion), 1, 63..65, 128, usize::MAX-k (k <= 40: allocation refused; k below the digit count of a "
        "long denominator, and k = digit count - 1, digit count, digit count + 1: the saturating digit sum at / just below usize::MAX — same refusal). "
        "Extreme isize exponents of the float source value (E1): +-2^31, +-2^32(+-k), +-2^61(+-1), "
        "+-2^62, isize::MAX-k, isize::MIN+k (k = 0..130) x bases {2,16,10,3} x significands of 1, 2, 24, 53, 60, 201 bits for "
        "to_f32 (all modes) / to_f64 / Repr::to_f32 / TryFrom<FBig> for f32/f64 — spec ops AND (round 6) the mirrored `.code` ops in every base (the "
        "range test decides before convert_base) — and FBig/Repr::to_int at every exponent <= -2^40. Range test exponent_out_of_range(max_exp, min_exp) "
        "(round 6): exponent in {max_exp-1, max_exp, max_exp+1} and min_exp - bit_len + {-2..2} for both formats x bases {2,16,10,3} x significands of "
        "1, 2, p-1..p+2, 64, 65, 200 bits (all ones, 10..01, random) x both signs x every mode; bases 2/16 through the `.code` ops on both sides of "
        "each boundary, bases 10/3 on the decided side. All call forms "
        "(owned/ref, RBig/Relaxed, FBig/Repr) are evaluated and must agree. Non-trivial := some operand is neither 0 nor ±1; distinct := distinct (op,args).")
EXPLANATION = ("Centre: a machine-checked proof that f32/f64::encode of the current tree equals the IEEE-754 round-to-nearest-even specification "
               "(overflow, gradual underflow, ±0) with the true error sign for EVERY (mantissa, exponent) — the statement that exposed two mask "
               "errors, a wrong underflow bound and three panics in the pinned code (kernel-checked counterexamples kept). On top: decode and the "
               "round trip, UBig/IBig::to_f32/to_f64 for every length via a proved sticky-bit lemma, exact-or-refused float->integer and "
               "primitive<->big conversions for every width. Rational and any-base float conversions are decided by the correspondence against an "
               "exact-arithmetic specification; their remaining (design-level) defects are listed as known findings with exact input predicates.")
ASSUMPTIONS = [
    "Rust `as` casts int->float round to nearest-even (overflow to inf) and float->int saturate (Rust reference); leading_zeros/trailing_zeros "
    "return the documented counts",
    "the harness is a debug build (overflow checks and debug_assert! on): arithmetic overflow and failed debug assertions are observed as panics",
    "usize/isize are 64 bits (the harness checks the word size of the build)",
]
LEVEL_TEXT = ("Lean 4 theorems (no bounds on mantissa, exponent, integer length or word size): `encode` == IEEE RNE + error sign for all "
              "inputs (f32, f64 and any format whose constants satisfy 13 checked relations); decode/round trip; UBig/IBig::to_f32/to_f64 "
              "correctly rounded for every canonical magnitude (sticky-bit lemma); RBig::to_f32/to_f64 correctly rounded for every rational; float->UBig/IBig exact or refused; primitive<->big succeed "
              "iff in range and return the value. The hand-written model is tied to /repo on every run by differential execution of model, "
              "specification and real code over generated cases at every branch threshold, all call forms. Rational and non-binary float "
              "conversions: specification (exact rational arithmetic, single rounding) vs real code by correspondence; RBig::to_f32/to_f64 "
              "are refined as well (correctly rounded for every rational). Round 4: the refusal KIND of TryFrom<RBig> for f32/f64 is a theorem "
              "(model = value-level spec for every rational in lowest terms); the FLAG of FBig::<R,2>::to_f32 has a proved closed form in every "
              "mode; to_f32/to_f64 of bases != 2 are mirrored through convert_base's exact-evaluation branches (incl. the debug assertion) and "
              "compared bit for bit with the real code, with a proved normal form and panic region. Tie A: the literal constants of into_fNN_internal, "
              "the to_f32/to_f64 precisions, the bounds of impl_conversion_to_float! and the quotient width / exits of dashu-ratio's Repr::to_f32/to_f64 "
              "are regenerated from the source on every run (Gen/ConvConsts.lean) and proved equal to the models' constants "
              "(conv_constants_regenerated); the panic sites of the width assertion are the regenerated strings. Round 5: RBig/Relaxed::to_float "
              "and From<RBig|Relaxed> for FBig are mirrored and compared digit for digit with the real code; to_float is PROVED correctly rounded "
              "and truthfully flagged (C03's rounding contract for the exact rational) for all inputs in the four directed modes and, in every mode, "
              "whenever the first-rounded quotient fits the precision; its decision expressions and panic sites are regenerated (Gen/ConvToFloat.lean, "
              "rbig_to_float_decisions_regenerated); From<RBig> for FBig is one rounding at max digit count (linked to C03's repr_div theorem). "
              "Round 6 (after 13 fix commits in /repo): the model follows the repaired code — saturating digit sum of Repr::to_float regenerated, the "
              "range test exponent_out_of_range of FBig/Repr::to_f32/to_f64 mirrored, regenerated (decision text + call-site literals) and proved "
              "unobservable in base 2 (the repaired conversions return what the general path returns, bit for bit).")
LEVEL_NOTE = ("No bv_decide: all theorems depend only on propext/Classical.choice/Quot.sound (counterexamples: `decide +kernel`, propext only). "
              "Trusted: Lean kernel; the correspondence harness and generators (sampling) for model<->code; Rust cast/intrinsic semantics as "
              "listed in assumptions. The `*AsIs` models describe the pinned pre-fix code and occur only in counterexample theorems; the `.asis` "
              "ops that tie them to the code are generated only while the corresponding defect text is still present in /repo. Known findings "
              "(design-level, unrepaired): RBig::to_float double rounding; FBig->f32/f64 flags, subnormal double rounding and non-binary-base "
              "assertions; From<RBig> for FBig lossy; FBig::to_int in DEBUG builds for exponents <= -2^40 (round_fract's debug assertion "
              "materialises B^-exponent: out of memory; proposed_fixes/c06-round-fract-debug-assert-huge-precision.diff). Repaired in round 6 "
              "(`fixed:` lines): isize overflow of the exponent arithmetic of to_f32/to_f64 (1349a4b), negation of isize::MIN in to_int (7e1bdaf), "
              "usize overflow of precision + den_digits in RBig::to_float (43925c0). For extreme exponents the specification is evaluated at a clamped exponent "
              "(|e| > 8192 + 2·bit_len: the IEEE result no longer depends on e) — a driver-level device; since round 6 backed by theorems for every base: beyond emax the specification is +-inf in every mode (fbig_to_float_range_overflow_is_required), below (qmin - prec) - bit_len it is +-0 in HalfEven/HalfAway/Zero (fbig_to_float_range_underflow_is_required); and (round 7) in the directed-away modes (Away; Up on positive, Down on negative values) it is the least subnormal +-2^qmin flagged away from zero, again independent of e (fbig_to_float_range_underflow_every_mode) — so the clamp is justified in every mode and base. Observation (not a violation of C06 as worded): to_f32_fast/to_f64_fast can be up to 3 units off "
              "(doc says 1); TryFrom<UBig> for f32 refuses representable integers above 2^25 (conservative); to_f32_small has the u64::MAX "
              "saturation issue on 32-bit-word builds (not reachable with 64-bit words).")
TECHNIQUE = "Lean 4 refinement proofs (arithmetic over Nat/Int, generic in the format constants) + kernel-decided counterexamples + differential correspondence model/spec vs real code"
