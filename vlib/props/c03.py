"""C03 — float add/sub/mul/div/sqrt/sqr/cubic/inv honour the rounding contract of the mode (DESIGN §8 C03)."""
from vlib.core import Case
from vlib.gens import hx, dec
from vlib.props.c10 import fenc, fdec, ndigits, normalize, rand_sig, BASES, MODES, PRECS

GROUP = "float"
LEAN_PROPS = "Dashu.Props.C03"
LEAN_AUDIT = "Dashu.Audit.C03"
USES_GEN = True
READY = True
GEN_PROPS = ["Dashu.Props.GenRound", "Dashu.Props.C03Link"]
GEN_AUDIT = ["Dashu.Audit.GenRound", "Dashu.Audit.C03Link"]
# Tie A, typed translator: `Context::repr_round`, `repr_round_sum`, `repr_add_large_small` / `repr_add_small_large`,
# `Context::add` / `sub` regenerated from float/src/{repr,add}.rs and proved equal to the model functions the driver runs
GEN_PROPS += ["Dashu.Props.GenFloatOps", "Dashu.Props.GenFloatAdd"]
GEN_AUDIT += ["Dashu.Audit.GenFloatOps", "Dashu.Audit.GenFloatAdd"]
# Tie A, typed translator: the by-reference operator forms `FBig ± &FBig`, `&FBig ± &FBig` regenerated from float/src/add.rs
GEN_PROPS += ["Dashu.Props.GenFloatForms"]
GEN_AUDIT += ["Dashu.Audit.GenFloatForms"]
# Tie A, typed translator (round 5): `Context::mul/sqr/cubic`, `repr_div`, `Context::div/inv` and the operator impls
# `FBig * FBig` (4 forms), `FBig / FBig` (4 forms), `FBig::sqr/cubic`, `Inverse for FBig/&FBig` regenerated from
# float/src/{mul,div}.rs and proved equal to the model functions the driver runs
GEN_PROPS += ["Dashu.Props.GenFloatArith"]
GEN_AUDIT += ["Dashu.Audit.GenFloatArith"]

# ----------------------------------------------------------------------------- known-finding predicates
# (called from known_findings.jsonl `py` conditions; each describes the input class of one defect,
#  the same hypothesis that the corresponding `..._partial` theorem of Props/C03.lean carries)

def _p(op, args):
    """context precision of a case: explicit for c.* ops, Context::max of the operands for f.* ops"""
    if op.startswith("c."):
        return int(args[-1][2:])
    ps = [fdec(a)[3] for a in args if a.startswith("f:")]
    p = ps[0]
    for x in ps[1:]:
        p = x if x > p else p
    return p

def _opnd(a):
    B, s, e, _, m = fdec(a)
    s, e = normalize(B, s, e)
    return B, s, e, m, ndigits(B, s)

def kf_long_operand(op, args):
    """Context methods on operands longer than the working length (outside `operands that fit p`):
    mul/sqr/cubic pre-shrink operands longer than 2p (3p) digits and div pre-shrinks a dividend longer
    than rhs.digits + p with the rounding mode of the context (double rounding, lost Inexact flag);
    add/sub of operands longer than p can cancel more digits than the single guard digit of
    repr_round_sum.
    Lean twins (Props/C03.lean): MulShrinkRegion, SqrShrinkRegion, CubicShrinkRegion, DivShrinkRegion,
    AddLongRegion; outside them `*_contract_outside_region` prove the full contract, inside
    `mul_preshrink_counterexample`, `div_preshrink_counterexample`, `add_guard_digit_counterexample`."""
    p = _p(op, args)
    if p == 0:
        return False
    B, s1, e1, m, d1 = _opnd(args[0])
    if op == "c.sqr":
        return d1 > 2 * p
    if op == "c.cubic":
        return d1 > 3 * p
    if len(args) < 2 or not args[1].startswith("f:"):
        return False
    B2, s2, e2, m2, d2 = _opnd(args[1])
    # f.* ops reach the same regions when one operand has unlimited precision (0) and is longer than the
    # other operand's precision: Context::max picks the limited precision
    if op in ("c.mul", "f.mul"):
        return d1 > 2 * p or d2 > 2 * p
    if op in ("c.div", "f.div"):
        return s2 != 0 and d1 > d2 + p
    if op in ("c.add", "c.sub", "f.add", "f.sub"):
        return d1 > p or d2 > p
    return False

# ----------------------------------------------------------------------------- generator

def pick(rng):
    B = rng.choice(BASES); m = rng.choice(MODES); p = rng.choice(PRECS + [1, 2, 3, 5])
    if rng.random() < 0.15:
        # addendum E2: every precision 1..130 (so that ties / carries / k^2+-1 occur at operands of EVERY digit length,
        # in particular around the word sizes 32/64/128 bits of the significand)
        p = rng.randrange(1, 131)
    return B, m, p

def gaps(rng, p, ld, rd):
    g = [0, 0, 1, 1, 2, abs(ld - p) + rng.choice([-1, 0, 1]), p - 1, p, p + 1, p + 2, rd + 1, rd + 2, rd + 3,
         rd - 3, rd - 2, rd - 1, rd, rd + 4,     # a digits_ub estimate that is off by a few digits would move the far-apart boundary

         p - ld, p - ld + 1, p - ld + rd, p - ld + rd + 1, p - ld + rd + 2, p - ld + rd + 3, p + rd + 1, p + rd + 2, p + rd + 3, 3 * p + 10, 5 * p + 40]
    return max(0, rng.choice(g))

def gen_addsub(rng, n, ctx_long=False):
    for _ in range(n):
        B, m, p = pick(rng)
        if not ctx_long and rng.random() < 0.05:
            # directed: long operands right at the two thresholds of the far-apart branch
            # (`est + 1 < ediff`, `est + 1 + p < digits + ediff`, est = digits_ub of the small operand), moved by up
            # to 4 % of the length - an estimate that is off by a few per cent of the digit count shows only here
            p = rng.choice([64, 100, 100, 200, 400]); B = rng.choice([10, 10, 10, 2, 3, 16, 36])
            ld = rng.choice([1, p, p - 1]); rd = rng.choice([p, p, p // 2, p - 1])
            a = rand_sig(rng, B, ld); b = rand_sig(rng, B, rd)
            edge = max(rd + 2, rd + 2 + p - ld)
            gap = max(0, edge + rng.choice([-(rd // 25), -(rd // 40), -(rd // 60), -3, -2, -1, 0, 1, 2]))
            ea = rng.choice([0, -7, 30]); eb = ea - gap
            x = (rng.choice([1, -1]) * a, ea); y = (rng.choice([1, -1]) * b, eb)
            if rng.random() < 0.5:
                x, y = y, x
            yield Case("f." + rng.choice(["add", "sub"]), [fenc(B, x[0], x[1], p, m), fenc(B, y[0], y[1], p, m)])
            continue
        maxd = p if not ctx_long else 3 * p + 2
        ld = rng.choice([1, 1, p, p, max(1, p - 1), rng.randrange(1, maxd + 1)])
        rd = rng.choice([1, 1, p, p, max(1, p - 1), rng.randrange(1, maxd + 1)])
        a = rand_sig(rng, B, ld); b = rand_sig(rng, B, rd)
        ea = rng.choice([0, 0, -3, 7, -p, 40])
        gap = gaps(rng, p, ld, rd)
        eb = ea - gap
        r = rng.random()
        if r < 0.12:
            # cancellation to zero / to a single digit: equal magnitudes after alignment, or off by one ulp
            b = a * B ** gap + rng.choice([0, 0, 1, -1, B - 1])
            if b <= 0 or (ndigits(B, b) > maxd):
                b = a; eb = ea
            if b % B == 0:
                b, eb = normalize(B, b, eb)
            sa, sb = 1, -1
        elif r < 0.24 and gap >= 1:
            # tie / near tie at the rounding position of a p-digit lhs: rhs = half (+-1 further down)
            a = rand_sig(rng, B, p)
            k = rng.choice([1, 1, 2, min(p, 4)])
            half = (B ** k) // 2
            tail = rng.choice([0, 0, 1, -1])
            if tail and rng.random() < 0.5 and k + 3 <= p:
                # half followed by zeros and a far sticky digit
                b = half * B ** 3 + tail; k += 3
            else:
                b = half + tail
            if b <= 0:
                b = 1
            eb = ea - k
            b, eb = normalize(B, b, eb)
            sa, sb = rng.choice([(1, 1), (1, -1), (-1, 1), (-1, -1)])
        elif r < 0.34:
            # carry into a new digit: lhs = B^p - 1 (+ aligned small rhs)
            a = B ** ld - 1
            sa, sb = rng.choice([(1, 1), (-1, -1)])
        elif r < 0.40:
            # sticky only: rhs = 1 far below
            b = 1; eb = ea - rng.choice([p, p + 1, p + 2, 2 * p + 3, 3 * p + 50])
            sa, sb = rng.choice([(1, 1), (1, -1), (-1, 1), (-1, -1)])
        else:
            sa, sb = rng.choice([(1, 1), (1, -1), (-1, 1), (-1, -1)])
        if rng.random() < 0.04:
            a = 0; ea = 0
        elif rng.random() < 0.04:
            b = 0; eb = 0
        x = (sa * a, ea); y = (sb * b, eb)
        if rng.random() < 0.5:
            x, y = y, x
        op = rng.choice(["add", "sub"])
        if ctx_long:
            yield Case("c." + op, [fenc(B, x[0], x[1], 0, m), fenc(B, y[0], y[1], 0, m), dec(p)])
        else:
            if ndigits(B, normalize(B, x[0], x[1])[0]) > p or ndigits(B, normalize(B, y[0], y[1])[0]) > p:
                continue
            pa, pb = rng.choice([(p, p), (p, p), (p, p), (p, max(ndigits(B, normalize(B, y[0], y[1])[0]), 1)),
                                 (max(ndigits(B, normalize(B, x[0], x[1])[0]), 1), p)])
            yield Case("f." + op, [fenc(B, x[0], x[1], pa, m), fenc(B, y[0], y[1], pb, m)])

def gen_muldiv(rng, n, ctx_long=False):
    for _ in range(n):
        B, m, p = pick(rng)
        if ctx_long:
            ld = rng.choice([1, p, 2 * p, 2 * p + 1, 2 * p + 2, 3 * p, 3 * p + 1, 4 * p + 3])
            rd = rng.choice([1, p, 2 * p, 2 * p + 1, 3 * p + 2])
        else:
            ld = rng.choice([1, p, p, max(1, p - 1), rng.randrange(1, p + 1)])
            rd = rng.choice([1, p, p, max(1, p - 1), rng.randrange(1, p + 1)])
        a = rand_sig(rng, B, ld) * rng.choice([1, -1]); b = rand_sig(rng, B, rd) * rng.choice([1, -1])
        ea = rng.choice([0, 1, -2, 11, -p]); eb = rng.choice([0, -1, 3, -17, p])
        op = rng.choice(["mul", "mul", "div", "div", "div"])
        r = rng.random()
        if op == "div" and r < 0.2:
            # exact quotients and quotients ending in a half
            q = rand_sig(rng, B, rng.choice([1, p, max(1, p - 1)]))
            a = abs(b) * q * rng.choice([1, -1])
            if rng.random() < 0.5 and B % 2 == 0:
                a = a * B + abs(b) * (B // 2); ea -= 1
            a, ea = normalize(B, a, ea)
            if not ctx_long and ndigits(B, a) > p:
                a = q
        elif op == "div" and r < 0.3:
            b = rng.choice([1, 2, 3, B - 1, B + 1, B * B - 1]) * rng.choice([1, -1])
            b, eb = normalize(B, b, eb)
        elif op == "div" and r < 0.33:
            b = 0; eb = 0
        elif op == "mul" and r < 0.25 and B % 2 == 0:
            # products whose low part is exactly (or next to) a half
            b = (B // 2) * rng.choice([1, -1]); eb = rng.choice([0, -1])
        if ctx_long:
            yield Case("c." + op, [fenc(B, a, ea, 0, m), fenc(B, b, eb, 0, m), dec(p)])
        else:
            da = ndigits(B, normalize(B, a, ea)[0]); db = ndigits(B, normalize(B, b, eb)[0])
            if da > p or db > p:
                continue
            pa, pb = rng.choice([(p, p), (p, p), (p, max(db, 1)), (max(da, 1), p)])
            yield Case("f." + op, [fenc(B, a, ea, pa, m), fenc(B, b, eb, pb, m)])

def gen_unary(rng, n, ctx_long=False):
    for _ in range(n):
        B, m, p = pick(rng)
        op = rng.choice(["sqrt", "sqrt", "sqrt", "sqr", "cubic", "inv"])
        if ctx_long:
            d = rng.choice([1, p, p + 1, 2 * p - 1, 2 * p, 2 * p + 1, 2 * p + 2, 3 * p, 3 * p + 1, 4 * p + 1])
        else:
            d = rng.choice([1, 2, p, p, max(1, p - 1), rng.randrange(1, p + 1)])
            d = min(d, p)
        s = rand_sig(rng, B, d)
        e = rng.choice([0, 1, -1, 2, -2, 7, -8, -p, -p - 1])
        if op == "sqrt":
            r = rng.random()
            if r < 0.3:
                # perfect squares, k^2 +- 1, square prefixes with a non-zero tail
                k = rand_sig(rng, B, max(1, (d + 1) // 2))
                s = k * k + rng.choice([0, 0, 1, -1])
                if ctx_long and rng.random() < 0.5:
                    s = k * k * B ** rng.choice([2, 4, 2 * p]) + rng.choice([1, B - 1, rng.randrange(1, B * B)])
                if s <= 0:
                    s = k * k
                s, e = normalize(B, s, e)
                if not ctx_long and ndigits(B, s) > p:
                    s = rand_sig(rng, B, d)
            elif r < 0.34 and ctx_long:
                # the half test with discarded low digits: S = r^2 + r (rem == root) followed by low digits between
                # 1/4 and 1/2 (and around both), scaled so that exactly those digits are split off
                rt = rand_sig(rng, B, p, "random")
                S = rt * rt + rt
                k = rng.choice([1, 2, 3, 8])
                bk = B ** k
                low = rng.choice([bk // 4, bk // 4 + 1, max(bk // 4 - 1, 0), bk // 3, bk // 2, max(bk // 2 - 1, 1), bk // 2 + 1, 1, bk - 1])
                s = S * bk + low
                if s % B == 0:
                    s += 1
                dS = ndigits(B, S)
                e = rng.choice([0, 2, -4, 6])
                if (e - (dS + k)) % 2 != (0 if dS == 2 * p else 1):
                    e += 1
            elif r < 0.40 and ctx_long:
                # the Exact flag with discarded low digits (Props/C03 sqrt_exact_flag_iff): S = rt^2 is a perfect square of
                # 2p-1 or 2p digits (rem == 0) followed by k discarded digits `low` != 0, digit/exponent parity chosen so that
                # exactly those k digits are split off (shift = -k): must be flagged Inexact in every mode
                rt = rng.choice([rand_sig(rng, B, p, "random"), B ** (p - 1), B ** p - 1, B ** (p - 1) + 1,
                                 rand_sig(rng, B, p)])
                S = rt * rt
                k = rng.choice([1, 1, 2, 3, 8, p, 2 * p + 1])
                bk = B ** k
                low = rng.choice([1, 1, bk - 1, max(bk // 2, 1), max(bk // 4, 1), rng.randrange(1, bk), B ** (k - 1)])
                s = S * bk + low
                dS = ndigits(B, S)
                e = rng.choice([0, 2, -4, 6, -2 * p])
                if (e - (dS + k)) % 2 != (0 if dS == 2 * p else 1):
                    e += 1
            elif r < 0.42:
                s = -s
            elif r < 0.46:
                s = 0; e = 0
        else:
            s *= rng.choice([1, -1])
            if op == "inv" and rng.random() < 0.05:
                s = 0; e = 0
            if op == "inv" and rng.random() < 0.2:
                s = rng.choice([1, 2, 4, 5, 8, B, B - 1, B + 1, 3]) * rng.choice([1, -1])
                s, e = normalize(B, s, e)
        if ctx_long:
            yield Case("c." + op, [fenc(B, s, e, 0, m), dec(p)])
        else:
            if ndigits(B, normalize(B, s, e)[0]) > p:
                continue
            yield Case("f." + op, [fenc(B, s, e, p, m)])

def gen_sqrt_allbits(rng, n):
    """addendum E2 for sqrt: radicands k^2 - 1, k^2, k^2 + 1 for k of EVERY bit length 1..140 (all-ones, power of two,
    power of two + 1, random) and B^j - 1, B^j, B^j + 1 for every j, at a precision that keeps all digits (f.sqrt), at the
    precision of the root, and one below / above it (c.sqrt when the operand does not fit)"""
    for _ in range(n):
        B = rng.choice(BASES); m = rng.choice(MODES)
        if rng.random() < 0.75:
            nb = rng.randrange(1, 141)
            k = rng.choice([(1 << nb) - 1, 1 << (nb - 1), (1 << (nb - 1)) + 1, rng.randrange(1 << (nb - 1), 1 << nb)])
            s = k * k + rng.choice([-1, 0, 0, 1])
        else:
            j = rng.randrange(1, 80)
            s = B ** j + rng.choice([-1, 1, 1])
        if s <= 0:
            s = 1
        e = rng.choice([0, 1, -1, 2, -7, 40])
        s, e = normalize(B, s, e)
        nd = ndigits(B, s)
        rootd = (nd + 1) // 2
        p = max(1, rng.choice([nd, nd + 1, rootd, rootd - 1, rootd + 1, 2 * nd + 3]))
        if p >= nd and rng.random() < 0.7:
            yield Case("f.sqrt", [fenc(B, s, e, p, m)])
        else:
            yield Case("c.sqrt", [fenc(B, s, e, 0, m), dec(p)])

def gen_unlimited(rng, n):
    """precision 0 = unlimited: both operands unlimited (exact results / UnlimitedPrecision panics), one operand
    unlimited and LONGER than the other's precision (Context::max picks the limited precision: the operators and
    the Context methods then work on an operand that does not fit), and Context methods called with d:0"""
    for _ in range(n):
        B = rng.choice(BASES); m = rng.choice(MODES)
        a = rand_sig(rng, B, rng.randrange(1, 40)) * rng.choice([1, -1]); b = rand_sig(rng, B, rng.randrange(1, 40)) * rng.choice([1, -1])
        ea = rng.choice([0, 3, -5]); eb = rng.choice([0, -60, 9])
        op = rng.choice(["add", "sub", "mul", "div", "sqr", "cubic", "sqrt", "inv"])
        kind = rng.choice(["both0", "both0", "mixed", "mixed", "ctx0"])
        if kind == "both0":
            if op in ("add", "sub", "mul", "div"):
                yield Case("f." + op, [fenc(B, a, ea, 0, m), fenc(B, b, eb, 0, m)], nontrivial=False)
            else:
                yield Case("f." + op, [fenc(B, a, ea, 0, m)], nontrivial=False)
        elif kind == "mixed":
            if op not in ("add", "sub", "mul", "div"):
                op = rng.choice(["add", "sub", "mul", "div"])
            p = rng.choice([1, 2, 3, 5, 8])
            b2 = rand_sig(rng, B, rng.randrange(1, p + 1)) * rng.choice([1, -1])
            x, y = fenc(B, a, ea, 0, m), fenc(B, b2, eb if rng.random() < 0.5 else ea - rng.randrange(0, 4), p, m)
            if rng.random() < 0.5:
                x, y = y, x
            yield Case("f." + op, [x, y])
        else:
            if op in ("add", "sub", "mul", "div"):
                yield Case("c." + op, [fenc(B, a, ea, 0, m), fenc(B, b, eb, 0, m), dec(0)], nontrivial=False)
            else:
                yield Case("c." + op, [fenc(B, a, ea, 0, m), dec(0)], nontrivial=False)

UMAX = 2 ** 64 - 1
def extreme_precisions():
    """ROUND4 addendum E1 for the `usize` precision of Context methods / FBig contexts: W-1, W, W+1, 2W, 2^31, 2^32-1,
    2^32, 2^32+k, 2^63, the overflow boundaries of `2*p` / `3*p`, usize::MAX-k (k = 0..130)"""
    return ([63, 64, 65, 128, 2 ** 31, 2 ** 32 - 1, 2 ** 32, 2 ** 62 - 1, 2 ** 62, 2 ** 63 - 1, 2 ** 63, 2 ** 63 + 1,
             UMAX // 3 - 1, UMAX // 3, UMAX // 3 + 1, UMAX // 3 + 2, UMAX // 2, UMAX // 2 + 1, UMAX // 2 + 2]
            + [2 ** 32 + k for k in range(1, 130)] + [UMAX - k for k in range(0, 131)])

def gen_extreme(rng, n):
    """extreme precisions where the call is cheap (the result does not need memory proportional to p): add/sub/mul/sqr/
    cubic of short operands (results are exact), div of exact multiples, inv of +-B^e; through the Context methods (c.*)
    and through FBig contexts (f.*: operators at Context::max).  sqrt/inv/div with a non-terminating result need ~p
    digits of memory: only precisions < 2^9 are driven there (the other classes)."""
    EXT = extreme_precisions()
    for _ in range(n):
        B = rng.choice(BASES); m = rng.choice(MODES)
        p = rng.choice(EXT) if rng.random() < 0.8 else rng.choice([UMAX, UMAX - 1, UMAX - 2, 2 ** 63, UMAX // 3 + 1])
        ld = rng.choice([1, 2, 7, 20, 40]); rd = rng.choice([1, 2, 7, 20, 40])
        a = rand_sig(rng, B, ld) * rng.choice([1, -1]); b = rand_sig(rng, B, rd) * rng.choice([1, -1])
        ea = rng.choice([0, 3, -5, 60])
        # exponent gaps on both sides of `digits_ub(small) + 1 < ediff` (the guard in front of the sum that overflows)
        eb = ea - rng.choice([0, 0, 1, 2, rd, rd + 1, rd + 2, rd + 3, rd + 6, 50, 200])
        if rng.random() < 0.06:
            a = 0; ea = 0
        elif rng.random() < 0.06:
            b = 0; eb = 0
        x, y = (a, ea), (b, eb)
        if rng.random() < 0.5:
            x, y = y, x
        op = rng.choice(["add", "sub", "add", "sub", "mul", "sqr", "cubic", "div", "inv", "sqrt"])
        ctx = rng.random() < 0.6
        if op == "sqrt":
            # sqrt at p >= 2^62 returns at once (`precision as isize * 2` overflows or is negative): perfect squares (the
            # exact root is required), non-squares, zero, negative; below 2^62 a large p needs ~2p digits of memory
            p = rng.choice([2 ** 62, 2 ** 62 + 1, 2 ** 63 - 1, 2 ** 63, 2 ** 63 + 1, UMAX - 2 ** 62 - 1, UMAX - 2 ** 62,
                            UMAX - 2 ** 62 + 1] + [UMAX - k for k in (0, 0, 1, 2, 3, 64, 130)])
            w = rand_sig(rng, B, rng.choice([1, 1, 2, 9]))
            sq = rng.choice([w * w, w * w, w * w + 1, w, 0, -w * w, 1, B])
            x = normalize(B, sq, rng.choice([0, 2, -4, 1, -3, 60]))
        if op == "div":
            if y[0] == 0:
                y = (1, y[1])
            # exact multiple whose normalised significand is still a multiple of the divisor's (first div_rem leaves no
            # remainder: the only division that does not need ~p digits of memory)
            q = rand_sig(rng, B, rng.choice([1, 3, 10])) * rng.choice([1, -1, 0])
            while q != 0 and (y[0] * q) % B == 0:
                q += 1
            x = normalize(B, y[0] * q, x[1])
        if op == "inv":
            x = (rng.choice([1, -1]), rng.choice([0, 1, -7, 40]))
        if op in ("sqr", "cubic", "inv", "sqrt"):
            if ctx:
                yield Case("c." + op, [fenc(B, x[0], x[1], 0, m), dec(p)])
            else:
                yield Case("f." + op, [fenc(B, x[0], x[1], p, m)])
        elif ctx:
            yield Case("c." + op, [fenc(B, x[0], x[1], 0, m), fenc(B, y[0], y[1], 0, m), dec(p)])
        else:
            pa, pb = rng.choice([(p, p), (p, max(ndigits(B, y[0]), 1)), (max(ndigits(B, x[0]), 1), p), (p, rng.choice(EXT))])
            yield Case("f." + op, [fenc(B, x[0], x[1], pa, m), fenc(B, y[0], y[1], pb, m)])

def _repr_div_qr(B, a, D, p):
    """the (|q|, |r|) that Context::repr_div (float/src/div.rs) hands to Round::round_ratio for significands a / D at precision p
    (None: the division is exact)"""
    sa, sd = abs(a), abs(D)
    q, r = divmod(sa, sd)
    if r == 0:
        return None
    dd = ndigits(B, sd)
    if q == 0:
        q, r = divmod(r * B ** (dd + p - ndigits(B, r)), sd)
    else:
        nd = ndigits(B, q) + dd
        if nd < dd + p:
            sh = dd + p - nd
            q0, r = divmod(r * B ** sh, sd)
            q = q * B ** sh + q0
    return (q, r) if r else None

def gen_div_halftest(rng, n):
    """round 6 (seed C03-7): the half test of Round::round_ratio compares 2*|rem| with |den| on the FULL numbers.  Input class
    from that comparison and the word layout of its operands: divisor significand of bit length w*k + {1,2,3} (top word 1,
    2..3, 4..7), w*k (full top word) and w*k - 1 for w in {64, 32}, k in 1..3 - so that remainders >= den/2 exist that occupy
    FEWER words than the divisor - with the remainder that reaches round_ratio placed at den/2 (+-1), at the largest / half of
    the largest value with one word fewer than the divisor, at den - 1 and at random in [den/2, den).  Half of the cases
    construct the dividend q*den + rem directly (q of exactly p digits: repr_div's first div_rem is final, Context::div, any
    p >= 1); the other half sample dividends that FIT the precision (p >= digits(divisor), i.e. >= 20 decimal digits / 65 bits)
    until repr_div's scaled remainder falls in that class (FBig `/` in all forms, Context::div, inv).  Mostly HalfEven /
    HalfAway (the modes that run the half test), directed modes as control."""
    for _ in range(n):
        B = rng.choice(BASES); m = rng.choice("EHEHEHEHZAUD")
        w = rng.choice([64, 64, 64, 32]); k = rng.choice([1, 1, 1, 2, 2, 3])
        bl = w * k + rng.choice([1, 1, 1, 1, 2, 3, 0, -1])
        pat = rng.choice(["lo", "lo", "rnd", "rnd", "hi", "sparse"])
        if pat == "lo":
            D = (1 << (bl - 1)) + rng.randrange(1, 1 << 16)
        elif pat == "hi":
            D = (1 << bl) - rng.randrange(1, 1 << 16)
        elif pat == "sparse":
            D = (1 << (bl - 1)) | (1 << rng.randrange(0, bl - 1)) | 1
        else:
            D = rng.randrange(1 << (bl - 1), 1 << bl)
        while D % B == 0:
            D += 1
        dd = ndigits(B, D)
        Wb = 1 << (w * k)            # values below it have fewer words than a divisor of more than w*k bits
        half = (D + 1) // 2
        sa, sb = rng.choice([1, -1]), rng.choice([1, -1])
        ea = rng.choice([0, 1, -2, 11]); eb = rng.choice([0, -1, 3, -17])
        if rng.random() < 0.5:
            p = rng.choice([1, 2, 3, 5, 8, 24, rng.randrange(1, 40)])
            q = rand_sig(rng, B, p)
            cands = [half, D // 2, half + 1, D // 2 - 1, D - 1, Wb - 1, Wb // 2, Wb // 2 + 1, rng.randrange(D // 2, D)]
            if half < min(D, Wb):
                cands += [rng.randrange(half, min(D, Wb))] * 4
            r = rng.choice([c for c in cands if 0 < c < D])
            a = q * D + r
            if a % B == 0:
                a += 1 if r + 1 < D else -1
            yield Case("c.div", [fenc(B, sa * a, ea, 0, m), fenc(B, sb * D, eb, 0, m), dec(p)])
            continue
        p = max(dd, rng.choice(PRECS + [dd, dd, dd + 1, dd + 5]))
        inv = rng.random() < 0.1
        a = 1
        for t in range(60):
            if inv:
                # inv: the divisor is the only free operand
                D = D + 2 if t else D
                while D % B == 0:
                    D += 1
                if ndigits(B, D) > p:
                    break
                half = (D + 1) // 2
            else:
                a = rng.randrange(1, 200) if rng.random() < 0.4 else rand_sig(rng, B, rng.choice([1, 2, 3, p, rng.randrange(1, p + 1)]))
            qr = _repr_div_qr(B, a, D, p)
            if qr and qr[1] >= D // 2 and (qr[1] < Wb or D < Wb or t >= 40):
                break
        if inv:
            if ndigits(B, D) > p:
                continue
            if rng.random() < 0.5:
                yield Case("c.inv", [fenc(B, sb * D, eb, 0, m), dec(p)])
            else:
                yield Case("f.inv", [fenc(B, sb * D, eb, p, m)])
        elif rng.random() < 0.4:
            yield Case("c.div", [fenc(B, sa * a, ea, 0, m), fenc(B, sb * D, eb, 0, m), dec(p)])
        else:
            pa = rng.choice([p, p, max(ndigits(B, a), 1)])
            yield Case("f.div", [fenc(B, sa * a, ea, pa, m), fenc(B, sb * D, eb, p, m)])

IMIN, IMAX = -2 ** 63, 2 ** 63 - 1
def gen_sqrt_exponents(rng, n):
    """addendum E1 for the `isize` exponent of the operand of sqrt (the result's exponent is about half of it, so it is
    always representable): isize::MIN + k (k = 0 .. 2p+6: `exponent - digits` and `exponent - shift` of root.rs underflow
    there), isize::MAX - k, +-2^62, +-2^32, +-2^20 and neighbours; perfect squares and random radicands of 1..3p digits"""
    for _ in range(n):
        B = rng.choice(BASES); m = rng.choice(MODES); p = rng.choice([1, 2, 3, 5, 8, 24])
        d = rng.choice([1, 1, 2, p, max(1, p - 1), 2 * p, 2 * p + 1, 3 * p])
        if rng.random() < 0.4:
            k = rand_sig(rng, B, max(1, (d + 1) // 2)); s = k * k
        else:
            s = rand_sig(rng, B, d)
        e = rng.choice([IMIN + rng.randrange(0, 2 * p + 7), IMIN + rng.randrange(0, 2 * p + 7), IMIN, IMIN + 1,
                        IMAX - rng.randrange(0, 7), IMAX - rng.randrange(0, 3 * p + 4), 2 ** 62, -2 ** 62, 2 ** 62 + 1, -2 ** 62 - 1,
                        2 ** 32, -2 ** 32 - 1, 2 ** 20, -2 ** 20 - 1, 2 ** 31 - 1, -2 ** 31])
        s, e = normalize(B, s, e)
        if not (IMIN <= e <= IMAX):
            continue
        if ndigits(B, s) <= p and rng.random() < 0.7:
            yield Case("f.sqrt", [fenc(B, s, e, p, m)])
        else:
            yield Case("c.sqrt", [fenc(B, s, e, 0, m), dec(p)])

def gen_addsub_exponents(rng, n):
    """round 6, addendum E1 for the `isize` exponents of the operands of add / sub (float/src/add.rs: `lhs.exponent -
    rhs.exponent`, `ldigits + ediff`, `exponent -= shift`): one or both exponents in {MIN+k, MAX-k, +-2^62 (+-1), +-2^63/2,
    +-2^40, +-2^32, +-2^31}, gaps on both sides of 2^63 (the isize overflow of the gap), gaps of 0..p+3 digits at huge common
    exponents (all alignment branches run there too), a zero operand beside an extreme one.  Operands fit p (1 <= p <= 100) and
    the result's exponent stays inside isize (exponents near MAX keep a margin for carries).  Model side: Driver/Float
    addSubHuge (offset/gap reduction, checked against the unreduced model run)."""
    for _ in range(n):
        B = rng.choice(BASES); m = rng.choice(MODES); p = rng.choice([1, 2, 3, 5, 8, 24, 53, 100, rng.randrange(1, 101)])
        ld = rng.choice([1, p, max(1, p - 1), rng.randrange(1, p + 1)]); rd = rng.choice([1, p, max(1, p - 1), rng.randrange(1, p + 1)])
        a = rand_sig(rng, B, ld) * rng.choice([1, -1]); b = rand_sig(rng, B, rd) * rng.choice([1, -1])
        margin = p + ld + rd + 3
        k = rng.choice([0, 0, 1, 2, 3, ld, rd, p, p + 1, margin, rng.randrange(0, 2 * margin)])
        hi_top = IMAX - margin - rng.choice([0, 0, 1, 5, 40])
        anchors = [IMIN + k, IMIN + k, hi_top, 2 ** 62 - 1, 2 ** 62, 2 ** 62 + 1, -2 ** 62, -2 ** 62 - 1, 2 ** 40, -2 ** 40,
                   2 ** 32, -2 ** 32, 2 ** 31, -2 ** 31 - 1, -2 ** 61, 2 ** 61, 0]
        ea = rng.choice(anchors)
        r = rng.random()
        if r < 0.35:
            # small gaps at a huge common exponent: every alignment branch
            g = rng.choice([0, 1, 2, p - 1, p, p + 1, p + 2, p + 3, rd + 1, rd + 2, abs(p - ld), p - ld + rd + 1, margin])
            eb = ea - max(0, g)
            if eb < IMIN:
                eb = ea + max(0, g)
        elif r < 0.75:
            # gaps around 2^63 (isize overflow of `lhs.exponent - rhs.exponent`) and up to 2^64 - 1
            gap = rng.choice([2 ** 63 - 2, 2 ** 63 - 1, 2 ** 63, 2 ** 63 + 1, 2 ** 63 + rng.randrange(2, 2 ** 20), 2 ** 64 - 1 - margin - rng.randrange(0, 50),
                              rng.randrange(2 ** 62, 2 ** 64 - margin)])
            ea = rng.choice([hi_top, 2 ** 62, 2 ** 62 + 1, 2 ** 63 - 2 ** 20, 0, 7, -1, gap + IMIN + k])
            eb = ea - gap
            if eb < IMIN:
                eb = IMIN + k; ea = eb + gap
            if ea > IMAX - margin:
                continue
        else:
            eb = rng.choice(anchors)
        if ea > IMAX - margin or eb > IMAX - margin or ea < IMIN or eb < IMIN:
            continue
        x, y = (a, ea), (b, eb)
        z = rng.random()
        if z < 0.04:
            x = (0, 0)
        elif z < 0.08:
            y = (0, 0)
        if rng.random() < 0.5:
            x, y = y, x
        op = rng.choice(["add", "sub"])
        if rng.random() < 0.4:
            yield Case("c." + op, [fenc(B, x[0], x[1], 0, m), fenc(B, y[0], y[1], 0, m), dec(p)])
        else:
            pa, pb = rng.choice([(p, p), (p, p), (p, max(ndigits(B, y[0]), 1)), (max(ndigits(B, x[0]), 1), p)])
            yield Case("f." + op, [fenc(B, x[0], x[1], pa, m), fenc(B, y[0], y[1], pb, m)])

def _div_exp_bounds(B, s1, e1, s2, e2, p):
    """(e0, lo, hi): e0 = lhs.exponent - rhs.exponent as repr_div forms it first; every result exponent of the division lies in
    [lo, hi] (the quotient has at most p+1 digits below / dx-dy+1 digits above B^e0, a rounding carry included)"""
    dx, dy = ndigits(B, s1), ndigits(B, s2)
    e0 = e1 - e2
    return e0, e0 + (dx - dy) - p - 1, e0 + (dx - dy) + 1

def gen_div_exponents(rng, n):
    """round 6, E1 for the `isize` exponents of the operands of div / inv (float/src/div.rs: `lhs.exponent - rhs.exponent`,
    `e -= shift`): exponents in {MIN+k, MAX-k, +-2^62, +-2^40, +-2^32}, the difference e0 on both sides of isize::MAX - in
    particular e0 = MAX+j (j <= 5) with a divisor j+1.. digits longer than the dividend, where the RESULT's exponent is back
    inside isize - operands fit p; only cases whose result exponent is certainly representable (conservative bounds)."""
    for _ in range(n):
        B = rng.choice(BASES); m = rng.choice(MODES); p = rng.choice([3, 5, 8, 24, 53, 100, rng.randrange(3, 101)])
        r = rng.random()
        if r < 0.45:
            j = rng.randrange(1, max(2, min(6, p - 1)))
            dx = rng.randrange(1, max(2, p - j)); dy = min(p, dx + 1 + j + rng.choice([0, 0, 1, 3]))
            if dy < dx + 1 + j:
                continue
            e2 = -rng.choice([1, 2, 5, 17, 2 ** 20, 2 ** 62, IMAX - 40]) ; e1 = IMAX + j + e2
            if e1 > IMAX:
                continue
        else:
            dx = rng.choice([1, p, rng.randrange(1, p + 1)]); dy = rng.choice([1, p, rng.randrange(1, p + 1)])
            anchors = [IMIN + rng.randrange(0, 50), IMAX - rng.randrange(0, 50), 2 ** 62, -2 ** 62, 2 ** 40, -2 ** 40, 2 ** 32, -2 ** 32, 0, 3, -7]
            e1 = rng.choice(anchors); e2 = rng.choice(anchors)
        a = rand_sig(rng, B, dx) * rng.choice([1, -1]); b = rand_sig(rng, B, dy) * rng.choice([1, -1])
        if rng.random() < 0.15:
            q = rand_sig(rng, B, rng.randrange(1, 4)); a = b * q
            if a % B == 0 or ndigits(B, a) > p:
                continue
        e0, lo, hi = _div_exp_bounds(B, a, e1, b, e2, p)
        if lo < IMIN or hi > IMAX or (e0 < IMIN):
            continue
        if rng.random() < 0.4:
            yield Case("c.div", [fenc(B, a, e1, 0, m), fenc(B, b, e2, 0, m), dec(p)])
        else:
            yield Case("f.div", [fenc(B, a, e1, p, m), fenc(B, b, e2, p, m)])

def kf_sqrt_exponent_overflow(args):
    """(repaired by /repo 8f4bf4b: `fixed:` line, no entry calls this any more; kept as the description of the input class that
    gen_sqrt_exponents drives.)
    `x.exponent - digits` (parity test) or `x.exponent - shift` (result exponent) of Context::sqrt leaves the isize range,
    shift = 2p - digits - ((exponent - digits) & 1): exponents within ~2p of isize::MIN (and within digits - 2p of
    isize::MAX for over-long operands); the true result exponent (about half) is representable"""
    B, sg, e, pf, m = fdec(args[0])
    p = int(args[1][2:]) if len(args) > 1 else pf
    if p == 0 or p >= 2 ** 62 or sg < 0:
        return False
    d = ndigits(B, sg)
    if not (IMIN <= e - d <= IMAX):
        return True
    shift = 2 * p - d - ((e - d) & 1)
    return not (IMIN <= e - shift <= IMAX)

def kf_precision_overflow(kind, args, impl):
    """(kinds "mul", "cubic", "add", "div": repaired by /repo 5768014 - their entries are `fixed:` lines now and nothing calls
    these kinds any more; kind "sqrt" is still a finding.)
    `usize` arithmetic on the precision overflows (debug build: `attempt to add/multiply with overflow`; release build:
    wraps - operands pre-shrunk to the wrapped length / the far-apart branch taken wrongly):
    kind "mul" (mul, sqr): `2 * precision` (p > usize::MAX/2); "cubic": `3 * precision` (p > usize::MAX/3);
    "add" (add, sub): `precision + is_sub` and `digits_ub(small) + 1 + rnd_precision` (add.rs); "div" (div, inv):
    `digits_lb(rhs) + precision` and the debug assertion `precision + rhs.digits()` (div.rs) - precision within a digit
    count of usize::MAX; the f32 estimate in that sum is pinned down by the site of the overflow the implementation reports."""
    import re
    p = _p("c." if args[-1].startswith("d:") else "f.", args)
    if kind == "mul":
        return p > UMAX // 2
    if kind == "cubic":
        return p > UMAX // 3
    if kind == "add":
        return p >= UMAX - 2 ** 20 and re.search(r"float/src/add\.rs:\d+\|attempt_to_add_with_overflow", impl) is not None
    if kind == "div":
        return p >= UMAX - 2 ** 20 and re.search(r"float/src/div\.rs:\d+\|attempt_to_add_with_overflow", impl) is not None
    if kind == "sqrt":
        # `self.precision as isize * 2` (root.rs): overflows for 2^62 <= p < 2^64 - 2^62 (debug panic / release wrap) and is
        # NEGATIVE above (all digits are split off as `low`, the root of 0 is returned flagged Inexact); only sqrt(0) at
        # p > 2^64 - 2^62 still comes out right (at p = 2^64 - 2^62 the shift is isize::MIN and `-shift` overflows)
        sg = fdec(args[0])[1]
        return p >= 2 ** 62 and sg >= 0 and not (sg == 0 and p > 2 ** 64 - 2 ** 62)
    return False

def generate(rng, tier):
    k = 1 if tier == "quick" else 80
    yield from gen_addsub(rng, 2600 * k)
    yield from gen_muldiv(rng, 1500 * k)
    yield from gen_unary(rng, 1500 * k)
    yield from gen_addsub(rng, 500 * k, ctx_long=True)
    yield from gen_muldiv(rng, 400 * k, ctx_long=True)
    yield from gen_unary(rng, 400 * k, ctx_long=True)
    yield from gen_unlimited(rng, 200 * k)
    yield from gen_extreme(rng, 700 * k)
    yield from gen_sqrt_allbits(rng, 500 * k)
    yield from gen_sqrt_exponents(rng, 300 * k)
    yield from gen_div_halftest(rng, 600 * k)
    yield from gen_addsub_exponents(rng, 500 * k)
    yield from gen_div_exponents(rng, 400 * k)

def nontrivial(c):
    return True

RULE = ("modes x bases {2,3,10,16,36} x p in {1,2,3,5,8,24,53,100}; add/sub operand pairs built from the branch conditions of add.rs: "
        "exponent gap in {0,1,2, |ldigits-p|+-1, p-1..p+2, rdigits-3..+4, p-ldigits(+1,+rdigits..+rdigits+3), p+rdigits+1..+3, 3p+10, 5p+40}, "
        "64..400-digit operands with the gap at both far-apart thresholds moved by {-4%,-2.5%,-1.6% of the length, -3..+2}, digit "
        "counts {1,p-1,p,random}, cancellation to 0 / to one ulp, ties and near-ties at the rounding position (half, half+-1, half "
        "followed by zeros and a sticky digit), carries out of B^p-1, sticky-only operands, zero operands, operands swapped, mixed "
        "precisions; mul/div: digit counts {1,p-1,p}, exact quotients, quotients ending in a half, small divisors, divisor 0, products "
        "with a half low part; sqrt: digit-count parity x exponent parity x perfect squares, k^2+-1, remainder == root with the low digits "
        "around 1/4 and 1/2 of the scale, negative, zero; sqr/cubic/inv; the "
        "same through the Context methods with operands longer than p, 2p, 3p digits (c.* ops); unlimited precision: both operands "
        "unlimited, one unlimited operand longer than the other's precision (operators at Context::max), Context precision 0. f.* cases run the "
        "Context method and all operator/method forms. sqrt Exact-flag class: perfect-square prefix of 2p-1/2p digits followed by k in "
        "{1,2,3,8,p,2p+1} discarded digits {1, B^k-1, B^k/2, B^k/4, B^(k-1), random} with the parity that splits exactly those off. "
        "Extreme precisions (addendum E1): p in {63,64,65,128,2^31,2^32-1,2^32,2^32+k (k<130),2^62-1,2^62,2^63-1,2^63,2^63+1, "
        "usize::MAX/3 +-1, usize::MAX/2 +-1, usize::MAX-k (k=0..130)} for c.*/f.* add, sub, mul, sqr, cubic (short operands, exponent "
        "gaps on both sides of digits_ub+1), div of exact multiples, inv of +-B^e, and sqrt at p >= 2^62 (perfect squares, "
        "non-squares, zero, negative) - every call that does not need memory proportional to p. Addendum E2: 15 % of all cases at a "
        "precision drawn from 1..130; sqrt of k^2-1, k^2, k^2+1 for k of every bit length 1..140 and of B^j-1, B^j, B^j+1 (j < 80) at "
        "the precision of the operand, of the root, and one beside it; sqrt with the operand's isize exponent in {MIN+k (k <= 2p+6), "
        "MAX-k, +-2^62, +-2^32, +-2^31, +-2^20} (model side through the scale invariance of sqrt). Round 6: division half-test class "
        "(round_ratio compares 2*|rem| with |den|): divisor significand of bit length w*k+{1,2,3}, w*k, w*k-1 (w in {64,32}, k<=3), the "
        "remainder handed to round_ratio at den/2 (+-1), at the largest / half of the largest value with one word fewer than the "
        "divisor, den-1, random in [den/2, den); constructed dividends q*den+rem (Context::div, any p) and sampled operands that fit "
        "p >= digits(den) (operators, Context::div, inv). add/sub with isize-extreme exponents: one or both exponents in {MIN+k, MAX-"
        "margin-k, +-2^62(+-1), +-2^61, +-2^40, +-2^32, +-2^31}, gaps 0..p+3 at a huge common exponent (all alignment branches), gaps "
        "2^63-2 .. 2^63+2^20 and up to 2^64-1 (isize overflow of the gap), a zero operand beside an extreme one (model side: "
        "Driver/Float addSubHuge - common offset removed, far-apart gap reduced, checked against the unreduced model run). div with "
        "isize-extreme exponents: exponents {MIN+k, MAX-k, +-2^62, +-2^40, +-2^32}, the difference lhs.exponent - rhs.exponent on "
        "both sides of isize::MAX (MAX+j, j <= 5, with a divisor at least j+1 digits longer, so that the result's exponent is "
        "representable again); only cases whose result exponent is certainly inside isize (model side: Driver/Float divHugeStr). "
        "distinct := distinct (op,args).")
REFINED = ["Context::repr_round", "Context::mul/sqr/cubic (operands <= 2p/3p digits; all operands without the pre-shrink)", "FBig * FBig",
           "Context::repr_div / div (dividend <= rhs.digits+p) / inv, div_align", "Round::round_ratio",
           "Context::sqrt (scaling + sqrt_rem rounding + half test); its Exact flag = (rem = 0 and discarded low digits = 0) "
           "(sqrt_exact_flag_iff)",
           "Tie A (round 5, Props/GenFloatArith): float/src/mul.rs and div.rs regenerated as typed Lean text - Context::mul/sqr/"
           "cubic, repr_div, Context::div (own pre-shrink decision on digits_lb/digits_ub), Context::inv, FBig*FBig x4 forms, "
           "FBig/FBig x4 forms (impl_div_or_rem_for_fbig!), FBig::sqr/cubic, Inverse for FBig/&FBig - each proved equal, for all "
           "inputs, to the model function the driver runs; the contract restated on the regenerated text "
           "(regenerated_repr_div_contract / _inv_ / _mul_)",
           "Context::add / sub for operands that fit p: repr_add_large_small / repr_add_small_large (4 alignment branches), "
           "repr_round_sum (3 re-alignment branches)",
           "round 7: the two closing clauses for the Context methods AS THEY ARE - representable => exact + Exact flag for "
           "Context::mul/sqr/cubic (operands <= 2p/3p digits) and Context::div (dividend <= rhs.digits+p) "
           "(ctx_*_representable_exact; before only opMul, the pre-shrink-free variants and repr_div had instances); "
           "digit clause of Context::div with NO fit hypothesis (ctx_div_digits_all: every dividend, sound digits_ub/"
           "digits_lb => at most p+1 digits, witness 200456/13 @2 = 154e2 inside the pre-shrink region); "
           "operators_add_sub_contract: FBig + / - (all forms) meet the contract for operands that fit p (flag existential: the "
           "operators drop it) and return a representable sum exactly",
           "round 8: closing clause `representable => exact` INSIDE the regions of the findings decided - Context::div: "
           "fit hypothesis DROPPED (ctx_div_representable_exact_all: every normalised dividend of any length, any digit "
           "estimators, sound or not; a normalised Repr whose value is representable in q digits has <= q digits "
           "(normalized_representable_digits), so the clause is vacuous in DivShrinkRegion: div_region_not_representable; "
           "witness 2197/13 @3 with slack estimators that do trigger the pre-shrink); Context::mul: REFUTED for directed "
           "modes (mul_representable_preshrink_counterexample: 390625*64 = 25e6 @2 Zero returns 24e6 Inexact); Context::add/sub: "
           "REFUTED (add_representable_guard_counterexample: 21e40 - 979775e37 = 1e37, base 36 @1 Down returns 0) - both inside the "
           "input classes of the recorded findings; Context::sqr / cubic: length hypotheses DROPPED "
           "(ctx_sqr_representable_exact_all / ctx_cubic_representable_exact_all: every normalised operand; the clause is "
           "vacuous in SqrShrinkRegion / CubicShrinkRegion: sqr_/cubic_region_not_representable via pow_repr_bound, "
           "B∤s => B^n∤s^n; witness 6^2 = 9*4^1 in base 4, where B | s^2 although B∤s)"]
FRONTIER = ["UBig::sqrt_rem: a parameter with its C12 contract (SqrtRemOk); Props/C03Link composes Context::sqrt with builder-nt's mirrored "
            "sqrtRemRepr (whose word/double-word primitive and Karatsuba kernel are frontier in C12) and proves it equal to the Nat.sqrt "
            "instance the driver runs",
            "f32 estimate digits_ub / digits_lb: parameters with enclosure hypotheses (see C10: Props/C10Est, C10EstNoStd; driver "
            "replica checked on every operand)",
            "Context::sqrt body (float/src/root.rs): hand-mirrored (ctxSqrt/sqrtScale/sqrtRound), tied by correspondence and the "
            "regenerated prologue (Gen/FloatGuards guard_Context_sqrt) only - the typed translator has no reading of the "
            "`as isize` casts, `& 1` and the `round_low_part` closure yet, so no Tie A text for it",
            "machine-integer width of the precision: the model's precision is a Nat. Since fixes 5768014 / 8f4bf4b the code "
            "saturates 2*p, 3*p, p+1, digits+p and computes sqrt's exponent arithmetic in i128, so model and code agree for "
            "every precision up to usize::MAX on add/sub/mul/sqr/cubic/div/inv (driven: gen_extreme; theorems hold for all "
            "p >= 1 with only the operand-LENGTH hypothesis `digits <= usize::MAX` of context_mul_is_model / "
            "regenerated_mul_contract, true of every value in memory). Still NOT mirrored and still a finding: "
            "`self.precision as isize * 2` in Context::sqrt (root.rs:52) for p >= 2^62",
            "machine-integer width of the exponents: the model's exponents are Ints. add/sub/div are driven at the isize limits "
            "(round 6: gen_addsub_exponents, gen_div_exponents) and agree with the code since fixes f187713 (exponent gap >= 2^63) "
            "and 545c24c (lhs.exponent - rhs.exponent > isize::MAX with a representable result). NOT driven: mul/sqr/cubic/inv at "
            "extreme exponents, and every result whose exponent leaves isize (exponent sums, `e -= shift` of repr_div at "
            "isize::MIN, carries at isize::MAX) - no documented behaviour to compare with",
            "clause `|r - x| < 1 ulp` for Context methods on Reprs longer than the working length: only `_partial` / "
            "`*_contract_outside_region` theorems (the code violates the clause inside the regions: counterexample theorems)"
            "; the clause `at most p+1 digits` is no longer partial for Context::div (round 7, ctx_div_digits_all) nor for add/sub "
            "(add_sub_digits); `representable => exact` inside the regions (round 8): proved for Context::div (vacuous there "
            "for normalised dividends) and Context::sqr / cubic (vacuous there for normalised operands), refuted by counterexample "
            "theorems for Context::mul (directed modes) and add/sub; still neither proved nor refuted: Context::mul inside "
            "MulShrinkRegion for the nearest modes (HalfEven/HalfAway); all `_all` theorems assume Normalized operands "
            "(what Repr::new builds) - un-normalised Reprs are not covered"]
THEOREMS = ["Dashu.Props.C03." + t for t in (
    "mul_operator_contract mul_contract_partial mul_preshrink_counterexample sqr_contract_partial cubic_contract_partial "
    "add_sub_contract add_sub_far_contract round_sum_contract operators_add_sub div_contract ctx_div_contract_partial inv_contract "
    "div_panics sqrt_contract sqrt_panics representable_exact add_sub_representable_exact div_representable_exact "
    "sqrt_representable_exact repr_round_digits mul_sqr_cubic_digits sqrt_digits add_sub_digits div_digits "
    "mul_contract_outside_region div_contract_outside_region add_sub_contract_outside_region div_preshrink_counterexample "
    "add_guard_digit_counterexample sqrt_exact_flag_iff sqrt_discarded_low_inexact "
    "ctx_mul_representable_exact ctx_sqr_representable_exact ctx_cubic_representable_exact ctx_div_representable_exact "
    "ctx_div_digits_all ctx_div_digits operators_add_sub_contract "
    "dividend_representable normalized_representable_digits div_region_not_representable ctx_div_representable_exact_all "
    "mul_representable_preshrink_counterexample add_representable_guard_counterexample "
    "pow_repr_bound sqr_region_not_representable cubic_region_not_representable ctx_sqr_representable_exact_all ctx_cubic_representable_exact_all").split()] + [
    "Dashu.Props.C03Link.sqrt_contract_over_sqrt_rem", "Dashu.Props.C03Link.kernels_agree",
    "Dashu.Props.C03Link.sqrt_exact_flag_over_sqrt_rem"] + [
    "Dashu.Props.GenFloatArith." + t for t in (
    "context_mul_is_model context_sqr_is_model context_cubic_is_model mul_ref_ref_is_model mul_val_ref_is_model "
    "mul_ref_val_is_model mul_val_val_is_model mul_forms_agree repr_div_is_model context_div_is_model context_inv_is_model "
    "div_val_val_is_model div_ref_val_is_model div_val_ref_is_model div_ref_ref_is_model div_operator_eq_context_div "
    "inv_val_is_model inv_ref_is_model fbig_sqr_is_model fbig_cubic_is_model regenerated_repr_div_contract "
    "regenerated_inv_contract regenerated_mul_contract").split()]
EXPLANATION = ("Lean theorems over Rat for every base >= 2, precision >= 1, mode and operand: repr_round satisfies the rounding contract; "
               "mul/sqr/cubic follow from it (operands up to 2p/3p digits, i.e. all that fit p); add/sub for ALL operands that fit p - "
               "zero operands, equal exponents and the four alignment branches (far-apart with the sticky stand-in, two splitting "
               "branches, full alignment) composed with the three re-alignment branches of repr_round_sum, for every sound digits_ub "
               "estimator; repr_div / inv via the quotient-remainder identity, the digit analysis of its three re-alignment cases and "
               "round_ratio; sqrt (comparisons with the irrational root stated on squares) for the scaling repaired by 92fc29e; the "
               "documented panics of div and sqrt; the two closing clauses as theorems: a true result representable in p digits is "
               "returned exactly and flagged Exact (consequence of the contract: the result lies on the grid of the error unit), and "
               "no result has more than p+1 digits - exactly p+1 only for an effective subtraction of operands with different "
               "exponents (guard digit) and for quotients whose significand quotient is 0 or has >= p digits; mul/sqr/cubic/sqrt "
               "never exceed p. Context methods on Reprs LONGER than the working length violate the contract in the "
               "code as it is (pre-shrink double rounding in mul/sqr/cubic/div, single guard digit in add/sub): recorded findings, "
               "partial theorems carry the excluding hypothesis, with a counterexample theorem. Beside every model result the driver "
               "evaluates the contract in exact rational arithmetic.")
ASSUMPTIONS = ["f32 log2 estimates satisfy their enclosure hypotheses (checked on every driven operand)",
               "IBig/UBig kernels (mul, div_rem, pow, sqrt_rem, shifts) at their specification (C01/C02/C12)"]
LEVEL_TEXT = ("Machine-checked Lean 4 theorems (all bases, precisions, modes, operands that fit the precision) that add, sub, mul, div, "
              "inv, sqrt, sqr and cubic of the mirrored model honour the rounding contract stated over Rat (Exact iff equal; otherwise "
              "< 1 ulp, <= 1/2 ulp for the nearest modes; side condition of the directed modes; AddOne/SubOne tell the side), on top of "
              "the mode tables regenerated from float/src/round.rs; every model result of the correspondence run is additionally "
              "checked against an executable form of the contract in exact rational arithmetic. The model is tied to /repo twice: the bodies of "
              "float/src/{repr,add,mul,div}.rs (repr_round, repr_round_sum, both alignment routines, Context::add/sub/mul/sqr/cubic/"
              "repr_div/div/inv and every FBig operator form of + - * /, sqr, cubic, inv) are regenerated from the Rust source on "
              "every run and proved equal to the model functions (a semantic edit there breaks a Lean build), and all of it - "
              "including the hand-mirrored Context::sqrt - by differential execution over operands built from every branch "
              "condition, all call forms (Context methods and six operator forms) and extreme usize precisions.")
LEVEL_NOTE = ("Trusted: Lean kernel; axioms propext/Classical.choice/Quot.sound; correspondence harness + generators (sampling) for the "
              "hand-written model; integer kernels at their specifications. Defects found here and repaired in /repo (sqrt double "
              "rounding and Exact flag 92fc29e, base-2 far-apart addition tie 0d97e26, sub from zero d197d6e) stay as regression "
              "cases in corpus/C03; the remaining ones (pre-shrink double rounding in mul/sqr/cubic/div and deep cancellation in "
              "add/sub, all only for Reprs longer than the working length, i.e. outside `operands that fit p`; and the usize/isize "
              "overflows of the precision arithmetic for precisions near usize::MAX, found in round 5) are recorded in "
              "known_findings.jsonl.")
TECHNIQUE = "Lean 4 proofs over a mirrored model + executable rational contract check + differential correspondence"
